"""Common machinery for the tapkee Lean-4 verification checks (see DESIGN.md §2, §4).

A check module (checks/cXX.py) defines

    PROPERTY   = "C16"
    LEAN_MODULES = ["TapkeeVerif.Props.C16"]          # built + audited
    LEAN_EXES    = ["model_c16"]                      # core-only model drivers
    REQUIRED_THEOREMS = [...]                         # must exist in the Props module
    def translate(ctx): ...                           # optional: regenerate Gen/*.lean
    def correspond(ctx): ...                          # run model vs implementation

and uses the Ctx API below.  check.py drives: translate -> lean build -> audit ->
correspond -> verdict -> evidence.
"""
import fcntl
import hashlib
import json
import os
import re
import shutil
import subprocess
import sys
import threading
import time

ROOT = os.path.dirname(os.path.abspath(__file__))
REPO = os.environ.get("TAPKEE_REPO", "/repo")
LEAN_DIR = os.path.join(ROOT, "lean")
BUILD_DIR = os.path.join(ROOT, ".build")
EVIDENCE_DIR = os.path.join(ROOT, "evidence")
REPLAY_DIR = os.path.join(ROOT, "replays")
KNOWN_FILE = os.path.join(ROOT, "KNOWN_FINDINGS.json")

ALLOWED_AXIOMS = {"propext", "Classical.choice", "Quot.sound"}
FORBIDDEN = re.compile(
    r"\bsorry\b|\badmit\b|^\s*axiom\s|native_decide|bv_decide|implemented_by|\bunsafe\s|maxHeartbeats\s+0\b")

HARNESS_FLAGS = [
    "-std=gnu++23", "-O1", "-g", "-fopenmp",
    "-fsanitize=address,undefined", "-fno-sanitize-recover=all",
    "-D_GLIBCXX_ASSERTIONS", "-DTAPKEE_VERIF", "-DTAPKEE_USE_LGPL_COVERTREE",
    "-DFMT_HEADER_ONLY=1", "-Wno-deprecated-declarations",
    "-I" + os.path.join(REPO, "include"), "-I" + os.path.join(ROOT, "harness"),
    "-isystem", "/root/miniconda/include", "-isystem", "/usr/include/eigen3",
]
# same flags without sanitizers (for large/slow sweeps, TSan builds add their own)
FAST_FLAGS = [f for f in HARNESS_FLAGS if not f.startswith("-fsanitize") and not f.startswith("-fno-sanitize")
              and f != "-O1"] + ["-O2"]

TRUSTED_BASE = [
    "Lean 4.33 kernel; axioms limited to propext, Classical.choice, Quot.sound (audited every run by #print axioms)",
    "no sorry/admit/native_decide/bv_decide/own axioms (grep-audited every run)",
    "Mathlib v4.33 definitions used in statements (Matrix, Finset.sum, ordered fields) where a Props file imports them",
    "hand-written Lean model tied to /repo by the correspondence harness (differential; reach bounded by generators)",
    "tools/translate.py + the C++ front ends it calls for every Gen/*.lean table",
    "g++ 12.2, libstdc++, libgomp, Eigen 3.4, ASan/UBSan for the harness side; Lean compiler/runtime (GMP Nat/Int/Rat) for the driver",
]


_RETRY = threading.local()


class SplitMix64:
    """All randomness of a check derives from one of these, seeded by VERIF_SEED."""

    def __init__(self, seed):
        self.s = seed & 0xFFFFFFFFFFFFFFFF

    def next(self):
        self.s = (self.s + 0x9E3779B97F4A7C15) & 0xFFFFFFFFFFFFFFFF
        z = self.s
        z = ((z ^ (z >> 30)) * 0xBF58476D1CE4E5B9) & 0xFFFFFFFFFFFFFFFF
        z = ((z ^ (z >> 27)) * 0x94D049BB133111EB) & 0xFFFFFFFFFFFFFFFF
        return z ^ (z >> 31)

    def below(self, n):
        return self.next() % n if n > 0 else 0

    def range(self, lo, hi):
        """inclusive"""
        return lo + self.below(hi - lo + 1)

    def chance(self, num, den):
        return self.below(den) < num

    def choice(self, xs):
        return xs[self.below(len(xs))]

    def shuffle(self, xs):
        xs = list(xs)
        for i in range(len(xs) - 1, 0, -1):
            j = self.below(i + 1)
            xs[i], xs[j] = xs[j], xs[i]
        return xs

    def fork(self):
        return SplitMix64(self.next())


def sh(cmd, **kw):
    return subprocess.run(cmd, stdout=subprocess.PIPE, stderr=subprocess.STDOUT, text=True, **kw)


def repo_hash():
    """content hash of everything the harnesses / translator read from /repo"""
    h = hashlib.sha256()
    for top in ("include", "src"):
        for d, dirs, files in sorted(os.walk(os.path.join(REPO, top))):
            dirs.sort()
            for f in sorted(files):
                p = os.path.join(d, f)
                h.update(p.encode())
                with open(p, "rb") as fh:
                    h.update(fh.read())
    return h.hexdigest()[:16]


def repo_head():
    r = sh(["git", "-C", REPO, "rev-parse", "--short", "HEAD"])
    d = sh(["git", "-C", REPO, "status", "--porcelain", "--untracked-files=no"])
    return r.stdout.strip() + ("+dirty" if d.stdout.strip() else "")


class Lock:
    def __init__(self, name):
        os.makedirs(BUILD_DIR, exist_ok=True)
        self.path = os.path.join(BUILD_DIR, name + ".lock")

    def __enter__(self):
        self.fh = open(self.path, "w")
        fcntl.flock(self.fh, fcntl.LOCK_EX)
        return self

    def __exit__(self, *a):
        fcntl.flock(self.fh, fcntl.LOCK_UN)
        self.fh.close()


class CompileSlot:
    """at most N_SLOTS harness compilations at a time across all concurrently running checks (an ASan build of
    tapkee.hpp needs ~2 GB; unbounded parallel builds got compilers OOM-killed)"""
    N_SLOTS = 6      # upper bound; the effective number is scaled to the memory available now (see slots())

    @classmethod
    def slots(cls):
        """an ASan -O1 build of tapkee.hpp peaks at ~3.5 GB: allow one compile per ~4 GB of MemAvailable, at least 1"""
        try:
            for line in open("/proc/meminfo"):
                if line.startswith("MemAvailable:"):
                    gb = int(line.split()[1]) / (1024.0 * 1024.0)
                    return max(1, min(cls.N_SLOTS, int(gb // 4)))
        except Exception:
            pass
        return 2

    def __enter__(self):
        os.makedirs(BUILD_DIR, exist_ok=True)
        self.fh = None
        while self.fh is None:
            for i in range(self.slots()):
                fh = open(os.path.join(BUILD_DIR, "compile-slot-%d.lock" % i), "w")
                try:
                    fcntl.flock(fh, fcntl.LOCK_EX | fcntl.LOCK_NB)
                    self.fh = fh
                    break
                except OSError:
                    fh.close()
            if self.fh is None:
                time.sleep(1.0)
        return self

    def __exit__(self, *a):
        fcntl.flock(self.fh, fcntl.LOCK_UN)
        self.fh.close()


class TreeLock:
    """Runs against /repo hold this lock SHARED for their whole duration; a run against a scratch copy (TAPKEE_REPO)
    holds it EXCLUSIVELY, because it regenerates the shared Gen/*.lean tables and rebuilds the shared model drivers
    from another tree (and restores them before releasing the lock)."""

    def __init__(self, exclusive):
        os.makedirs(BUILD_DIR, exist_ok=True)
        self.exclusive = exclusive

    def __enter__(self):
        # turnstile: whoever waits for the tree lock holds the gate, so a waiting exclusive run is not overtaken for
        # ever by newly arriving shared runs (flock itself gives no fairness)
        gate = open(os.path.join(BUILD_DIR, "tree.gate"), "w")
        fcntl.flock(gate, fcntl.LOCK_EX)
        try:
            self.fh = open(os.path.join(BUILD_DIR, "tree.lock"), "w")
            fcntl.flock(self.fh, fcntl.LOCK_EX if self.exclusive else fcntl.LOCK_SH)
        finally:
            fcntl.flock(gate, fcntl.LOCK_UN)
            gate.close()
        return self

    def __exit__(self, *a):
        fcntl.flock(self.fh, fcntl.LOCK_UN)
        self.fh.close()


def is_scratch_run():
    return os.path.realpath(REPO) != "/repo"


class Failure:
    def __init__(self, kind, signature, what, case=None, detail=None, broken=None):
        self.kind = kind            # "failing-input" | "no-failing-input-found"
        self.signature = signature  # stable id used for KNOWN_FINDINGS matching
        self.what = what
        self.case = case
        self.detail = detail
        self.broken = broken


class Ctx:
    def __init__(self, prop, tier, seed):
        self.prop = prop
        self.tier = tier
        self.seed = seed
        self.rng = SplitMix64(seed * 1000003 + int(prop[1:]))
        self.t0 = time.time()
        self.failures = []
        self.known_hits = []
        self.obligations = []       # (name, discharged?, note)
        self.cov = {"evaluations": 0, "distinct_nontrivial": 0, "traces_validated_against_impl": 0,
                    "samples": [], "rule": ""}
        self.extra = {}
        self.assumptions = []
        self.lean_ok = None
        self.lean_log = ""
        self.axioms = {}
        self._distinct = set()
        self.repo_hash = repo_hash()
        os.makedirs(BUILD_DIR, exist_ok=True)

    # ---------------------------------------------------------------- logging
    def log(self, *a):
        print("[%s %6.1fs]" % (self.prop, time.time() - self.t0), *a, flush=True)

    # ---------------------------------------------------------------- lean
    def lean_build(self, modules, exes):
        targets = list(modules) + list(exes)
        with Lock("lake"):
            r = sh(["lake", "build"] + targets, cwd=LEAN_DIR)
        self.lean_log = r.stdout
        self.lean_ok = (r.returncode == 0)
        if not self.lean_ok:
            # which targets still build? (driver must stay usable to hunt for a failing input)
            self.lean_target_ok = {}
            for t in targets:
                with Lock("lake"):
                    rr = sh(["lake", "build", t], cwd=LEAN_DIR)
                self.lean_target_ok[t] = (rr.returncode == 0)
        else:
            self.lean_target_ok = {t: True for t in targets}
        return self.lean_ok

    def lean_sources(self, modules):
        """files belonging to the property (transitively imported TapkeeVerif modules)"""
        seen, todo = [], list(modules)
        while todo:
            m = todo.pop()
            if m in seen:
                continue
            seen.append(m)
            p = os.path.join(LEAN_DIR, m.replace(".", "/") + ".lean")
            if not os.path.exists(p):
                continue
            for line in open(p):
                mm = re.match(r"\s*import\s+(TapkeeVerif\.[\w.]+|Driver\.[\w.]+)", line)
                if mm:
                    todo.append(mm.group(1))
        return [os.path.join(LEAN_DIR, m.replace(".", "/") + ".lean") for m in seen]

    @staticmethod
    def strip_comments(src):
        src = re.sub(r"/-.*?-/", lambda m: "\n" * m.group(0).count("\n"), src, flags=re.S)
        src = re.sub(r"--.*", "", src)
        return src

    def grep_forbidden(self, modules):
        hits = []
        for p in self.lean_sources(modules):
            if not os.path.exists(p):
                continue
            src = self.strip_comments(open(p).read())
            for n, line in enumerate(src.split("\n"), 1):
                if FORBIDDEN.search(line):
                    hits.append("%s:%d: %s" % (os.path.relpath(p, ROOT), n, line.strip()))
        return hits

    def theorems_in(self, module):
        p = os.path.join(LEAN_DIR, module.replace(".", "/") + ".lean")
        src = self.strip_comments(open(p).read())
        names = []
        ns = []
        for line in src.split("\n"):
            m = re.match(r"\s*namespace\s+([\w.]+)", line)
            if m:
                ns.append(m.group(1))
                continue
            m = re.match(r"\s*end\s+([\w.]+)\s*$", line)
            if m and ns and ns[-1] == m.group(1):
                ns.pop()
                continue
            m = re.match(r"\s*(?:@\[[^\]]*\]\s*)?(?:private\s+|protected\s+)?theorem\s+([\w.'₀-₉]+)", line)
            if m:
                names.append(".".join(ns + [m.group(1)]))
        return names

    def audit(self, modules, required):
        """#print axioms for every theorem of the Props modules; returns list of problems"""
        problems = []
        thms = []
        for m in modules:
            thms += self.theorems_in(m)
        # committed obligation list (lean/OBLIGATIONS.json, tools/mkobligations.py): every theorem of a Props module that
        # was there when the list was made must still be there - the obligation count cannot shrink unnoticed
        required = list(required)
        try:
            obl = json.load(open(os.path.join(LEAN_DIR, "OBLIGATIONS.json")))
        except (OSError, ValueError):
            obl = {}
        for m in modules:
            required += [t for t in obl.get(m, []) if t not in required]
        for r in required:
            if r not in thms:
                problems.append("required theorem missing from Props: " + r)
        hits = self.grep_forbidden(modules)
        for h in hits:
            problems.append("forbidden token: " + h)
        if not thms:
            return problems + ["no theorems found"]
        tmp = os.path.join(BUILD_DIR, "audit_%s_%d.lean" % (self.prop, os.getpid()))
        with open(tmp, "w") as f:
            for m in modules:
                f.write("import %s\n" % m)
            for t in thms:
                f.write("#print axioms %s\n" % t)
        r = sh(["lake", "env", "lean", tmp], cwd=LEAN_DIR)
        os.unlink(tmp)
        out = r.stdout
        # parse: "'name' depends on axioms: [a, b]" / "'name' does not depend on any axioms"
        cur = {}
        for m in re.finditer(r"'([^']+)' (does not depend on any axioms|depends on axioms: \[([^\]]*)\])", out, re.S):
            name = m.group(1)
            axs = [a.strip() for a in (m.group(3) or "").replace("\n", " ").split(",") if a.strip()]
            cur[name] = axs
        self.axioms = cur
        for t in thms:
            if t not in cur:
                problems.append("no axiom report for theorem %s (%s)" % (t, out.strip()[:300]))
                self.obligations.append((t, False, "not checked"))
                continue
            bad = [a for a in cur[t] if a not in ALLOWED_AXIOMS]
            if bad:
                problems.append("theorem %s depends on disallowed axioms %s" % (t, bad))
            self.obligations.append((t, not bad, ",".join(cur[t]) or "no axioms"))
        return problems

    def leanchecker(self, modules):
        problems = []
        for m in modules:
            r = sh(["lake", "env", "leanchecker", m], cwd=LEAN_DIR)
            if r.returncode != 0:
                problems.append("leanchecker %s failed: %s" % (m, r.stdout[-500:]))
        return problems

    # ---------------------------------------------------------------- harness
    def build_harness(self, src, name=None, extra=(), flags=None, compiler="g++"):
        """compile harness/<src> against /repo's working tree; cached by content hash"""
        srcp = src if os.path.isabs(src) else os.path.join(ROOT, "harness", src)
        name = name or os.path.splitext(os.path.basename(src))[0]
        flags = list(HARNESS_FLAGS if flags is None else flags) + list(extra)
        h = hashlib.sha256()
        h.update(self.repo_hash.encode())
        h.update(open(srcp, "rb").read())
        for inc in ("vcommon.hpp",):
            ip = os.path.join(ROOT, "harness", inc)
            if os.path.exists(ip):
                h.update(open(ip, "rb").read())
        h.update(" ".join(flags).encode() + compiler.encode())
        out = os.path.join(BUILD_DIR, "%s-%s" % (name, h.hexdigest()[:16]))
        with Lock("harness-" + name):
            if os.path.exists(out):
                return out, ""
            # drop stale builds of this harness (older than 3 h: concurrent runs at other tiers / trees keep theirs)
            for f in os.listdir(BUILD_DIR):
                if f.startswith(name + "-") and not f.endswith(".lock"):
                    fp = os.path.join(BUILD_DIR, f)
                    try:
                        if time.time() - os.path.getmtime(fp) > 3 * 3600:
                            os.unlink(fp)
                    except OSError:
                        pass
            tmp = out + ".tmp%d" % os.getpid()
            for attempt in range(4):
                with CompileSlot():
                    r = sh([compiler] + flags + [srcp, "-o", tmp])
                killed = r.returncode < 0 or "Killed signal" in r.stdout or "internal compiler error: Killed" in r.stdout \
                    or "virtual memory exhausted" in r.stdout or "Cannot allocate memory" in r.stdout
                if r.returncode == 0 or not killed:
                    break
                # the compiler was killed (memory pressure from other builds): not a property of the source - wait, retry
                time.sleep(20 * (attempt + 1))
            if r.returncode != 0:
                return None, r.stdout
            os.rename(tmp, out)
        return out, r.stdout

    def run_impl(self, binary, lines, env=None, timeout=600, args=()):
        e = dict(os.environ)
        e.setdefault("ASAN_OPTIONS", "detect_leaks=0:abort_on_error=0:exitcode=97")
        e.setdefault("UBSAN_OPTIONS", "print_stacktrace=1:exitcode=97")
        if env:
            e.update(env)
        try:
            r = subprocess.run([binary] + list(args), input="\n".join(lines) + "\n", stdout=subprocess.PIPE,
                               stderr=subprocess.PIPE, text=True, env=e, timeout=timeout)
            out = r.stdout.split("\n")
            if out and out[-1] == "":
                out.pop()          # (an unterminated last line is a partial answer and is kept)
            return r.returncode, out, r.stderr
        except subprocess.TimeoutExpired as ex:
            return -999, (ex.stdout or b"").decode(errors="replace").split("\n") if isinstance(ex.stdout, bytes) else [], "timeout"

    @staticmethod
    def sanitizer_summary(stderr):
        """canonical one-token description of a sanitizer / assertion abort"""
        m = re.search(r"ERROR: AddressSanitizer: ([\w-]+)", stderr)
        kind = None
        if m:
            kind = "asan:" + m.group(1)
        else:
            m = re.search(r"runtime error: ([^\n]+)", stderr)
            if m:
                kind = "ubsan:" + re.sub(r"[^A-Za-z]+", "-", m.group(1))[:40]
            elif "Assertion" in stderr or "assertion" in stderr:
                kind = "assert"
        if kind is None:
            return None
        site = ""
        for fm in re.finditer(r"#\d+ 0x[0-9a-f]+ in (.+?) (/\S+?):(\d+)", stderr):
            if "/include/tapkee" in fm.group(2) or "/src/cli" in fm.group(2) or "/include/stichwort" in fm.group(2):
                fn = re.sub(r"\(.*", "", fm.group(1)).split("::")[-1]
                site = "@%s:%s" % (os.path.basename(fm.group(2)), fn)
                break
        return kind + site

    def run_impl_cases(self, binary, lines, env=None, timeout=600, args=(), per_case_timeout=None):
        """one output line per case; a sanitizer abort / crash / timeout becomes the observation
        `abort:<summary>` for the case it happened on and the run resumes with the next case"""
        outs = []
        todo = list(lines)
        while todo:
            rc, out, err = self.run_impl(binary, todo, env=env, timeout=timeout, args=args)
            out = [o for o in out]
            if rc == 0 and len(out) == len(todo):
                outs += out
                break
            n = min(len(out), len(todo))
            # lines completely answered before the crash
            if n == len(todo):
                outs += out[:n]
                break
            outs += out[:n]
            summ = self.sanitizer_summary(err) or ("timeout" if rc in (-999, -14) else "crash:rc=%d" % rc)
            if (summ == "timeout" or rc == -9) and not getattr(_RETRY, "active", False):
                # a watchdog firing (or a SIGKILL from memory pressure) can be machine load, not a hang: the case is
                # confirmed alone before it is believed (flag is per thread: checks call this from worker threads)
                _RETRY.active = True
                try:
                    time.sleep(2.0)
                    again = self.run_impl_cases(binary, [todo[n]], env=env, timeout=timeout, args=args)
                finally:
                    _RETRY.active = False
                if again and not again[0].startswith("abort:timeout") and not again[0].startswith("abort:crash:rc=-9"):
                    outs.append(again[0])
                    self.stat("watchdog-fired-but-case-passed-alone")
                    todo = todo[n + 1:]
                    continue
            outs.append("abort:" + summ)
            self.last_abort_stderr = err[-4000:]
            todo = todo[n + 1:]
        return outs

    def model_exe(self, name):
        return os.path.join(LEAN_DIR, ".lake", "build", "bin", name)

    def run_model(self, exe, lines, timeout=1200, args=()):
        p = self.model_exe(exe)
        r = subprocess.run([p] + list(args), input="\n".join(lines) + "\n", stdout=subprocess.PIPE,
                           stderr=subprocess.PIPE, text=True, timeout=timeout)
        out = r.stdout.split("\n")
        if out and out[-1] == "":
            out.pop()
        return r.returncode, out, r.stderr

    # ---------------------------------------------------------------- accounting
    def count(self, case_key, nontrivial=True, n=1):
        self.cov["evaluations"] += n
        if nontrivial:
            k = hashlib.md5(case_key.encode()).digest()[:8] if isinstance(case_key, str) else case_key
            self._distinct.add(k)

    def sample(self, s, limit=6):
        if len(self.cov["samples"]) < limit:
            self.cov["samples"].append(s)

    def stat(self, key, n=1):
        self.extra.setdefault("distribution", {})
        self.extra["distribution"][key] = self.extra["distribution"].get(key, 0) + n

    # ---------------------------------------------------------------- verdicts
    def fail(self, signature, what, case=None, detail=None):
        """the property's oracle is false on an implementation observation"""
        self.failures.append(Failure("failing-input", signature, what, case, detail))

    def broken(self, signature, broken, what, case=None, detail=None):
        """a proof obligation or the correspondence no longer checks, no failing input (yet)"""
        self.failures.append(Failure("no-failing-input-found", signature, what, case, detail, broken))

    def known(self):
        try:
            kf = json.load(open(KNOWN_FILE))
        except FileNotFoundError:
            return []
        return [k for k in kf.get("open", []) if k.get("property") == self.prop]

    def finish(self, modules):
        evidence_dir = EVIDENCE_DIR
        if is_scratch_run():
            # a run against a scratch copy (seeded change, proposed fix) must not overwrite the evidence of /repo
            evidence_dir = os.path.join(BUILD_DIR, "scratch-evidence")
        os.makedirs(evidence_dir, exist_ok=True)
        known = self.known()
        # a failing input supersedes "no-failing-input-found" reports
        real = [f for f in self.failures if f.kind == "failing-input"]
        soft = [f for f in self.failures if f.kind != "failing-input"]
        reported = []
        seen_sig = set()
        for f in real + soft:
            if f.signature in seen_sig:
                continue
            seen_sig.add(f.signature)
            k = [k for k in known if re.fullmatch(k["signature"], f.signature)] if f.kind == "failing-input" else []
            if k:
                print("KNOWN-FINDING: property=%s %s [%s]" % (self.prop, k[0].get("what", f.what), f.signature))
                self.known_hits.append(f.signature)
                continue
            reported.append(f)
        if [f for f in reported if f.kind == "failing-input"]:
            # broken obligations / correspondences are explained by the NEW failing inputs reported next to them
            # (a failing input that is a listed known finding explains nothing and hides nothing)
            reported = [f for f in reported if f.kind == "failing-input"]
        nviol = 0
        os.makedirs(REPLAY_DIR, exist_ok=True)
        for f in reported:
            nviol += 1
            body = {"property": self.prop, "kind": f.kind, "signature": f.signature, "what": f.what,
                    "case": f.case, "detail": f.detail, "broken": f.broken, "repo_head": repo_head(),
                    "seed": self.seed, "tier": self.tier}
            hh = hashlib.sha256(json.dumps(body, sort_keys=True, default=str).encode()).hexdigest()[:10]
            path = os.path.join(REPLAY_DIR, "%s-%s.json" % (self.prop, hh))
            with open(path, "w") as fh:
                json.dump(body, fh, indent=1, default=str)
            tail = " no-failing-input-found" if f.kind != "failing-input" else ""
            print("VIOLATION property=%s replay=%s%s" % (self.prop, path, tail))
            print("  -> %s" % f.what)
        self.cov["distinct_nontrivial"] = len(self._distinct)
        nob = len(self.obligations)
        ndis = len([o for o in self.obligations if o[1]])
        cov = dict(self.cov)
        cov.update({
            "obligations": nob, "discharged": ndis,
            "checker_cmd": "cd /verif/lean && lake build %s && lake env lean <audit file with #print axioms>%s" % (
                " ".join(modules), " && lake env leanchecker <module>" if self.tier == "thorough" else ""),
            "trusted_base": TRUSTED_BASE,
            "theorems": [{"name": o[0], "discharged": o[1], "axioms": o[2]} for o in self.obligations],
            "known_findings_reproduced": self.known_hits,
            "repo_head": repo_head(), "repo_hash": self.repo_hash,
        })
        cov.update(self.extra)
        ev = {"property_id": self.prop, "tier": self.tier, "seed": self.seed, "level": "proof", "coverage": cov,
              "assumptions": self.assumptions, "wall_s": round(time.time() - self.t0, 2), "violations": nviol}
        with open(os.path.join(evidence_dir, self.prop + ".json"), "w") as fh:
            json.dump(ev, fh, indent=1, default=str)
        self.log("obligations %d/%d discharged, %d evaluations, %d distinct non-trivial, %d violations, %d known findings"
                 % (ndis, nob, cov["evaluations"], cov["distinct_nontrivial"], nviol, len(self.known_hits)))
        return 1 if nviol else 0


def ddmin(items, failing, max_tests=400, budget_s=60.0):
    """delta debugging: smallest sublist of items for which failing(sub) is still True
    (stops after max_tests predicate calls or budget_s seconds, returning the smallest list found so far)"""
    n = 2
    tests = 0
    items = list(items)
    t_end = time.time() + budget_s
    while len(items) >= 2 and tests < max_tests and time.time() < t_end:
        chunk = max(1, len(items) // n)
        subsets = [items[i:i + chunk] for i in range(0, len(items), chunk)]
        reduced = False
        for i in range(len(subsets)):
            if time.time() > t_end:
                break
            comp = [x for j, s in enumerate(subsets) if j != i for x in s]
            tests += 1
            if comp and failing(comp):
                items = comp
                n = max(n - 1, 2)
                reduced = True
                break
        if not reduced:
            if n >= len(items):
                break
            n = min(len(items), n * 2)
    return items


def write_if_changed(path, content):
    try:
        if open(path).read() == content:
            return False
    except FileNotFoundError:
        pass
    os.makedirs(os.path.dirname(path), exist_ok=True)
    with open(path, "w") as f:
        f.write(content)
    return True
