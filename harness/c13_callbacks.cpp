// C13: the library-provided callbacks themselves, on explicit data (no embedding; compiles in seconds).
// in : cb pts=x,y,z;x,y,z;...        (one sample per ';' group, coordinates as exact dyadics `m:e` / integers)
// out: k=<N*N kernel values> d=<N*N distances> f=<N*D feature values> pk=<N*N> pd=<N*N>   (exact dyadics, row-major)
//      pk / pd: precomputed_*_callback over matrices filled with ((31i+17j) mod 97)/8 and ((13j+7i) mod 89)/4
#include <tapkee/defines.hpp>
#include <tapkee/callbacks/eigen_callbacks.hpp>
#include <tapkee/callbacks/precomputed_callbacks.hpp>

#include "vcommon.hpp"

using namespace tapkee;

int main()
{
    std::string line;
    while (std::getline(std::cin, line))
    {
        if (line.empty())
            continue;
        vh::case_alarm(20);
        auto f = vh::fields(line);
        auto groups = vh::split(f["pts"], ';');
        int N = static_cast<int>(groups.size());
        std::vector<std::vector<double>> cols;
        for (auto& g : groups)
            cols.push_back(vh::parse_nums(g));
        int D = N ? static_cast<int>(cols[0].size()) : 0;
        DenseMatrix X(D, N);
        for (int j = 0; j < N; j++)
            for (int i = 0; i < D; i++)
                X(i, j) = cols[j][i];
        eigen_kernel_callback ek(X);
        eigen_distance_callback ed(X);
        eigen_features_callback ef(X);
        DenseMatrix PK(N, N), PD(N, N);
        for (int i = 0; i < N; i++)
            for (int j = 0; j < N; j++)
            {
                PK(i, j) = ((i * 31 + j * 17) % 97) / 8.0;
                PD(i, j) = ((j * 13 + i * 7) % 89) / 4.0;
            }
        precomputed_kernel_callback pk(PK);
        precomputed_distance_callback pd(PD);
        std::ostringstream k, d, ff, opk, opd;
        for (int i = 0; i < N; i++)
            for (int j = 0; j < N; j++)
            {
                const char* sep = (i || j) ? "," : "";
                k << sep << vh::num(ek.kernel(i, j));
                d << sep << vh::num(ed.distance(i, j));
                opk << sep << vh::num(pk.kernel(i, j));
                opd << sep << vh::num(pd.distance(i, j));
            }
        for (int i = 0; i < N; i++)
        {
            DenseVector v;
            ef.vector(i, v);
            for (int r = 0; r < D; r++)
                ff << ((i || r) ? "," : "") << vh::num(v(r));
        }
        std::cout << "dim=" << ef.dimension() << " k=" << k.str() << " d=" << d.str() << " f=" << ff.str() << " pk=" << opk.str()
                  << " pd=" << opd.str() << std::endl;
    }
    return 0;
}
