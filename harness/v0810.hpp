// Helpers shared by the C08 / C09 / C10 correspondence harnesses (matrix I/O in the exact-dyadic number
// protocol, matrix-backed callbacks, the eigen-observer capture, neighbour-method names).
#pragma once
#include <tapkee/defines.hpp>
#include <tapkee/tapkee.hpp>
#include <tapkee/callbacks/dummy_callbacks.hpp>
#include <tapkee/routines/locally_linear.hpp>
#include <tapkee/utils/matrix.hpp>

#include "vcommon.hpp"

namespace v8
{
using tapkee::DenseMatrix;
using tapkee::DenseVector;
using tapkee::IndexType;
using tapkee::ScalarType;

// "a,b,c;d,e,f" -> matrix (rows separated by ';')
inline DenseMatrix parse_matrix(const std::string& s)
{
    auto rows = vh::split(s, ';');
    if (rows.empty())
        return DenseMatrix(0, 0);
    auto first = vh::parse_nums(rows[0]);
    DenseMatrix m(rows.size(), first.size());
    for (size_t i = 0; i < rows.size(); ++i)
    {
        auto r = vh::parse_nums(rows[i]);
        if (r.size() != first.size())
        {
            std::cerr << "ragged matrix\n";
            std::exit(3);
        }
        for (size_t j = 0; j < r.size(); ++j)
            m(i, j) = r[j];
    }
    return m;
}

inline tapkee::tapkee_internal::Neighbors parse_neighbors(const std::string& s)
{
    tapkee::tapkee_internal::Neighbors nb;
    for (auto& row : vh::split(s, ';'))
    {
        tapkee::tapkee_internal::LocalNeighbors l;
        for (auto v : vh::parse_ints(row))
            l.push_back((IndexType)v);
        nb.push_back(l);
    }
    return nb;
}

inline std::string show_neighbors(const tapkee::tapkee_internal::Neighbors& nb)
{
    std::ostringstream o;
    for (size_t i = 0; i < nb.size(); ++i)
    {
        if (i)
            o << ';';
        for (size_t j = 0; j < nb[i].size(); ++j)
            o << (j ? "," : "") << nb[i][j];
        if (nb[i].empty())
            o << "-";
    }
    return o.str();
}

template <class M> inline std::string show_matrix(const M& m)
{
    std::ostringstream o;
    for (int i = 0; i < m.rows(); ++i)
    {
        if (i)
            o << ';';
        for (int j = 0; j < m.cols(); ++j)
            o << (j ? "," : "") << vh::num(m(i, j));
    }
    if (m.rows() == 0 || m.cols() == 0)
        o << "-";
    return o.str();
}

template <class V> inline std::string show_vector(const V& v)
{
    std::ostringstream o;
    for (int i = 0; i < v.size(); ++i)
        o << (i ? "," : "") << vh::num(v(i));
    if (v.size() == 0)
        o << "-";
    return o.str();
}

// the iterator range handed to the library: `sel=` lists the (not necessarily identity, not necessarily contiguous)
// sample indices into the matrices backing the callbacks; absent = 0..N-1
inline std::vector<IndexType> parse_range(std::map<std::string, std::string>& f, IndexType N)
{
    std::vector<IndexType> idx;
    if (f.count("sel"))
        for (auto v : vh::parse_ints(f["sel"]))
            idx.push_back((IndexType)v);
    else
        for (IndexType i = 0; i < N; ++i)
            idx.push_back(i);
    return idx;
}
// M(sel, sel): the callback values of the selected samples by POSITION in the range (used by the mirrored kernels only)
inline DenseMatrix restrict_square(const DenseMatrix& M, const std::vector<IndexType>& sel)
{
    DenseMatrix R(sel.size(), sel.size());
    for (size_t a = 0; a < sel.size(); ++a)
        for (size_t b = 0; b < sel.size(); ++b)
            R(a, b) = M(sel[a], sel[b]);
    return R;
}

// callbacks backed by explicit matrices: callback(i, j) = M(i, j), argument order preserved
struct matrix_kernel_callback
{
    const DenseMatrix* m;
    inline ScalarType kernel(IndexType a, IndexType b) const
    {
        return (*m)(a, b);
    }
};
struct matrix_distance_callback
{
    const DenseMatrix* m;
    inline ScalarType distance(IndexType a, IndexType b) const
    {
        return (*m)(a, b);
    }
};
// feature_matrix is D x N (samples as columns), like eigen_features_callback
struct matrix_features_callback
{
    const DenseMatrix* m;
    inline IndexType dimension() const
    {
        return (IndexType)m->rows();
    }
    inline void vector(IndexType i, DenseVector& v) const
    {
        v = m->col(i);
    }
};

inline tapkee::NeighborsMethod neighbors_method_of(const std::string& s)
{
    if (s == "brute")
        return tapkee::Brute;
    if (s == "vptree")
        return tapkee::VpTree;
    return tapkee::CoverTree;
}

// what the eigen-observer hook saw (last call)
struct observed
{
    bool seen = false;
    int calls = 0;
    DenseMatrix lhs, rhs, vectors;
    DenseVector values;
    IndexType target_dimension = 0;
    unsigned skip = 0;
    bool smallest = false, generalized = false;
};
inline observed& obs()
{
    static observed o;
    return o;
}
inline void observer_fn(const DenseMatrix& lhs, const DenseMatrix& rhs,
                        const tapkee::tapkee_internal::EigendecompositionResult& result, IndexType target_dimension,
                        unsigned int skip, bool smallest, bool generalized)
{
    observed& o = obs();
    o.seen = true;
    o.calls += 1;
    o.lhs = lhs;
    o.rhs = rhs;
    o.vectors = result.first;
    o.values = result.second;
    o.target_dimension = target_dimension;
    o.skip = skip;
    o.smallest = smallest;
    o.generalized = generalized;
}
inline void install_observer()
{
    obs() = observed();
    tapkee::tapkee_internal::verif_eigen_observer::get() = &observer_fn;
}

// ---------------------------------------------------------------- mirrored external kernels (oracle values)
using tapkee::tapkee_internal::LocalNeighbors;
using tapkee::tapkee_internal::Neighbors;
using tapkee::tapkee_internal::centerMatrix;
using tapkee::DenseSelfAdjointEigenSolver;
// mirrored: the system linear_weight_matrix hands to ldlt(), and the raw solve result
inline DenseVector mirror_lle_solve(const DenseMatrix& K, IndexType i, const LocalNeighbors& nb, ScalarType tshift)
{
    const IndexType k = nb.size();
    DenseMatrix gram = DenseMatrix::Zero(k, k);
    DenseVector dots(k);
    for (IndexType a = 0; a < k; ++a)
        dots[a] = K(i, nb[a]);
    for (IndexType a = 0; a < k; ++a)
        for (IndexType b = a; b < k; ++b)
            gram(a, b) = K(i, i) - dots(a) - dots(b) + K(nb[a], nb[b]);
    ScalarType trace = gram.trace();
    gram.diagonal().array() += tshift * trace;
    DenseVector rhs = DenseVector::Ones(k);
    DenseVector w = gram.selfadjointView<Eigen::Upper>().ldlt().solve(rhs);
    return w;
}

// mirrored: eigen-decomposition of the centred local Gram matrix (all eigenvalues ascending, eigenvectors)
inline void mirror_local_eig(const DenseMatrix& K, const LocalNeighbors& nb, DenseVector& values, DenseMatrix& vectors)
{
    const IndexType k = nb.size();
    DenseMatrix gram = DenseMatrix::Zero(k, k);
    for (IndexType a = 0; a < k; ++a)
        for (IndexType b = a; b < k; ++b)
        {
            gram(a, b) = K(nb[a], nb[b]);
            gram(b, a) = gram(a, b);
        }
    centerMatrix(gram);
    DenseSelfAdjointEigenSolver solver;
    solver.compute(gram);
    values = solver.eigenvalues();
    vectors = solver.eigenvectors();
}

inline void print_lle_oracles(std::ostream& out, const DenseMatrix& K, const Neighbors& nb, ScalarType tshift)
{
    out << " wraw=";
    for (size_t i = 0; i < nb.size(); ++i)
        out << (i ? "|" : "") << show_vector(mirror_lle_solve(K, (IndexType)i, nb[i], tshift));
}

inline void print_eig_oracles(std::ostream& out, const DenseMatrix& K, const Neighbors& nb, IndexType d)
{
    std::ostringstream ev, U;
    for (size_t i = 0; i < nb.size(); ++i)
    {
        DenseVector values;
        DenseMatrix vectors;
        mirror_local_eig(K, nb[i], values, vectors);
        const IndexType k = nb[i].size();
        ev << (i ? "|" : "") << show_vector(values);
        if (d <= k)
            U << (i ? "|" : "") << show_matrix(vectors.rightCols(d));
        else
            U << (i ? "|" : "") << "-";
    }
    const IndexType k = nb.empty() ? 0 : nb[0].size();
    out << " rsk=" << vh::num(1 / sqrt(static_cast<ScalarType>(k))) << " ev=" << ev.str() << " U=" << U.str();
}

inline bool uniform(const Neighbors& nb)
{
    for (auto& l : nb)
        if (l.size() != nb[0].size())
            return false;
    return true;
}

inline DenseMatrix mirror_heats(const DenseMatrix& Dm, const Neighbors& nb, ScalarType width)
{
    const IndexType k = nb.empty() ? 0 : nb[0].size();
    DenseMatrix h(nb.size(), k);
    for (size_t i = 0; i < nb.size(); ++i)
        for (IndexType a = 0; a < k; ++a)
        {
            ScalarType distance = Dm(i, nb[i][a]);
            h(i, a) = exp(-distance * distance / width);
        }
    return h;
}

} // namespace v8
