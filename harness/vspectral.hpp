// Shared helpers of the spectral correspondence harnesses (C05, C06, C07): matrix text format
// (`rows ; entries ,` with exact dyadic numbers), the eigen-observer hook, method names, exceptions.
#pragma once
#include <tapkee/tapkee.hpp>
#include <tapkee/callbacks/eigen_callbacks.hpp>
#include <tapkee/callbacks/precomputed_callbacks.hpp>

#include "vcommon.hpp"

namespace vs
{
using tapkee::DenseMatrix;
using tapkee::DenseVector;
using tapkee::IndexType;
using tapkee::ScalarType;

inline std::string mat(const DenseMatrix& m)
{
    std::string s;
    for (IndexType i = 0; i < m.rows(); ++i)
    {
        if (i)
            s += ';';
        for (IndexType j = 0; j < m.cols(); ++j)
        {
            if (j)
                s += ',';
            s += vh::num(m(i, j));
        }
    }
    return s.empty() ? std::string("-") : s;
}

inline std::string vec(const DenseVector& v)
{
    std::string s;
    for (IndexType i = 0; i < v.size(); ++i)
    {
        if (i)
            s += ',';
        s += vh::num(v(i));
    }
    return s.empty() ? std::string("-") : s;
}

// `r;r;…` -> matrix with one text row per matrix row
inline DenseMatrix parse_mat(const std::string& s)
{
    auto rows = vh::split(s, ';');
    if (rows.empty())
        return DenseMatrix(0, 0);
    auto first = vh::parse_nums(rows[0]);
    DenseMatrix m(rows.size(), first.size());
    for (size_t i = 0; i < rows.size(); ++i)
    {
        auto r = vh::parse_nums(rows[i]);
        for (size_t j = 0; j < first.size(); ++j)
            m(i, j) = r.at(j);
    }
    return m;
}

// the id range handed to the library: `sel=` (a shuffled subset of a larger id space, decoys in between) or 0..N-1;
// callbacks are defined on ids, the data of ALL ids are in `alldata=` (else `data=`)
inline std::vector<IndexType> ids(std::map<std::string, std::string>& f, int N)
{
    std::vector<IndexType> idx;
    if (f.count("sel"))
        for (long v : vh::parse_ints(f["sel"]))
            idx.push_back((IndexType)v);
    else
        for (int i = 0; i < N; ++i)
            idx.push_back(i);
    return idx;
}
inline DenseMatrix all_data(std::map<std::string, std::string>& f)
{
    return parse_mat(f.count("alldata") ? f["alldata"] : f["data"]);
}

// what the eigen-observer hook saw during the last embed() call
struct Observed
{
    int calls = 0;
    DenseMatrix lhs, rhs, vectors;
    DenseVector values;
    int target_dimension = 0;
    unsigned skip = 0;
    bool smallest = false, generalized = false;
};
inline Observed& observed()
{
    static Observed o;
    return o;
}
inline void observer(const DenseMatrix& lhs, const DenseMatrix& rhs, const tapkee::tapkee_internal::EigendecompositionResult& r,
                     IndexType td, unsigned int skip, bool smallest, bool generalized)
{
    Observed& o = observed();
    o.calls++;
    o.lhs = lhs;
    o.rhs = rhs;
    o.vectors = r.first;
    o.values = r.second;
    o.target_dimension = td;
    o.skip = skip;
    o.smallest = smallest;
    o.generalized = generalized;
}
inline void install_observer()
{
    tapkee::tapkee_internal::verif_eigen_observer::get() = &observer;
}
inline void reset_observed()
{
    observed() = Observed();
}

inline tapkee::DimensionReductionMethod method_by_name(const std::string& n)
{
    using namespace tapkee;
    static const std::map<std::string, DimensionReductionMethod> m = {
        {"klle", KernelLocallyLinearEmbedding},
        {"npe", NeighborhoodPreservingEmbedding},
        {"kltsa", KernelLocalTangentSpaceAlignment},
        {"lltsa", LinearLocalTangentSpaceAlignment},
        {"hlle", HessianLocallyLinearEmbedding},
        {"la", LaplacianEigenmaps},
        {"lpp", LocalityPreservingProjections},
        {"dm", DiffusionMap},
        {"isomap", Isomap},
        {"lisomap", LandmarkIsomap},
        {"mds", MultidimensionalScaling},
        {"lmds", LandmarkMultidimensionalScaling},
        {"spe", StochasticProximityEmbedding},
        {"kpca", KernelPrincipalComponentAnalysis},
        {"pca", PrincipalComponentAnalysis},
        {"rp", RandomProjection},
        {"fa", FactorAnalysis},
        {"tsne", tDistributedStochasticNeighborEmbedding},
        {"ms", ManifoldSculpting},
        {"passthru", PassThru},
    };
    return m.at(n);
}

inline tapkee::EigenMethod solver_by_name(const std::string& n)
{
    return n == "rand" ? tapkee::Randomized : tapkee::Dense;
}

// run f(); a tapkee / std exception becomes the one-token observation `throw:<class>`
template <class F> std::string guarded(F f)
{
    try
    {
        return f();
    }
    catch (const tapkee::eigendecomposition_error&)
    {
        return "throw:eigendecomposition_error";
    }
    catch (const tapkee::wrong_parameter_error&)
    {
        return "throw:wrong_parameter_error";
    }
    catch (const tapkee::unsupported_method_error&)
    {
        return "throw:unsupported_method_error";
    }
    catch (const std::exception& e)
    {
        std::string w = e.what();
        for (auto& c : w)
            if (c == ' ' || c == '\n')
                c = '_';
        return "throw:std:" + w;
    }
}
} // namespace vs
