// C20 — force-included (-include) into the CLI build of checks/c20.py ONLY: run() calls srand(time(NULL)), which makes the
// methods that draw from std::rand() (Random Projection, SPE, t-SNE, Manifold Sculpting, Factor Analysis, the randomized
// eigensolver) incomparable between two processes.  With the seed pinned to the value the library harness uses
// (harness/c20_lib.cpp: std::srand(20240607u) right before the embed call) the CLI's result can be compared on CONTENT
// with the in-process library call, on the direct and on the --precompute branch.  Nothing else of the CLI changes; the
// translator still records `seedsFromTime` from the unmodified source.
#pragma once
#include <cstdlib>
#include <stdlib.h>
#define srand(seed_expression) srand(((void)(seed_expression), 20240607u))
