// C20 — in-process library harness: embeds an explicitly given matrix with explicitly given parameters through the
// public API (the same call the CLI makes in its non-precompute branch) and prints the result as exact dyadics, so
// that checks/c20.py can compare the CLI's output files with what the library returns.  Also exposes the libstdc++
// number printing / parsing the CLI relies on, to validate the model's oracle pair (printG6 / parseNum / toStringF).
//
// in : embed method=<Ident> neighbors_method=<Ident> eigen_method=<Ident> computation_strategy=<Ident> num_neighbors=<int> …
//            (one field per keyword of the CLI's kwargs set; numbers as decimal text read with strtod, as the CLI does)
//            data=<D>x<N>:<v11,v12,…>   (row-major D × N, columns are samples)
// out: (each prefixed by `r1 ` if the call consumed std::rand(), `r0 ` otherwise)
//      ok|N|d|e11,e12,…|-                       (no projection)
//      ok|N|d|e11,…|D|d|p11,…|m1,…             (MatrixProjectionImplementation)
//      exc|<exception text, blanks as _>
// in : fmt nums=<m:e>,…        out: `os << double` per number, hex encoded
// in : tostr nums=<m:e>,…      out: std::to_string(double) per number, hex encoded
// in : scan toks=<hex>,…       out: `istringstream(tok) >> double` : exact dyadic | none
#include <tapkee/tapkee.hpp>
#include <tapkee/callbacks/eigen_callbacks.hpp>
#include <tapkee/projection.hpp>

#include "vcommon.hpp"

#include <cstring>
#include <sstream>

using namespace tapkee;

static std::string hex_enc(const std::string& s)
{
    if (s.empty())
        return "-";
    static const char* d = "0123456789abcdef";
    std::string o;
    for (unsigned char c : s)
    {
        o.push_back(d[c >> 4]);
        o.push_back(d[c & 15]);
    }
    return o;
}

static std::string hex_dec(const std::string& s)
{
    if (s == "-")
        return "";
    std::string o;
    for (size_t i = 0; i + 1 < s.size(); i += 2)
        o.push_back((char)std::stoi(s.substr(i, 2), nullptr, 16));
    return o;
}

static double dec(const std::string& s)
{
    return std::strtod(s.c_str(), nullptr);
}

#define M(x) {#x, tapkee::x}
static const std::map<std::string, DimensionReductionMethod> METHODS = {
    M(KernelLocallyLinearEmbedding), M(NeighborhoodPreservingEmbedding), M(KernelLocalTangentSpaceAlignment),
    M(LinearLocalTangentSpaceAlignment), M(HessianLocallyLinearEmbedding), M(LaplacianEigenmaps),
    M(LocalityPreservingProjections), M(DiffusionMap), M(Isomap), M(LandmarkIsomap), M(MultidimensionalScaling),
    M(LandmarkMultidimensionalScaling), M(StochasticProximityEmbedding), M(KernelPrincipalComponentAnalysis),
    M(PrincipalComponentAnalysis), M(RandomProjection), M(FactorAnalysis), M(tDistributedStochasticNeighborEmbedding),
    M(ManifoldSculpting), M(PassThru)};
static const std::map<std::string, NeighborsMethod> NEIGHBORS = {M(Brute), M(VpTree),
#ifdef TAPKEE_USE_LGPL_COVERTREE
                                                                M(CoverTree)
#endif
};
static const std::map<std::string, EigenMethod> EIGEN = {M(Dense), M(Randomized),
#ifdef TAPKEE_WITH_ARPACK
                                                         M(Arpack)
#endif
};
static const std::map<std::string, ComputationStrategy> STRATEGIES = {M(HomogeneousCPUStrategy)};
#undef M

static std::string nums(const double* p, size_t n)
{
    std::string o;
    for (size_t i = 0; i < n; i++)
    {
        if (i)
            o.push_back(',');
        o += vh::num(p[i]);
    }
    return o.empty() ? "-" : o;
}

static bool rand_consumed = false;

static std::string do_embed(std::map<std::string, std::string>& f)
{
    rand_consumed = false;
    auto need = [&](const char* k) -> const std::string& {
        auto it = f.find(k);
        if (it == f.end())
            throw std::runtime_error(std::string("harness: missing field ") + k);
        return it->second;
    };
    const std::string& data = need("data");
    size_t x = data.find('x'), c = data.find(':');
    int D = std::stoi(data.substr(0, x)), N = std::stoi(data.substr(x + 1, c - x - 1));
    DenseMatrix X(D, N);
    {
        auto toks = vh::split(data.substr(c + 1), ',');
        if ((int)toks.size() != D * N)
            throw std::runtime_error("harness: data size");
        for (int i = 0; i < D; i++)
            for (int j = 0; j < N; j++)
                X(i, j) = dec(toks[(size_t)i * N + j]);
    }
    ParametersSet parameters = tapkee::kwargs[(
        tapkee::method = METHODS.at(need("method")),
        tapkee::computation_strategy = STRATEGIES.at(need("computation_strategy")),
        tapkee::eigen_method = EIGEN.at(need("eigen_method")),
        tapkee::neighbors_method = NEIGHBORS.at(need("neighbors_method")),
        tapkee::num_neighbors = (IndexType)std::stol(need("num_neighbors")),
        tapkee::target_dimension = (IndexType)std::stol(need("target_dimension")),
        tapkee::diffusion_map_timesteps = (IndexType)std::stol(need("diffusion_map_timesteps")),
        tapkee::gaussian_kernel_width = dec(need("gaussian_kernel_width")),
        tapkee::max_iteration = (IndexType)std::stol(need("max_iteration")),
        tapkee::spe_global_strategy = need("spe_global_strategy") == "1",
        tapkee::spe_num_updates = (IndexType)std::stol(need("spe_num_updates")),
        tapkee::spe_tolerance = dec(need("spe_tolerance")),
        tapkee::landmark_ratio = dec(need("landmark_ratio")),
        tapkee::nullspace_shift = dec(need("nullspace_shift")),
        tapkee::check_connectivity = need("check_connectivity") == "1",
        tapkee::fa_epsilon = dec(need("fa_epsilon")),
        tapkee::sne_perplexity = dec(need("sne_perplexity")),
        tapkee::sne_theta = dec(need("sne_theta")),
        tapkee::squishing_rate = dec(need("squishing_rate")))];
    // every CLI process starts the shuffle generator from its fixed seed
    tapkee::verif_shuffle_generator().seed(5489u);
    // did the method draw from std::rand()?  (the CLI seeds it from time(): such results are comparable on shape only)
    std::srand(20240607u);
    const int first_draw = std::rand();
    std::srand(20240607u);
    TapkeeOutput output = tapkee::with(parameters).embedUsing(X);
    rand_consumed = std::rand() != first_draw;
    // row-major N × d
    DenseMatrix E = output.embedding;
    std::string o = "ok|" + std::to_string(E.rows()) + "|" + std::to_string(E.cols()) + "|";
    {
        std::vector<double> v;
        for (int i = 0; i < E.rows(); i++)
            for (int j = 0; j < E.cols(); j++)
                v.push_back(E(i, j));
        o += nums(v.data(), v.size());
    }
    auto* mp = dynamic_cast<MatrixProjectionImplementation*>(output.projection.implementation.get());
    if (output.projection.implementation && !mp)
        return o + "|nonmatrix-projection";
    if (!mp)
        return o + "|-";
    std::vector<double> v;
    for (int i = 0; i < mp->proj_mat.rows(); i++)
        for (int j = 0; j < mp->proj_mat.cols(); j++)
            v.push_back(mp->proj_mat(i, j));
    o += "|" + std::to_string(mp->proj_mat.rows()) + "|" + std::to_string(mp->proj_mat.cols()) + "|" + nums(v.data(), v.size());
    std::vector<double> m(mp->mean_vec.data(), mp->mean_vec.data() + mp->mean_vec.size());
    o += "|" + nums(m.data(), m.size());
    return o;
}

int main()
{
    std::string line;
    while (std::getline(std::cin, line))
    {
        if (line.empty())
            continue;
        auto f = vh::fields(line);
        std::string out;
        try
        {
            if (line.rfind("embed ", 0) == 0)
            {
                try
                {
                    out = do_embed(f);
                    out = std::string(rand_consumed ? "r1 " : "r0 ") + out;
                }
                catch (const std::exception& e)
                {
                    std::string w = e.what();
                    for (auto& ch : w)
                        if (ch == ' ' || ch == '\n')
                            ch = '_';
                    out = "exc|" + w;
                }
            }
            else if (line.rfind("fmt ", 0) == 0 || line.rfind("tostr ", 0) == 0)
            {
                bool fmt = line[0] == 'f';
                for (auto& t : vh::split(f["nums"], ','))
                {
                    double x = vh::parse_num(t);
                    std::string s;
                    if (fmt)
                    {
                        std::ostringstream os;
                        os << x;
                        s = os.str();
                    }
                    else
                        s = std::to_string(x);
                    out += (out.empty() ? "" : " ") + hex_enc(s);
                }
            }
            else if (line.rfind("scan ", 0) == 0)
            {
                for (auto& t : vh::split(f["toks"], ','))
                {
                    std::istringstream is(hex_dec(t));
                    double v;
                    std::string r = (is >> v) ? vh::num(v) : std::string("none");
                    out += (out.empty() ? "" : " ") + r;
                }
            }
            else
                out = "bad-case";
        }
        catch (const std::exception& e)
        {
            out = std::string("harness-error|") + e.what();
        }
        std::cout << out << std::endl;
    }
    return 0;
}
