// C05 correspondence harness: MDS / Kernel PCA / Isomap(k = N-1) through the PUBLIC API, with the
// eigen-observer hook capturing the exact matrix handed to the eigensolver and the (V, lambda) it returned.
// in : mds method=mds|kpca|isomap N=4 d=2 solver=dense|rand in=dist|kern|pts seed=3 data=r;r;... [sel=ids alldata=r;r;...]
//      with `sel` the library is handed that id range (callbacks defined on ids over `alldata`); `data` = the selected samples
// out: ok pre=<NxN> V=<Nxd> lam=<d> Y=<Nxd>       (numbers as exact dyadics)   |  throw:<class>
#include "vspectral.hpp"

using namespace tapkee;

static std::string run_case(std::map<std::string, std::string>& f)
{
    const std::string meth = f["method"], inp = f["in"];
    const int N = std::stoi(f["N"]), d = std::stoi(f["d"]);
    DenseMatrix data = vs::all_data(f);
    std::srand((unsigned)std::stoul(f.count("seed") ? f["seed"] : "1"));
    std::vector<IndexType> idx = vs::ids(f, N);
    vs::reset_observed();
    TapkeeOutput out;
    ParametersSet params = (method = vs::method_by_name(meth), target_dimension = d,
                            eigen_method = vs::solver_by_name(f["solver"]), num_neighbors = N - 1,
                            neighbors_method = Brute);
    if (inp == "pts")
    {
        DenseMatrix X = data.transpose(); // tapkee: one column per sample
        eigen_kernel_callback kcb(X);
        eigen_distance_callback dcb(X);
        if (meth == "kpca")
            out = tapkee::with(params).withKernel(kcb).embedUsing(idx);
        else
            out = tapkee::with(params).withDistance(dcb).embedUsing(idx);
    }
    else if (inp == "kern")
    {
        precomputed_kernel_callback kcb(data);
        out = tapkee::with(params).withKernel(kcb).embedUsing(idx);
    }
    else
    {
        precomputed_distance_callback dcb(data);
        out = tapkee::with(params).withDistance(dcb).embedUsing(idx);
    }
    const vs::Observed& o = vs::observed();
    std::ostringstream s;
    s << "ok calls=" << o.calls << " pre=" << vs::mat(o.lhs) << " V=" << vs::mat(o.vectors) << " lam=" << vs::vec(o.values)
      << " Y=" << vs::mat(out.embedding);
    return s.str();
}

int main()
{
    vs::install_observer();
    tapkee::Logging::instance().disable_info();
    std::string line;
    while (std::getline(std::cin, line))
    {
        if (line.empty())
            continue;
        auto f = vh::fields(line);
        vh::case_alarm(300); // per-case watchdog: a hang becomes the observation abort:timeout for this case
        std::cout << vs::guarded([&] { return run_case(f); }) << std::endl;
    }
    return 0;
}
