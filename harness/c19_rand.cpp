// C19 correspondence harness: SPE (routine + public API), Random Projection, Factor Analysis under
// replayable random streams.  No /repo edits: the streams enter through
//   * tapkee::verif_shuffle_generator()         (hook, -DTAPKEE_VERIF)   -> std::shuffle inside random_shuffle
//   * CUSTOM_UNIFORM_RANDOM_FUNCTION / CUSTOM_GAUSSIAN_RANDOM_FUNCTION     (build `-DC19_STREAMS` only)
//   * Eigen::internal::random_impl<double>      (specialised in the `-DC19_STREAMS` build: DenseMatrix::Random())
//   * std::srand                                (natural build: the library's own default paths are exercised)
// and the index bookkeeping of SPE is observed through the distance callback (which pairs are evaluated).
//
// ops (one case per line, one answer line per case):
//   spe     N= d= g=0|1 k= nup= T= tol= seed= np= [nb=a,b;c,d;..] dm=<N*N> [y0=<d*N, per point>] [unif=..] [srand=]
//           -> iters= nup= pre= pairs=a-b,c-d,.. perms=p;p;.. y0=.. y=.. nu= uex= gsync= selfpairs= oobidx=
//   specov  (same fields; long runs) -> summary counters instead of the full pair list
//   speapi  N= D= d= g= k= nup= T= tol= seed= srand= pts=<N rows ;-separated>
//           -> fin= y=.. calls= selfpairs=
//   rp      N= D= d= pts= shift= [gauss=..] [srand=]  -> P= mean= y= y2= ng= gex= m1..m4
//   fa      N= D= d= T= eps= pts= shift= [a0=..] [srand=] -> a0= y= y2=
//   grand   n= [rs=scripted rand() prefix] srand=  -> the real gaussian_random() on the interposed rand(): values, draws
//   urand / uidx  n= [upper=] [rs=] srand=         -> the real uniform_random() / uniform_random_index_bounded()
//   gauss   n= srand=  -> moments of tapkee::gaussian_random() (natural build)
//   unifnat n= srand=  -> min/max/mean of tapkee::uniform_random() (natural build)
#include <tapkee/defines/eigen3.hpp>

#include <algorithm>
#include <cstdint>
#include <cstdlib>
#include <deque>
#include <random>
#include <utility>
#include <vector>

namespace vs
{
struct stream
{
    std::deque<double> q;
    long used = 0;
    bool exhausted = false;
    bool armed = false;
    void arm(const std::vector<double>& v)
    {
        q.assign(v.begin(), v.end());
        used = 0;
        exhausted = false;
        armed = true;
    }
    void disarm()
    {
        q.clear();
        armed = false;
    }
    double next()
    {
        ++used;
        if (q.empty())
        {
            exhausted = true;
            return 0.0;
        }
        double x = q.front();
        q.pop_front();
        return x;
    }
};
inline stream& unif()
{
    static stream s;
    return s;
}
inline stream& gauss()
{
    static stream s;
    return s;
}
inline stream& eigrand()
{
    static stream s;
    return s;
}
inline double next_unif()
{
    return unif().next();
}
inline double next_gauss()
{
    return gauss().next();
}
} // namespace vs

#ifndef C19_STREAMS
// ---- natural build: the C library's rand()/srand() are replaced by the harness (the executable's definitions take
// precedence), so that the library's OWN uniform_random() / uniform_random_index() / gaussian_random() and Eigen's
// Random() run on a replayable stream: a scripted prefix from the case line (boundary draws 0, RAND_MAX, 2^30, ...)
// followed by a seeded 64-bit generator.  Every value handed out is logged.
namespace vr
{
inline uint64_t& state()
{
    static uint64_t s = 0x853c49e6748fea9bULL;
    return s;
}
inline std::deque<long>& script()
{
    static std::deque<long> q;
    return q;
}
inline std::vector<int>& log()
{
    static std::vector<int> v;
    return v;
}
inline void arm(const std::vector<long>& v)
{
    script().assign(v.begin(), v.end());
    log().clear();
}
inline int next()
{
    int r;
    if (!script().empty())
    {
        r = (int)script().front();
        script().pop_front();
    }
    else
    {
        uint64_t& s = state(); // splitmix64
        s += 0x9E3779B97F4A7C15ULL;
        uint64_t z = s;
        z = (z ^ (z >> 30)) * 0xBF58476D1CE4E5B9ULL;
        z = (z ^ (z >> 27)) * 0x94D049BB133111EBULL;
        z ^= (z >> 31);
        r = (int)(z >> 33); // 31 bits: 0 .. RAND_MAX
    }
    if (log().size() < (1u << 22))
        log().push_back(r);
    return r;
}
} // namespace vr
extern "C" int rand(void) noexcept
{
    return vr::next();
}
extern "C" void srand(unsigned seed) noexcept
{
    vr::state() = 0x9E3779B97F4A7C15ULL * (uint64_t)(seed + 1u);
}
#endif

#ifdef C19_STREAMS
#define CUSTOM_UNIFORM_RANDOM_FUNCTION vs::next_unif()
#define CUSTOM_GAUSSIAN_RANDOM_FUNCTION vs::next_gauss()
namespace Eigen
{
namespace internal
{
// DenseMatrix::Random() entries come from the armed stream (values in [-1,1]); when no stream is armed the
// original expression of Eigen 3.4 is used.
template <> struct random_impl<double>
{
    static inline double run(const double& x, const double& y)
    {
        if (vs::eigrand().armed)
            return vs::eigrand().next();
        return x + (y - x) * double(std::rand()) / double(RAND_MAX);
    }
    static inline double run()
    {
        return run(-1.0, 1.0);
    }
};
} // namespace internal
} // namespace Eigen
#endif

// Only the three methods under proof are instantiated (the full front end `tapkee::with(...)` instantiates all
// twenty methods per callback combination: > 2 min of compile time under ASan).  `run_method` below performs the
// same steps as tapkee::embed + DynamicImplementation::embedUsing for one method: check, merge defaults,
// ImplementationBase constructor (its own validation), XImplementation(base), validate(), embed().
#include <tapkee/callbacks/dummy_callbacks.hpp>
#include <tapkee/defines.hpp>
#include <tapkee/methods/base.hpp>
#include <tapkee/utils/matrix.hpp>
#include <tapkee/routines/pca.hpp>
#include <tapkee/methods/random_projection.hpp>
#include <tapkee/methods/stochastic_proximity_embedding.hpp>
#include <tapkee/methods/factor_analysis.hpp>

#include "vcommon.hpp"

template <template <class, class, class, class> class Impl, class It, class Kc, class Dc, class Fc>
static tapkee::TapkeeOutput run_method(It b, It e, Kc kc, Dc dc, Fc fc, stichwort::ParametersSet p)
{
    p.check();
    p.merge(tapkee::tapkee_internal::defaults);
    tapkee::tapkee_internal::Context ctx(nullptr, nullptr);
    tapkee::tapkee_internal::ImplementationBase<It, Kc, Dc, Fc> base(b, e, kc, dc, fc, p, ctx);
    Impl<It, Kc, Dc, Fc> impl(base);
    impl.validate();
    return impl.embed();
}
typedef std::vector<int>::iterator IdxIt;
typedef tapkee::dummy_kernel_callback<int> NoKernel;
typedef tapkee::dummy_distance_callback<int> NoDistance;
typedef tapkee::dummy_features_callback<int> NoFeatures;

using tapkee::DenseMatrix;
using tapkee::DenseVector;
using tapkee::IndexType;
using tapkee::ScalarType;

struct PairLog
{
    std::vector<std::pair<int, int>> pairs;
    long oob = 0;
};

// The iterator range handed to the library holds ITEM IDS (`ids=` of the case line: distinct integers from a larger id
// space, in any order; default: the identity 0..N-1).  All data (distance matrix, points) are stored by POSITION in the
// range; the callbacks receive ids, translate them back to positions and count everything that is not an item of the range
// (`badid`): a routine that passes positions, offsets or anything else than `begin[i]` to a callback is observed here.
struct IdMap
{
    std::vector<int> ids;
    std::map<int, int> pos;
    mutable long bad = 0;
    void set(std::map<std::string, std::string>& f, int N)
    {
        ids.clear();
        pos.clear();
        bad = 0;
        if (f.count("ids"))
            for (long x : vh::parse_ints(f["ids"]))
                ids.push_back((int)x);
        else
            for (int i = 0; i < N; ++i)
                ids.push_back(i);
        for (int i = 0; i < (int)ids.size(); ++i)
            pos[ids[i]] = i;
    }
    int operator()(int id) const
    {
        auto it = pos.find(id);
        if (it == pos.end())
        {
            ++bad;
            return -1;
        }
        return it->second;
    }
};

struct MatrixDistance
{
    const std::vector<double>* dm;
    int N;
    PairLog* log;
    const IdMap* idm;
    ScalarType distance(int ida, int idb) const
    {
        int a = (*idm)(ida), b = (*idm)(idb);
        log->pairs.push_back({a, b});
        if (a < 0 || b < 0 || a >= N || b >= N)
        {
            log->oob++;
            return 0.0;
        }
        return (*dm)[(size_t)a * N + b];
    }
};

struct PointsDistance
{
    const DenseMatrix* X; // D x N
    PairLog* log;
    bool record;
    const IdMap* idm;
    ScalarType distance(int ida, int idb) const
    {
        int a = (*idm)(ida), b = (*idm)(idb);
        if (a < 0 || b < 0)
            return 0.0;
        if (record)
            log->pairs.push_back({a, b});
        else if (a == b)
            log->pairs.push_back({a, b});
        return (X->col(a) - X->col(b)).norm();
    }
};

struct PointsFeatures
{
    const DenseMatrix* X; // D x N
    const IdMap* idm;
    IndexType dimension() const
    {
        return X->rows();
    }
    void vector(int id, DenseVector& v) const
    {
        int i = (*idm)(id);
        if (i < 0)
            v = DenseVector::Zero(X->rows());
        else
            v = X->col(i);
    }
};

static std::string nums(const double* p, size_t n)
{
    std::string s;
    for (size_t i = 0; i < n; ++i)
    {
        if (i)
            s += ",";
        s += vh::num(p[i]);
    }
    return s;
}

static std::string mat_rows(const DenseMatrix& M) // row-major, rows joined by ';'
{
    std::string s;
    for (int i = 0; i < M.rows(); ++i)
    {
        if (i)
            s += ";";
        for (int j = 0; j < M.cols(); ++j)
        {
            if (j)
                s += ",";
            s += vh::num(M(i, j));
        }
    }
    return s;
}

static bool all_finite(const DenseMatrix& M)
{
    for (int i = 0; i < M.rows(); ++i)
        for (int j = 0; j < M.cols(); ++j)
            if (!std::isfinite(M(i, j)))
                return false;
    return true;
}

static DenseMatrix parse_points(const std::string& s, int N, int D) // -> D x N
{
    DenseMatrix X(D, N);
    auto rows = vh::split(s, ';');
    for (int i = 0; i < N; ++i)
    {
        auto v = vh::parse_nums(rows.at(i));
        for (int c = 0; c < D; ++c)
            X(c, i) = v.at(c);
    }
    return X;
}

static tapkee::tapkee_internal::Neighbors parse_neighbors(const std::string& s)
{
    tapkee::tapkee_internal::Neighbors nb;
    for (auto& row : vh::split(s, ';', true))
    {
        tapkee::tapkee_internal::LocalNeighbors l;
        for (long x : vh::parse_ints(row))
            l.push_back((IndexType)x);
        nb.push_back(l);
    }
    return nb;
}

static std::string position_perms(std::mt19937& g, int N, long np)
{
    // std::shuffle is oblivious to the values: shuffling the identity with a clone of the generator gives the
    // position permutation pi_t (new[i] = old[pi_t[i]]) that the library's shuffle applies at iteration t
    std::string s;
    std::vector<int> pos(N);
    for (long t = 0; t < np; ++t)
    {
        for (int i = 0; i < N; ++i)
            pos[i] = i;
        std::shuffle(pos.begin(), pos.end(), g);
        if (t)
            s += ";";
        for (int i = 0; i < N; ++i)
        {
            if (i)
                s += ",";
            s += std::to_string(pos[i]);
        }
    }
    return s;
}

static void op_spe(std::map<std::string, std::string>& f, bool summary)
{
    int N = std::stoi(f["N"]), d = std::stoi(f["d"]), g = std::stoi(f["g"]), nup = std::stoi(f["nup"]);
    long T = std::stol(f["T"]), np = std::stol(f["np"]);
    double tol = vh::parse_num(f["tol"]);
    unsigned seed = (unsigned)std::stoul(f["seed"]);
    std::vector<double> dm = vh::parse_nums(f["dm"]);
    tapkee::tapkee_internal::Neighbors nb;
    if (!g)
        nb = parse_neighbors(f["nb"]);
    IdMap idm;
    idm.set(f, N);
    std::vector<int> idx = idm.ids;
    PairLog log;
    MatrixDistance cb{&dm, N, &log, &idm};

    tapkee::verif_shuffle_generator().seed(seed);
    std::mt19937 clone = tapkee::verif_shuffle_generator();
    DenseMatrix Y0;
#ifdef C19_STREAMS
    std::vector<double> y0;
    if (f.count("y0"))
    {
        for (double y : vh::parse_nums(f["y0"]))
            y0.push_back(2 * y - 1); // Y = (Random + 1) / 2
        vs::eigrand().arm(y0);
        Y0 = (DenseMatrix::Random(d, N) + DenseMatrix::Ones(d, N)) / 2;
        vs::eigrand().arm(y0);
    }
    vs::unif().arm(f.count("unif") ? vh::parse_nums(f["unif"]) : std::vector<double>());
#endif
    if (f.count("srand"))
    {
        std::srand((unsigned)std::stoul(f["srand"]));
        if (!f.count("y0"))
        {
            Y0 = (DenseMatrix::Random(d, N) + DenseMatrix::Ones(d, N)) / 2;
            std::srand((unsigned)std::stoul(f["srand"]));
        }
    }
    std::cerr << "spe N=" << N << " seed=" << seed << "\n";
    DenseMatrix Y = tapkee::tapkee_internal::spe_embedding(idx.begin(), idx.end(), cb, nb, (IndexType)d, g != 0, tol,
                                                           nup, (IndexType)T);
    long pre = (long)N * (N - 1) / 2;
    std::ostringstream out;
    long npairs = (long)log.pairs.size() - pre;
    long self = 0;
    for (size_t i = pre; i < log.pairs.size(); ++i)
        if (log.pairs[i].first == log.pairs[i].second)
            ++self;
    out << "rows=" << Y.rows() << " cols=" << Y.cols() << " pre=" << pre << " npairs=" << npairs;
    // the pre-scan must be the N(N-1)/2 pairs i<j in order
    bool preok = (long)log.pairs.size() >= pre;
    {
        size_t p = 0;
        for (int i = 0; i < N && preok; ++i)
            for (int j = i + 1; j < N && preok; ++j, ++p)
                if (log.pairs[p] != std::make_pair(i, j))
                    preok = false;
    }
    out << " preok=" << (preok ? 1 : 0);
    if (!summary)
    {
        out << " pairs=";
        for (size_t i = pre; i < log.pairs.size(); ++i)
        {
            if (i > (size_t)pre)
                out << ",";
            out << log.pairs[i].first << "-" << log.pairs[i].second;
        }
    }
    else
    {
        // long runs: per-point selection counters over the whole run and over its last quarter, as (first, second)
        int nupc = std::stoi(f["nupc"]); // clamped nupdates (from the model), used only to cut iterations
        std::vector<long> c1(N, 0), c2(N, 0), l1(N, 0), l2(N, 0);
        long iters = nupc > 0 ? npairs / nupc : 0;
        long dupiters = 0, mindistinct = N;
        for (long t = 0; t < iters; ++t)
        {
            std::vector<int> seen(N, 0);
            long distinct = 0;
            bool dup = false;
            for (int j = 0; j < nupc; ++j)
            {
                auto pr = log.pairs[pre + t * nupc + j];
                if (pr.first < 0 || pr.first >= N || pr.second < 0 || pr.second >= N)
                    continue;
                c1[pr.first]++;
                c2[pr.second]++;
                if (t >= iters - iters / 4)
                {
                    l1[pr.first]++;
                    l2[pr.second]++;
                }
                if (seen[pr.first]++)
                    dup = true;
                else
                    ++distinct;
            }
            if (dup)
                ++dupiters;
            mindistinct = std::min(mindistinct, distinct);
        }
        auto ints = [](const std::vector<long>& v) {
            std::string s;
            for (size_t i = 0; i < v.size(); ++i)
                s += (i ? "," : "") + std::to_string(v[i]);
            return s;
        };
        out << " iters=" << iters << " dupiters=" << dupiters << " mindistinct=" << mindistinct << " c1=" << ints(c1)
            << " c2=" << ints(c2) << " l1=" << ints(l1) << " l2=" << ints(l2);
    }
    out << " selfpairs=" << self << " oobidx=" << log.oob << " badid=" << idm.bad;
    if (np >= 0 && !summary)
        out << " perms=" << position_perms(clone, N, np);
    else if (np >= 0)
    {
        position_perms(clone, N, np);
    }
    out << " gsync=" << ((clone == tapkee::verif_shuffle_generator()) ? 1 : 0);
    if (Y0.size())
        out << " y0=" << mat_rows(Y0.transpose());
    out << " fin=" << (all_finite(Y) ? 1 : 0);
    out << " y=" << mat_rows(Y);
#ifdef C19_STREAMS
    out << " nu=" << vs::unif().used << " uex=" << (vs::unif().exhausted ? 1 : 0)
        << " ner=" << vs::eigrand().used << " eex=" << (vs::eigrand().exhausted ? 1 : 0);
    vs::eigrand().disarm();
    vs::unif().disarm();
#endif
    std::cout << out.str() << std::endl;
}

#ifndef C19_STREAMS
static void op_speapi(std::map<std::string, std::string>& f)
{
    int N = std::stoi(f["N"]), D = std::stoi(f["D"]), d = std::stoi(f["d"]), g = std::stoi(f["g"]);
    int k = std::stoi(f["k"]), nup = std::stoi(f["nup"]);
    long T = std::stol(f["T"]);
    double tol = vh::parse_num(f["tol"]);
    DenseMatrix X = parse_points(f["pts"], N, D);
    IdMap idm;
    idm.set(f, N);
    std::vector<int> idx = idm.ids;
    PairLog log;
    PointsDistance cb{&X, &log, false, &idm};
    tapkee::verif_shuffle_generator().seed((unsigned)std::stoul(f["seed"]));
    std::srand((unsigned)std::stoul(f["srand"]));
    std::cerr << "speapi N=" << N << "\n";
    using namespace tapkee;
    std::ostringstream out;
    try
    {
        TapkeeOutput o = run_method<tapkee_internal::StochasticProximityEmbeddingImplementation>(
            idx.begin(), idx.end(), NoKernel(), cb, NoFeatures(),
            (target_dimension = d, spe_global_strategy = (g != 0), num_neighbors = k, spe_num_updates = nup,
             max_iteration = (IndexType)T, spe_tolerance = tol));
        out << "ok rows=" << o.embedding.rows() << " cols=" << o.embedding.cols()
            << " fin=" << (all_finite(o.embedding) ? 1 : 0) << " selfcalls=" << log.pairs.size() << " badid=" << idm.bad
            << " y=" << mat_rows(o.embedding);
    }
    catch (const std::exception& e)
    {
        std::string w = e.what();
        for (auto& c : w)
            if (c == ' ')
                c = '_';
        out << "throw " << w;
    }
    std::cout << out.str() << std::endl;
}

#endif

static void moments(const double* p, size_t n, std::ostringstream& out)
{
    long double s1 = 0, s2 = 0, s3 = 0, s4 = 0, lag = 0;
    for (size_t i = 0; i < n; ++i)
    {
        long double x = p[i];
        s1 += x;
        s2 += x * x;
        s3 += x * x * x;
        s4 += x * x * x * x;
        if (i + 1 < n)
            lag += x * (long double)p[i + 1];
    }
    out << " mn=" << n << " m1=" << vh::num((double)s1) << " m2=" << vh::num((double)s2)
        << " m3=" << vh::num((double)s3) << " m4=" << vh::num((double)s4) << " mlag=" << vh::num((double)lag);
}

static void op_rp(std::map<std::string, std::string>& f)
{
    int N = std::stoi(f["N"]), D = std::stoi(f["D"]), d = std::stoi(f["d"]);
    DenseMatrix X = parse_points(f["pts"], N, D);
    std::vector<double> shift = f.count("shift") ? vh::parse_nums(f["shift"]) : std::vector<double>(D, 0.0);
    DenseMatrix X2 = X;
    for (int i = 0; i < N; ++i)
        for (int c = 0; c < D; ++c)
            X2(c, i) = X(c, i) + shift.at(c);
    IdMap idm;
    idm.set(f, N);
    std::vector<int> idx = idm.ids;
    bool big = f.count("big") && f["big"] == "1"; // moments only
    using namespace tapkee;
    std::ostringstream out;
    std::cerr << "rp N=" << N << "\n";
    try
    {
        TapkeeOutput o[2];
        long ng = 0;
        bool gex = false;
        for (int r = 0; r < 2; ++r)
        {
#ifdef C19_STREAMS
            vs::gauss().arm(f.count("gauss") ? vh::parse_nums(f["gauss"]) : std::vector<double>());
#endif
            if (f.count("srand"))
                std::srand((unsigned)std::stoul(f["srand"]));
#ifndef C19_STREAMS
            vr::arm(f.count("rs") ? vh::parse_ints(f["rs"]) : std::vector<long>());
#endif
            PointsFeatures fc{r == 0 ? &X : &X2, &idm};
            o[r] = run_method<tapkee_internal::RandomProjectionImplementation>(
                idx.begin(), idx.end(), NoKernel(), NoDistance(), fc, (target_dimension = d, max_iteration = 100));
#ifdef C19_STREAMS
            ng = vs::gauss().used;
            gex = gex || vs::gauss().exhausted;
            vs::gauss().disarm();
#endif
        }
        auto* impl = dynamic_cast<MatrixProjectionImplementation*>(o[0].projection.implementation.get());
        auto* impl2 = dynamic_cast<MatrixProjectionImplementation*>(o[1].projection.implementation.get());
        out << "ok rows=" << o[0].embedding.rows() << " cols=" << o[0].embedding.cols()
            << " fin=" << (all_finite(o[0].embedding) && all_finite(o[1].embedding) ? 1 : 0);
        if (impl && impl2)
        {
            out << " prows=" << impl->proj_mat.rows() << " pcols=" << impl->proj_mat.cols()
                << " psame=" << ((impl->proj_mat.array() == impl2->proj_mat.array()).all() ? 1 : 0);
            moments(impl->proj_mat.data(), (size_t)impl->proj_mat.size(), out);
            if (!big)
            {
                out << " P=" << mat_rows(impl->proj_mat) << " mean=" << nums(impl->mean_vec.data(), impl->mean_vec.size())
                    << " mean2=" << nums(impl2->mean_vec.data(), impl2->mean_vec.size());
                // the returned projecting function applied to sample 0 (C07 owns this; here only as a cross-check)
                DenseVector p0 = o[0].projection(X.col(0));
                out << " proj0=" << nums(p0.data(), p0.size());
            }
        }
        else
            out << " noproj=1";
        if (!big)
            out << " y=" << mat_rows(o[0].embedding) << " y2=" << mat_rows(o[1].embedding);
        else
            out << " ysame=" << ((o[0].embedding.array() == o[1].embedding.array()).all() ? 1 : 0);
        out << " ng=" << ng << " gex=" << (gex ? 1 : 0) << " badid=" << idm.bad;
    }
    catch (const std::exception& e)
    {
        std::string w = e.what();
        for (auto& c : w)
            if (c == ' ')
                c = '_';
        out << "throw " << w;
    }
    std::cout << out.str() << std::endl;
}

static void op_fa(std::map<std::string, std::string>& f)
{
    int N = std::stoi(f["N"]), D = std::stoi(f["D"]), d = std::stoi(f["d"]);
    long T = std::stol(f["T"]);
    double eps = vh::parse_num(f["eps"]);
    DenseMatrix X = parse_points(f["pts"], N, D);
    std::vector<double> shift = f.count("shift") ? vh::parse_nums(f["shift"]) : std::vector<double>(D, 0.0);
    DenseMatrix X2 = X;
    for (int i = 0; i < N; ++i)
        for (int c = 0; c < D; ++c)
            X2(c, i) = X(c, i) + shift.at(c);
    IdMap idm;
    idm.set(f, N);
    std::vector<int> idx = idm.ids;
    using namespace tapkee;
    std::ostringstream out;
    std::cerr << "fa N=" << N << "\n";
    try
    {
        TapkeeOutput o[2];
        DenseMatrix A0;
        long ner = 0;
        for (int r = 0; r < 3; ++r)
        {
#ifdef C19_STREAMS
            if (f.count("a0"))
            {
                std::vector<double> a0 = vh::parse_nums(f["a0"]);
                vs::eigrand().arm(a0);
            }
#endif
            if (f.count("srand"))
                std::srand((unsigned)std::stoul(f["srand"]));
            if (r == 2)
            {
                // the initial loading matrix, by replaying the initialisation expression on the same stream
                A0 = DenseMatrix::Random(D, d).cwiseAbs();
            }
            else
            {
                PointsFeatures fc{r == 0 ? &X : &X2, &idm};
                o[r] = run_method<tapkee_internal::FactorAnalysisImplementation>(
                    idx.begin(), idx.end(), NoKernel(), NoDistance(), fc,
                    (target_dimension = d, max_iteration = (IndexType)T, fa_epsilon = eps));
            }
#ifdef C19_STREAMS
            ner = vs::eigrand().used;
            vs::eigrand().disarm();
#endif
        }
        out << "ok rows=" << o[0].embedding.rows() << " cols=" << o[0].embedding.cols()
            << " fin=" << (all_finite(o[0].embedding) && all_finite(o[1].embedding) ? 1 : 0)
            << " hasproj=" << (o[0].projection.implementation ? 1 : 0) << " a0=" << mat_rows(A0)
            << " y=" << mat_rows(o[0].embedding) << " y2=" << mat_rows(o[1].embedding) << " ner=" << ner << " badid=" << idm.bad;
    }
    catch (const std::exception& e)
    {
        std::string w = e.what();
        for (auto& c : w)
            if (c == ' ')
                c = '_';
        out << "throw " << w;
    }
    std::cout << out.str() << std::endl;
}

static void op_gauss(std::map<std::string, std::string>& f)
{
    size_t n = (size_t)std::stoul(f["n"]);
    std::srand((unsigned)std::stoul(f["srand"]));
    std::vector<double> v(n);
    for (size_t i = 0; i < n; ++i)
        v[i] = tapkee::gaussian_random();
    std::ostringstream out;
    out << "ok";
    moments(v.data(), n, out);
    bool fin = true;
    for (double x : v)
        fin = fin && std::isfinite(x);
    out << " fin=" << (fin ? 1 : 0);
    std::cout << out.str() << std::endl;
}

#ifndef C19_STREAMS
// grand n= [rs=] srand= : the REAL tapkee::gaussian_random() on the interposed rand() stream.  Per variate: the value,
// the cumulative number of rand() calls, and — recomputed from the two draws consumed last (the accepted pair of the
// polar method) — the radius and the values std::log / std::sqrt return for it (oracle values for the model).
static void op_grand(std::map<std::string, std::string>& f)
{
    size_t n = (size_t)std::stoul(f["n"]);
    std::srand((unsigned)std::stoul(f["srand"]));
    vr::arm(f.count("rs") ? vh::parse_ints(f["rs"]) : std::vector<long>());
    std::ostringstream g, calls, rad, L, S;
    bool fin = true;
    for (size_t i = 0; i < n; ++i)
    {
        double v = tapkee::gaussian_random();
        fin = fin && std::isfinite(v);
        size_t c = vr::log().size();
        double x = 0, y = 0, radius = 0, l = 0, sq = 0;
        if (c >= 2)
        {
            x = 2 * (vr::log()[c - 2] / ((double)RAND_MAX + 1)) - 1;
            y = 2 * (vr::log()[c - 1] / ((double)RAND_MAX + 1)) - 1;
            radius = (x * x) + (y * y);
            l = std::log(radius);
            sq = std::sqrt(-2 * l / radius);
        }
        const char* sep = i ? "," : "";
        g << sep << vh::num(v);
        calls << sep << c;
        rad << sep << vh::num(radius);
        L << sep << vh::num(l);
        S << sep << vh::num(sq);
    }
    std::ostringstream used;
    for (size_t i = 0; i < vr::log().size(); ++i)
        used << (i ? "," : "") << vr::log()[i];
    std::cout << "ok fin=" << (fin ? 1 : 0) << " g=" << g.str() << " calls=" << calls.str() << " rad=" << rad.str()
              << " L=" << L.str() << " S=" << S.str() << " used=" << used.str() << std::endl;
}

// urand n= [rs=] srand= : the REAL tapkee::uniform_random();  uidx upper= n= [rs=] srand= : uniform_random_index_bounded
static void op_urand(std::map<std::string, std::string>& f, bool index)
{
    size_t n = (size_t)std::stoul(f["n"]);
    std::srand((unsigned)std::stoul(f["srand"]));
    vr::arm(f.count("rs") ? vh::parse_ints(f["rs"]) : std::vector<long>());
    std::ostringstream u;
    int upper = index ? std::stoi(f["upper"]) : 0;
    for (size_t i = 0; i < n; ++i)
    {
        if (index)
            u << (i ? "," : "") << tapkee::uniform_random_index_bounded(upper);
        else
            u << (i ? "," : "") << vh::num(tapkee::uniform_random());
    }
    std::ostringstream used;
    for (size_t i = 0; i < vr::log().size(); ++i)
        used << (i ? "," : "") << vr::log()[i];
    std::cout << "ok u=" << u.str() << " used=" << used.str() << std::endl;
}
#endif

static void op_unifnat(std::map<std::string, std::string>& f)
{
    size_t n = (size_t)std::stoul(f["n"]);
    std::srand((unsigned)std::stoul(f["srand"]));
    double mn = 2, mx = -1;
    long double s = 0;
    for (size_t i = 0; i < n; ++i)
    {
        double u = tapkee::uniform_random();
        mn = std::min(mn, u);
        mx = std::max(mx, u);
        s += u;
    }
    std::cout << "ok n=" << n << " min=" << vh::num(mn) << " max=" << vh::num(mx) << " sum=" << vh::num((double)s)
              << std::endl;
}

int main()
{
    tapkee::Logging::instance().disable_info();
    tapkee::Logging::instance().disable_warning();
    std::string line;
    while (std::getline(std::cin, line))
    {
        if (line.empty())
            continue;
        auto f = vh::fields(line);
        std::string op = line.substr(0, line.find(' '));
        vh::case_alarm(300); // per-case watchdog (reported as abort:timeout for this case)
        if (op == "spe")
            op_spe(f, false);
        else if (op == "specov")
            op_spe(f, true);
#ifndef C19_STREAMS
        else if (op == "speapi")
            op_speapi(f);
        else if (op == "grand")
            op_grand(f);
        else if (op == "urand")
            op_urand(f, false);
        else if (op == "uidx")
            op_urand(f, true);
#endif
        else if (op == "rp")
            op_rp(f);
        else if (op == "fa")
            op_fa(f);
        else if (op == "gauss")
            op_gauss(f);
        else if (op == "unifnat")
            op_unifnat(f);
        else
            std::cout << "bad-op" << std::endl;
    }
    return 0;
}
