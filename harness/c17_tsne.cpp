// C17 correspondence harness: the private stages of tsne::TSNE through the TAPKEE_VERIF friend hook
// (`friend struct ::tapkee_verif_access`), tsne::VpTree (tree dump needs its private Node), and the public API.
//
// topics (one case per line, numbers are integers, a/b or m:e dyadics; matrices row-major, comma separated):
//   sqd  N= D= X=                      -> DD=<N*N>
//   zm   N= D= X=                      -> X=<N*D>
//   gpd  N= D= X= perp=                -> P=<N*N>                      dense computeGaussianPerplexity
//   gpk  N= D= X= perp= K= rnd=        -> row= col= val=               K-NN computeGaussianPerplexity
//   sym  N= row= col= val=             -> row= col= val=               symmetrizeMatrix
//   vps  N= D= X= k= rnd= q=           -> items= tree= r=q:i@d,i@d;..  tsne::VpTree create + search
//   exg  N= D= P= Y=                   -> dC=<N*D>                     computeExactGradient
//   bhg  N= D= row= col= val= Y= theta= -> dC=<N*D>                    computeGradient
//   run  N= D= X= perp= theta= dim= g= at= [upto=T] -> snaps=it/C/Y;... Y= [traj=Y_0;..;Y_T]
//        TSNE::run observed through its progress log and (upto) its per-iteration observer hook
//   (the public-API smoke cases live in c17_api.cpp: tapkee.hpp is slow to compile)
#include <algorithm>
#include <cfloat>
#include <cmath>
#include <cstring>
#include <limits>
#include <memory>
#include <queue>
#include <vector>

#include "vcommon.hpp"

// deterministic, case-controlled random streams (read by defines/random.hpp)
static std::vector<long> vh_draws;
static size_t vh_draw_pos = 0;
static double vh_uniform()
{
    if (vh_draws.empty())
        return 0.0;
    long m = vh_draws[vh_draw_pos % vh_draws.size()];
    vh_draw_pos++;
    return std::ldexp((double)(m % 1048576), -20);
}
static unsigned long long vh_gs = 88172645463325252ULL;
static std::vector<double> vh_gvals; // replayed stream of gaussian_random() values (`g=` of a `run` case)
static size_t vh_gpos = 0;
static double vh_gauss()
{
    if (!vh_gvals.empty())
        return vh_gvals[vh_gpos++ % vh_gvals.size()];
    // sum of 12 uniforms - 6 (xorshift64): deterministic stand-in for gaussian_random()
    double s = 0;
    for (int i = 0; i < 12; i++)
    {
        vh_gs ^= vh_gs << 13;
        vh_gs ^= vh_gs >> 7;
        vh_gs ^= vh_gs << 17;
        s += (double)(vh_gs >> 11) / 9007199254740992.0;
    }
    return s - 6.0;
}
#define CUSTOM_UNIFORM_RANDOM_FUNCTION vh_uniform()
#define CUSTOM_GAUSSIAN_RANDOM_FUNCTION vh_gauss()

#include <tapkee/defines.hpp>
#include <tapkee/external/barnes_hut_sne/quadtree.hpp>
#define private public
#include <tapkee/external/barnes_hut_sne/vptree.hpp>
#undef private
#include <tapkee/external/barnes_hut_sne/tsne.hpp>

using tapkee::ScalarType;

struct tapkee_verif_access
{
    static void sqd(tsne::TSNE& t, double* X, int N, int D, double* DD)
    {
        t.computeSquaredEuclideanDistance(X, N, D, DD);
    }
    static void zm(tsne::TSNE& t, double* X, int N, int D)
    {
        t.zeroMean(X, N, D);
    }
    static void gpd(tsne::TSNE& t, double* X, int N, int D, double* P, double perp)
    {
        t.computeGaussianPerplexity(X, N, D, P, perp);
    }
    static void gpk(tsne::TSNE& t, double* X, int N, int D, int** r, int** c, double** v, double perp, int K)
    {
        t.computeGaussianPerplexity(X, N, D, r, c, v, perp, K);
    }
    static void exg(tsne::TSNE& t, double* P, double* Y, int N, int D, double* dC)
    {
        t.computeExactGradient(P, Y, N, D, dC);
    }
    static void bhg(tsne::TSNE& t, int* r, int* c, double* v, double* Y, int N, int D, double* dC, double theta)
    {
        t.computeGradient(NULL, r, c, v, Y, N, D, dC, theta);
    }
};

// `run` logs "Iteration <i>: error is <C>" every 50 iterations (fmt prints the shortest text that reads back as the same
// double): the one channel through which the state of the real run() is visible from outside.  The logger records the
// value and a snapshot of the map at the requested iterations.
struct capture_logger : tapkee::LoggerImplementation
{
    const double* Y = nullptr;
    size_t ny = 0;
    std::vector<long> wanted;
    std::ostringstream snaps;
    bool first = true;
    bool bad_format = false;
    void message_info(const std::string& msg)
    {
        const char* pre = "Iteration ";
        if (msg.compare(0, strlen(pre), pre) != 0)
            return;
        // any deviation from "Iteration <int>: error is <double>" is reported as an unreadable log (a broken observation
        // channel), never turned into a number
        size_t colon = msg.find(':');
        char* end = nullptr;
        long it = std::strtol(msg.c_str() + strlen(pre), &end, 10);
        if (colon == std::string::npos || end != msg.c_str() + colon || end == msg.c_str() + strlen(pre))
        {
            bad_format = true;
            return;
        }
        if (std::find(wanted.begin(), wanted.end(), it) == wanted.end())
            return;
        size_t pos = msg.find("error is ");
        if (pos == std::string::npos)
        {
            bad_format = true;
            return;
        }
        const char* num = msg.c_str() + pos + 9;
        double C = std::strtod(num, &end);
        if (end == num || *end != '\0' || !std::isfinite(C))
        {
            bad_format = true;
            return;
        }
        snaps << (first ? "" : ";") << it << "/" << vh::num(C) << "/";
        for (size_t i = 0; i < ny; i++)
            snaps << (i ? "," : "") << vh::num(Y[i]);
        first = false;
    }
    void message_warning(const std::string&) {}
    void message_debug(const std::string&) {}
    void message_error(const std::string&) {}
    void message_benchmark(const std::string&) {}
};

// the per-iteration observer hook of run() (TAPKEE_VERIF): the map right after `zeroMean(Y)` of iterations 0..upto
static long vh_traj_upto = -1;
static std::ostringstream vh_traj;
static void vh_observe_iteration(int iter, const tapkee::ScalarType* Y, int N, int no_dims)
{
    if (iter > vh_traj_upto)
        return;
    vh_traj << (iter ? ";" : "");
    for (int i = 0; i < N * no_dims; i++)
        vh_traj << (i ? "," : "") << vh::num(Y[i]);
}

static std::string nums(const double* p, size_t n)
{
    std::string s;
    for (size_t i = 0; i < n; i++)
    {
        if (i)
            s += ",";
        s += vh::num(p[i]);
    }
    return s;
}
static std::string ints(const int* p, size_t n)
{
    std::string s;
    for (size_t i = 0; i < n; i++)
    {
        if (i)
            s += ",";
        s += std::to_string(p[i]);
    }
    return s;
}

typedef tsne::VpTree<tsne::DataPoint, tsne::euclidean_distance> Vp;
static void dump(Vp::Node* n, std::ostringstream& out)
{
    if (n == NULL)
    {
        out << "-";
        return;
    }
    out << "(" << n->index << "_" << vh::num(n->threshold) << "_";
    dump(n->left, out);
    out << "_";
    dump(n->right, out);
    out << ")";
}

int main()
{
    std::string line;
    tapkee::Logging::instance().disable_info();
    while (std::getline(std::cin, line))
    {
        if (line.empty())
            continue;
        vh::case_alarm(60); // per-case watchdog: a hang is the observation abort:timeout
        auto f = vh::fields(line);
        std::string topic = line.substr(0, line.find(' '));
        std::cerr << "case " << topic << "\n";
        int N = f.count("N") ? std::stoi(f["N"]) : 0;
        int D = f.count("D") ? std::stoi(f["D"]) : 0;
        tsne::TSNE t;
        std::ostringstream out;
        vh_draws = f.count("rnd") ? vh::parse_ints(f["rnd"]) : std::vector<long>();
        vh_draw_pos = 0;
        if (topic == "sqd")
        {
            // exact-size heap buffers so that any overrun is an ASan observation
            std::vector<double> X = vh::parse_nums(f["X"]);
            std::unique_ptr<double[]> Xb(new double[X.size()]);
            std::copy(X.begin(), X.end(), Xb.get());
            std::unique_ptr<double[]> DD(new double[(size_t)N * N]);
            tapkee_verif_access::sqd(t, Xb.get(), N, D, DD.get());
            out << "DD=" << nums(DD.get(), (size_t)N * N);
        }
        else if (topic == "zm")
        {
            std::vector<double> X = vh::parse_nums(f["X"]);
            std::unique_ptr<double[]> Xb(new double[X.size()]);
            std::copy(X.begin(), X.end(), Xb.get());
            tapkee_verif_access::zm(t, Xb.get(), N, D);
            out << "X=" << nums(Xb.get(), X.size());
        }
        else if (topic == "gpd")
        {
            std::vector<double> X = vh::parse_nums(f["X"]);
            std::unique_ptr<double[]> Xb(new double[X.size()]);
            std::copy(X.begin(), X.end(), Xb.get());
            std::unique_ptr<double[]> P(new double[(size_t)N * N]);
            tapkee_verif_access::gpd(t, Xb.get(), N, D, P.get(), vh::parse_num(f["perp"]));
            out << "P=" << nums(P.get(), (size_t)N * N);
        }
        else if (topic == "gpk")
        {
            std::vector<double> X = vh::parse_nums(f["X"]);
            std::unique_ptr<double[]> Xb(new double[X.size()]);
            std::copy(X.begin(), X.end(), Xb.get());
            int K = std::stoi(f["K"]);
            int *r = NULL, *c = NULL;
            double* v = NULL;
            tapkee_verif_access::gpk(t, Xb.get(), N, D, &r, &c, &v, vh::parse_num(f["perp"]), K);
            out << "row=" << ints(r, N + 1) << " col=" << ints(c, (size_t)N * K) << " val=" << nums(v, (size_t)N * K);
            free(r);
            free(c);
            free(v);
        }
        else if (topic == "sym")
        {
            std::vector<long> r0 = vh::parse_ints(f["row"]);
            std::vector<long> c0 = vh::parse_ints(f["col"]);
            std::vector<double> v0 = vh::parse_nums(f["val"]);
            int* r = (int*)malloc(r0.size() * sizeof(int));
            int* c = (int*)malloc(std::max<size_t>(1, c0.size()) * sizeof(int));
            double* v = (double*)malloc(std::max<size_t>(1, v0.size()) * sizeof(double));
            for (size_t i = 0; i < r0.size(); i++)
                r[i] = (int)r0[i];
            for (size_t i = 0; i < c0.size(); i++)
                c[i] = (int)c0[i];
            for (size_t i = 0; i < v0.size(); i++)
                v[i] = v0[i];
            t.symmetrizeMatrix(&r, &c, &v, N);
            int ne = r[N];
            out << "row=" << ints(r, N + 1) << " col=" << ints(c, ne) << " val=" << nums(v, ne);
            free(r);
            free(c);
            free(v);
        }
        else if (topic == "vps")
        {
            std::vector<double> X = vh::parse_nums(f["X"]);
            int k = std::stoi(f["k"]);
            std::vector<tsne::DataPoint> obj(N, tsne::DataPoint(D, -1, X.data()));
            for (int n = 0; n < N; n++)
                obj[n] = tsne::DataPoint(D, n, X.data() + (size_t)n * D);
            Vp tree;
            tree.create(obj);
            out << "items=";
            for (int n = 0; n < N; n++)
                out << (n ? "," : "") << tree._items[n].index();
            out << " tree=";
            dump(tree._root, out);
            out << " r=";
            bool first = true;
            for (long q : vh::parse_ints(f["q"]))
            {
                std::vector<tsne::DataPoint> res;
                std::vector<ScalarType> dist;
                tree.search(obj[q], k, &res, &dist);
                out << (first ? "" : ";") << q << ":";
                first = false;
                for (size_t i = 0; i < res.size(); i++)
                    out << (i ? "," : "") << res[i].index() << "@" << vh::num(dist[i]);
            }
        }
        else if (topic == "run")
        {
            // the real TSNE::run (public), observed through its own progress log
            std::vector<double> X = vh::parse_nums(f["X"]);
            int dim = std::stoi(f["dim"]);
            vh_gvals = vh::parse_nums(f["g"]);
            vh_gpos = 0;
            tapkee::DenseMatrix Xm(D, N); // run() reads X.data()[n*D + d]
            for (size_t i = 0; i < X.size(); i++)
                Xm.data()[i] = X[i];
            std::unique_ptr<double[]> Y(new double[(size_t)N * dim]);
            static capture_logger* lg = nullptr; // owned by the Logging singleton once installed
            if (!lg)
            {
                lg = new capture_logger();
                tapkee::Logging::instance().set_logger_impl(lg);
            }
            lg->Y = Y.get();
            lg->ny = (size_t)N * dim;
            lg->wanted = vh::parse_ints(f["at"]);
            lg->snaps.str("");
            lg->first = true;
            lg->bad_format = false;
            vh_traj_upto = f.count("upto") ? std::stol(f["upto"]) : -1;
            vh_traj.str("");
            tsne::verif_iteration_observer() = vh_observe_iteration;
            tapkee::Logging::instance().enable_info();
            t.run(Xm, N, D, Y.get(), dim, vh::parse_num(f["perp"]), vh::parse_num(f["theta"]));
            tapkee::Logging::instance().disable_info();
            tsne::verif_iteration_observer() = nullptr;
            out << "snaps=" << lg->snaps.str() << " logfmt=" << (lg->bad_format ? "BAD" : "ok")
                << " Y=" << nums(Y.get(), (size_t)N * dim);
            if (vh_traj_upto >= 0)
                out << " traj=" << vh_traj.str();
            lg->Y = nullptr;
            vh_gvals.clear();
        }
        else if (topic == "exg")
        {
            std::vector<double> P = vh::parse_nums(f["P"]);
            std::vector<double> Y = vh::parse_nums(f["Y"]);
            std::unique_ptr<double[]> Pb(new double[P.size()]), Yb(new double[Y.size()]);
            std::copy(P.begin(), P.end(), Pb.get());
            std::copy(Y.begin(), Y.end(), Yb.get());
            std::unique_ptr<double[]> dC(new double[(size_t)N * D]);
            tapkee_verif_access::exg(t, Pb.get(), Yb.get(), N, D, dC.get());
            out << "dC=" << nums(dC.get(), (size_t)N * D);
        }
        else if (topic == "bhg")
        {
            std::vector<long> r0 = vh::parse_ints(f["row"]);
            std::vector<long> c0 = vh::parse_ints(f["col"]);
            std::vector<double> v0 = vh::parse_nums(f["val"]);
            std::vector<double> Y = vh::parse_nums(f["Y"]);
            std::unique_ptr<int[]> r(new int[r0.size()]), c(new int[std::max<size_t>(1, c0.size())]);
            std::unique_ptr<double[]> v(new double[std::max<size_t>(1, v0.size())]), Yb(new double[Y.size()]);
            for (size_t i = 0; i < r0.size(); i++)
                r[i] = (int)r0[i];
            for (size_t i = 0; i < c0.size(); i++)
                c[i] = (int)c0[i];
            std::copy(v0.begin(), v0.end(), v.get());
            std::copy(Y.begin(), Y.end(), Yb.get());
            std::unique_ptr<double[]> dC(new double[(size_t)N * D]);
            tapkee_verif_access::bhg(t, r.get(), c.get(), v.get(), Yb.get(), N, D, dC.get(), vh::parse_num(f["theta"]));
            out << "dC=" << nums(dC.get(), (size_t)N * D);
        }
        else
            out << "bad-topic";
        std::cout << out.str() << std::endl;
    }
    return 0;
}
