// Shared helpers of the correspondence harnesses (DESIGN §2.2, §3, §11).
#pragma once
#include <cmath>
#include <cstdint>
#include <cstdio>
#include <cstdlib>
#include <iostream>
#include <map>
#include <sstream>
#include <string>
#include <vector>
#include <unistd.h>

namespace vh
{
// per-case watchdog: a case that runs longer than `seconds` kills the process with SIGALRM, which the
// Python side reports as the observation `abort:timeout` for exactly that case (a hang is an observation)
inline void case_alarm(unsigned seconds)
{
    alarm(seconds);
}

inline std::vector<std::string> split(const std::string& s, char sep, bool keep_empty = false)
{
    std::vector<std::string> out;
    std::string cur;
    for (char c : s)
    {
        if (c == sep)
        {
            if (keep_empty || !cur.empty())
                out.push_back(cur);
            cur.clear();
        }
        else
            cur.push_back(c);
    }
    if (keep_empty || !cur.empty())
        out.push_back(cur);
    return out;
}

// `k=v` fields of a case line
inline std::map<std::string, std::string> fields(const std::string& line)
{
    std::map<std::string, std::string> m;
    for (auto& tok : split(line, ' '))
    {
        auto p = tok.find('=');
        if (p != std::string::npos)
            m[tok.substr(0, p)] = tok.substr(p + 1);
    }
    return m;
}

// exact rational text -> double: integer, `a/b` (b a power of two in exact mode) or `m:e` = m*2^e
inline double parse_num(const std::string& s)
{
    auto c = s.find(':');
    if (c != std::string::npos)
        return std::ldexp((double)std::stoll(s.substr(0, c)), std::stoi(s.substr(c + 1)));
    auto p = s.find('/');
    if (p == std::string::npos)
        return (double)std::stoll(s);
    return (double)std::stoll(s.substr(0, p)) / (double)std::stoll(s.substr(p + 1));
}

inline std::vector<double> parse_nums(const std::string& s, char sep = ',')
{
    std::vector<double> v;
    for (auto& t : split(s, sep))
        v.push_back(parse_num(t));
    return v;
}

inline std::vector<long> parse_ints(const std::string& s, char sep = ',')
{
    std::vector<long> v;
    for (auto& t : split(s, sep))
        v.push_back(std::stol(t));
    return v;
}

// a double printed as the exact dyadic `m:e` (value m*2^e), or inf/-inf/nan/dblmax tokens; integers print plainly
inline std::string num(double x)
{
    if (std::isnan(x))
        return "nan";
    if (std::isinf(x))
        return x > 0 ? "inf" : "-inf";
    if (x == 1.7976931348623157e308)
        return "dblmax";
    if (x == 0)
        return "0";
    if (std::fabs(x) < 9e15 && x == std::floor(x))
    {
        char b[32];
        snprintf(b, sizeof b, "%lld", (long long)x);
        return b;
    }
    int e;
    double m = std::frexp(x, &e); // x = m*2^e, 0.5<=|m|<1
    long long mi = (long long)std::ldexp(m, 53);
    e -= 53;
    while (mi != 0 && (mi % 2) == 0)
    {
        mi /= 2;
        e += 1;
    }
    char b[64];
    snprintf(b, sizeof b, "%lld:%d", mi, e);
    return b;
}
} // namespace vh
