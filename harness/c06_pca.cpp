// C06 correspondence harness: compute_mean / compute_covariance_matrix directly + PCA through the PUBLIC API with the
// eigen-observer hook; `agree`: PCA vs linear-kernel Kernel PCA vs Euclidean MDS on the same feature data.
// in : pca N=8 D=3 d=2 solver=dense|rand seed=1 data=<N rows of D>
// out: ok mean=<D> cov=<DxD> pre=<DxD> V=<Dxd> lam=<d> P=<Dxd> mu=<D> Y=<Nxd>
// in : agree N=8 D=3 d=2 solver=dense|rand seed=1 data=<N rows of D>
// out: ok Ypca=<Nxd> Ykpca=<Nxd> Ymds=<Nxd>
#include "vspectral.hpp"

using namespace tapkee;

static std::string run_pca(std::map<std::string, std::string>& f)
{
    const int N = std::stoi(f["N"]), D = std::stoi(f["D"]), d = std::stoi(f["d"]);
    DenseMatrix X = vs::all_data(f).transpose(); // one column per sample
    std::srand((unsigned)std::stoul(f.count("seed") ? f["seed"] : "1"));
    std::vector<IndexType> idx = vs::ids(f, N);
    eigen_features_callback fcb(X);
    // the two routines, called directly
    DenseVector mean = tapkee_internal::compute_mean(idx.begin(), idx.end(), fcb, D);
    DenseMatrix cov = tapkee_internal::compute_covariance_matrix(idx.begin(), idx.end(), mean, fcb, D);
    // the public API
    vs::reset_observed();
    ParametersSet params = (method = PrincipalComponentAnalysis, target_dimension = d,
                            eigen_method = vs::solver_by_name(f["solver"]));
    TapkeeOutput out = tapkee::with(params).withFeatures(fcb).embedUsing(idx);
    const vs::Observed& o = vs::observed();
    auto* impl = dynamic_cast<MatrixProjectionImplementation*>(out.projection.implementation.get());
    std::ostringstream s;
    s << "ok calls=" << o.calls << " mean=" << vs::vec(mean) << " cov=" << vs::mat(cov) << " pre=" << vs::mat(o.lhs)
      << " V=" << vs::mat(o.vectors) << " lam=" << vs::vec(o.values);
    if (impl)
        s << " P=" << vs::mat(impl->proj_mat) << " mu=" << vs::vec(impl->mean_vec);
    else
        s << " P=- mu=-";
    s << " Y=" << vs::mat(out.embedding);
    return s.str();
}

static std::string run_agree(std::map<std::string, std::string>& f)
{
    const int N = std::stoi(f["N"]), d = std::stoi(f["d"]);
    DenseMatrix X = vs::all_data(f).transpose();
    std::srand((unsigned)std::stoul(f.count("seed") ? f["seed"] : "1"));
    std::vector<IndexType> idx = vs::ids(f, N);
    eigen_features_callback fcb(X);
    eigen_kernel_callback kcb(X);
    eigen_distance_callback dcb(X);
    EigenMethod em = vs::solver_by_name(f["solver"]);
    TapkeeOutput a = tapkee::with((method = PrincipalComponentAnalysis, target_dimension = d, eigen_method = em))
                         .withFeatures(fcb)
                         .embedUsing(idx);
    TapkeeOutput b = tapkee::with((method = KernelPrincipalComponentAnalysis, target_dimension = d, eigen_method = em))
                         .withKernel(kcb)
                         .embedUsing(idx);
    TapkeeOutput c = tapkee::with((method = MultidimensionalScaling, target_dimension = d, eigen_method = em))
                         .withDistance(dcb)
                         .embedUsing(idx);
    std::ostringstream s;
    s << "ok Ypca=" << vs::mat(a.embedding) << " Ykpca=" << vs::mat(b.embedding) << " Ymds=" << vs::mat(c.embedding);
    return s.str();
}

int main()
{
    vs::install_observer();
    tapkee::Logging::instance().disable_info();
    std::string line;
    while (std::getline(std::cin, line))
    {
        if (line.empty())
            continue;
        auto f = vh::fields(line);
        vh::case_alarm(300); // per-case watchdog: a hang becomes the observation abort:timeout for this case
        bool agree = line.rfind("agree ", 0) == 0;
        std::cout << vs::guarded([&] { return agree ? run_agree(f) : run_pca(f); }) << std::endl;
    }
    return 0;
}
