// C01 sweep harness: one configuration of the PUBLIC API per input line (DESIGN §6 C01, §11).
//
// in : sweep id=17 method=hlle nm=brute em=dense N=8 D=3 d=3 k=4 data=generic seed=5 [ratio=1/2] [perp=2] [theta=1/2]
//            [width=1] [timesteps=3] [squish=99/100] [maxit=100] [spe_global=1] [spe_tol=..] [spe_upd=..] [fa_eps=..]
//            [check_conn=1] [limit=20]
// out: ok <rows> <cols> finite=<0|1> [same=<0|1>]     (same: PassThru returned the features unchanged)
//      throw <exception class>                          (tapkee class name, or std:<typeid> for anything else)
// A sanitizer report (exit code 97), an abort()/assert (SIGABRT -> stack trace, exit 99) or the per-case wall-clock
// limit (SIGALRM -> stack trace, exit 98) ends the process WITHOUT an output line for that case; the runner attributes
// it to the first unanswered line and resumes with the next one.
#include <tapkee/tapkee.hpp>
#include <tapkee/callbacks/eigen_callbacks.hpp>
#include <tapkee/exceptions.hpp>

#include <csignal>
#include <limits>
#include <ctime>
#include <cxxabi.h>
#include <typeinfo>
#include <unistd.h>

#include "vcommon.hpp"

extern "C" void __sanitizer_print_stack_trace(void);

using namespace tapkee;

static volatile long g_case_id = -1;

static void put(const char* s)
{
    ssize_t r = write(2, s, strlen(s));
    (void)r;
}

static void on_alarm(int)
{
    char b[96];
    snprintf(b, sizeof b, "\nVERIF-TIMEOUT case=%ld\n", (long)g_case_id);
    put(b);
    __sanitizer_print_stack_trace();
    _exit(98);
}

static void on_abort(int)
{
    char b[96];
    snprintf(b, sizeof b, "\nVERIF-ABORT case=%ld\n", (long)g_case_id);
    put(b);
    __sanitizer_print_stack_trace();
    _exit(99);
}

// ---------------------------------------------------------------- deterministic data (SplitMix64)
struct Sm64
{
    uint64_t s;
    explicit Sm64(uint64_t seed) : s(seed) {}
    uint64_t next()
    {
        s += 0x9E3779B97F4A7C15ull;
        uint64_t z = s;
        z = (z ^ (z >> 30)) * 0xBF58476D1CE4E5B9ull;
        z = (z ^ (z >> 27)) * 0x94D049BB133111EBull;
        return z ^ (z >> 31);
    }
    // dyadic value in (-4, 4) with 18 fractional bits (well inside the range where exp(-dist^2/width) is normal)
    double dy() { return (double)((long)(next() % (1u << 21)) - (1 << 20)) / 262144.0; }
    long below(long n) { return (long)(next() % (uint64_t)n); }
};

// D x N feature matrix (column = sample) of the named class
static DenseMatrix make_data(const std::string& cls, int N, int D, int k, uint64_t seed)
{
    DenseMatrix X = DenseMatrix::Zero(D, N);
    if (N <= 0)
        return X;
    Sm64 r(seed * 7919u + 13u);
    if (cls == "generic" || cls == "dup")
    {
        for (int i = 0; i < N; i++)
            for (int c = 0; c < D; c++)
                X(c, i) = r.dy();
        if (cls == "dup")
        {
            // >= k+2 coincident samples, placed at pseudo-random positions (always including a middle one)
            int m = std::min(N, std::max(2, k + 2));
            int first = (int)r.below(N);
            for (int j = 1; j < m; j++)
                X.col((first + j * 1) % N) = X.col(first);
        }
    }
    else if (cls == "lattice")
    {
        int side = 1;
        while (std::pow((double)side, (double)D) < (double)N)
            side++;
        for (int i = 0; i < N; i++)
        {
            int v = i;
            for (int c = 0; c < D; c++)
            {
                X(c, i) = (double)(v % side);
                v /= side;
            }
        }
    }
    else if (cls == "collinear" || cls == "collinear_last")
    {
        DenseVector dir = DenseVector::Zero(D);
        if (cls == "collinear")
            for (int c = 0; c < D; c++)
                dir(c) = (double)(1 + r.below(5));
        else
            dir(D - 1) = 1.0;
        for (int i = 0; i < N; i++)
            X.col(i) = dir * (double)i;
    }
    else if (cls == "constant")
    {
        DenseVector p(D);
        for (int c = 0; c < D; c++)
            p(c) = r.dy();
        for (int i = 0; i < N; i++)
            X.col(i) = p;
    }
    else if (cls == "widerange")
    {
        // magnitudes spread geometrically over 12 decades: 1e-6 .. 1e6
        for (int i = 0; i < N; i++)
        {
            double e = (N > 1) ? (-6.0 + 12.0 * (double)i / (double)(N - 1)) : 0.0;
            double s = std::pow(10.0, e);
            for (int c = 0; c < D; c++)
                X(c, i) = s * (1.0 + (double)r.below(1024) / 1024.0) * ((r.below(2) == 0) ? 1.0 : -1.0);
        }
    }
    else
    {
        std::cerr << "unknown data class " << cls << "\n";
        _exit(3);
    }
    return X;
}

static const std::map<std::string, DimensionReductionMethod>& method_table()
{
    static const std::map<std::string, DimensionReductionMethod> t = {
        {"klle", KernelLocallyLinearEmbedding},
        {"npe", NeighborhoodPreservingEmbedding},
        {"kltsa", KernelLocalTangentSpaceAlignment},
        {"lltsa", LinearLocalTangentSpaceAlignment},
        {"hlle", HessianLocallyLinearEmbedding},
        {"le", LaplacianEigenmaps},
        {"lpp", LocalityPreservingProjections},
        {"dm", DiffusionMap},
        {"isomap", Isomap},
        {"lisomap", LandmarkIsomap},
        {"mds", MultidimensionalScaling},
        {"lmds", LandmarkMultidimensionalScaling},
        {"spe", StochasticProximityEmbedding},
        {"kpca", KernelPrincipalComponentAnalysis},
        {"pca", PrincipalComponentAnalysis},
        {"rp", RandomProjection},
        {"fa", FactorAnalysis},
        {"tsne", tDistributedStochasticNeighborEmbedding},
        {"ms", ManifoldSculpting},
        {"passthru", PassThru},
    };
    return t;
}

static std::string demangled(const std::type_info& ti)
{
    int st = 0;
    char* d = abi::__cxa_demangle(ti.name(), nullptr, nullptr, &st);
    std::string s = (st == 0 && d) ? d : ti.name();
    free(d);
    for (auto& c : s)
        if (c == ' ')
            c = '_';
    return s;
}

static std::string run_case(std::map<std::string, std::string>& f)
{
    const int N = std::stoi(f["N"]);
    const int D = std::stoi(f["D"]);
    const int kk = f.count("k") ? std::stoi(f["k"]) : 5;
    const uint64_t seed = f.count("seed") ? std::stoull(f["seed"]) : 1;
    auto mt = method_table().find(f["method"]);
    if (mt == method_table().end())
        return "bad-case unknown-method";

    DenseMatrix X = make_data(f.count("data") ? f["data"] : "generic", N, D, kk, seed);

    // per-case determinism of every random stream the library draws from
    std::srand((unsigned)(seed * 2654435761u + 12345u));
    tapkee::verif_shuffle_generator().seed((unsigned)(seed + 5489u));

    ParametersSet p = tapkee::kwargs[method = mt->second];
    if (f.count("nm"))
    {
        if (f["nm"] == "brute")
            p.add(Parameter::create(neighbors_method.name, (NeighborsMethod)Brute));
        else if (f["nm"] == "vptree")
            p.add(Parameter::create(neighbors_method.name, (NeighborsMethod)VpTree));
        else if (f["nm"] == "covertree")
            p.add(Parameter::create(neighbors_method.name, (NeighborsMethod)CoverTree));
        else
            return "bad-case nm";
    }
    if (f.count("em"))
    {
        if (f["em"] == "dense")
            p.add(Parameter::create(eigen_method.name, (EigenMethod)Dense));
        else if (f["em"] == "randomized")
            p.add(Parameter::create(eigen_method.name, (EigenMethod)Randomized));
        else
            return "bad-case em";
    }
    if (f.count("d"))
        p.add(Parameter::create(target_dimension.name, (IndexType)std::stoi(f["d"])));
    if (f.count("k"))
        p.add(Parameter::create(num_neighbors.name, (IndexType)kk));
    if (f.count("ratio"))
        p.add(Parameter::create(landmark_ratio.name, (ScalarType)vh::parse_num(f["ratio"])));
    if (f.count("perp"))
        p.add(Parameter::create(sne_perplexity.name, (ScalarType)vh::parse_num(f["perp"])));
    if (f.count("theta"))
        p.add(Parameter::create(sne_theta.name, (ScalarType)vh::parse_num(f["theta"])));
    if (f.count("width"))
        p.add(Parameter::create(gaussian_kernel_width.name, (ScalarType)vh::parse_num(f["width"])));
    if (f.count("timesteps"))
        p.add(Parameter::create(diffusion_map_timesteps.name, (IndexType)std::stoi(f["timesteps"])));
    if (f.count("squish"))
        p.add(Parameter::create(squishing_rate.name, (ScalarType)vh::parse_num(f["squish"])));
    if (f.count("maxit"))
        p.add(Parameter::create(max_iteration.name, (IndexType)std::stoi(f["maxit"])));
    if (f.count("spe_global"))
        p.add(Parameter::create(spe_global_strategy.name, (bool)(f["spe_global"] == "1")));
    if (f.count("spe_tol"))
        p.add(Parameter::create(spe_tolerance.name, (ScalarType)vh::parse_num(f["spe_tol"])));
    if (f.count("spe_upd"))
        p.add(Parameter::create(spe_num_updates.name, (IndexType)std::stoi(f["spe_upd"])));
    if (f.count("fa_eps"))
        p.add(Parameter::create(fa_epsilon.name, (ScalarType)vh::parse_num(f["fa_eps"])));
    if (f.count("check_conn"))
        p.add(Parameter::create(check_connectivity.name, (bool)(f["check_conn"] == "1")));
    if (f.count("nullshift"))
        p.add(Parameter::create(nullspace_shift.name, (ScalarType)vh::parse_num(f["nullshift"])));
    if (f.count("klleshift"))
        p.add(Parameter::create(klle_shift.name, (ScalarType)vh::parse_num(f["klleshift"])));
    if (f.count("wrongtype"))   // a keyword carrying a value of the wrong C++ type
        p.add(Parameter::create(gaussian_kernel_width.name, (IndexType)1));
    if (f.count("dupkw"))       // a keyword given twice
    {
        p.add(Parameter::create(max_iteration.name, (IndexType)7));
        p.add(Parameter::create(max_iteration.name, (IndexType)7));
    }

    const DenseMatrix X0 = X;
    std::ostringstream out;
    try
    {
        TapkeeOutput o;
        if (f.count("api") && f["api"] == "embed")
        {
            // idx=identity (default): samples are 0..N-1.  idx=perm: a permutation of 0..N-1.  idx=sparse: sample i is
            // the VALUE 3 + 2*perm[i]; the callbacks' matrix has 3 + 2N columns and every column that is not a sample is
            // NaN, so code that uses a position where the sample value is meant (or the reverse) reads NaN / indexes a
            // container of N entries with a value up to 2N+2
            const std::string mode = f.count("idx") ? f["idx"] : "identity";
            std::vector<IndexType> perm(N);
            for (int i = 0; i < N; i++)
                perm[i] = i;
            if (mode != "identity")
            {
                Sm64 pr(seed * 104729u + 7u);
                for (int i = N - 1; i > 0; i--)
                    std::swap(perm[i], perm[pr.below(i + 1)]);
            }
            const int M = (mode == "sparse") ? 3 + 2 * N : N;
            std::vector<IndexType> idx(N);
            DenseMatrix Xbig = DenseMatrix::Constant(D, M, std::numeric_limits<double>::quiet_NaN());
            for (int i = 0; i < N; i++)
            {
                idx[i] = (mode == "sparse") ? 3 + 2 * perm[i] : perm[i];
                Xbig.col(idx[i]) = X.col(i);
            }
            eigen_kernel_callback kcb(Xbig);
            eigen_distance_callback dcb(Xbig);
            eigen_features_callback fcb(Xbig);
            o = tapkee::embed(idx.begin(), idx.end(), kcb, dcb, fcb, p);
        }
        else
            o = tapkee::with(p).embedUsing(X);
        const DenseMatrix& E = o.embedding;
        out << "ok " << E.rows() << " " << E.cols() << " finite=" << (E.allFinite() ? 1 : 0);
        if (f["method"] == "passthru")
        {
            bool same = (E.rows() == X0.cols() && E.cols() == X0.rows());
            if (same)
                same = (E.transpose().array() == X0.array()).all();
            out << " same=" << (same ? 1 : 0);
        }
    }
    catch (const tapkee::wrong_parameter_error&) { out << "throw wrong_parameter_error"; }
    catch (const tapkee::wrong_parameter_type_error&) { out << "throw wrong_parameter_type_error"; }
    catch (const tapkee::missed_parameter_error&) { out << "throw missed_parameter_error"; }
    catch (const tapkee::multiple_parameter_error&) { out << "throw multiple_parameter_error"; }
    catch (const tapkee::unsupported_method_error&) { out << "throw unsupported_method_error"; }
    catch (const tapkee::not_enough_memory_error&) { out << "throw not_enough_memory_error"; }
    catch (const tapkee::cancelled_exception&) { out << "throw cancelled_exception"; }
    catch (const tapkee::eigendecomposition_error&) { out << "throw eigendecomposition_error"; }
    catch (const tapkee::no_data_error&) { out << "throw no_data_error"; }
    catch (const std::exception& e)
    {
        std::string w = e.what();
        for (auto& c : w)
            if (c == ' ' || c == '\n')
                c = '_';
        out << "throw std:" << demangled(typeid(e)) << " what=" << w.substr(0, 60);
    }
    catch (...) { out << "throw unknown"; }
    return out.str();
}

int main()
{
    signal(SIGALRM, on_alarm);
    signal(SIGABRT, on_abort);
    tapkee::Logging::instance().disable_info();
    tapkee::Logging::instance().disable_warning();
    tapkee::Logging::instance().disable_error();
    tapkee::Logging::instance().disable_benchmark();
    std::string line;
    while (std::getline(std::cin, line))
    {
        if (line.empty())
            continue;
        auto f = vh::fields(line);
        g_case_id = f.count("id") ? std::stol(f["id"]) : -1;
        std::cerr << "case " << line << "\n";
        unsigned limit = f.count("limit") ? (unsigned)std::stoi(f["limit"]) : 20u;
        vh::case_alarm(limit);
        struct timespec t0, t1;
        clock_gettime(CLOCK_MONOTONIC, &t0);
        std::string o = run_case(f);
        alarm(0);
        clock_gettime(CLOCK_MONOTONIC, &t1);
        std::cerr << "done " << g_case_id << " ms=" << (long)((t1.tv_sec - t0.tv_sec) * 1000 + (t1.tv_nsec - t0.tv_nsec) / 1000000) << "\n";
        std::cout << o << std::endl;
    }
    return 0;
}
