// C10 correspondence harness: the real construct_*_eigenproblem routines and the public API for NPE / LLTSA / LPP
// (eigen-observer hook, projection matrix, embedding), plus the rotation metamorphism (two runs, second on R·X).
//
// in : op=npe|lltsa  N= D= feat=<NxD rows=samples> W=<NxN dense, stored as sparse>
//      op=lpp        N= D= feat= W=<NxN (the Laplacian)> Dg=<N>
//      op=embed method=npe|lltsa|lpp N= D= k= d= nm= cc= seed= shift= tshift= width= feat= kern=<NxN> dist=<NxN> [feat2=<NxD>]
// out: one line of key=value tokens
#include "v0810.hpp"

#include <tapkee/routines/laplacian_eigenmaps.hpp>

using namespace tapkee;
using namespace tapkee::tapkee_internal;
using v8::show_matrix;
using v8::show_vector;

typedef std::vector<IndexType> Idx;

static std::string sanitize(std::string w)
{
    for (auto& c : w)
        if (c == ' ' || c == '=')
            c = '_';
    return w;
}

struct run_result
{
    bool threw = false;
    std::string what;
    v8::observed o;
    DenseMatrix Y, P;
    DenseVector mean;
};

template <class KCB, class DCB>
static run_result run_embed(const DimensionReductionMethod& m, Idx& idx, KCB kcb, DCB dcb, const DenseMatrix& Xt,
                            IndexType k, IndexType d, NeighborsMethod nm, bool cc, unsigned seed, ScalarType shift,
                            ScalarType tshift, ScalarType width)
{
    run_result r;
    v8::matrix_features_callback fcb{&Xt};
    std::srand(seed);
    tapkee::verif_shuffle_generator().seed(seed);
    v8::install_observer();
    try
    {
        TapkeeOutput res =
            tapkee::embed(idx.begin(), idx.end(), kcb, dcb, fcb,
                          (tapkee::method = m, tapkee::target_dimension = d, tapkee::num_neighbors = k,
                           tapkee::neighbors_method = nm, tapkee::nullspace_shift = shift, tapkee::klle_shift = tshift,
                           tapkee::gaussian_kernel_width = width, tapkee::check_connectivity = cc,
                           tapkee::eigen_method = Dense));
        r.o = v8::obs();
        r.Y = res.embedding;
        MatrixProjectionImplementation* impl =
            dynamic_cast<MatrixProjectionImplementation*>(res.projection.implementation.get());
        if (impl)
        {
            r.P = impl->proj_mat;
            r.mean = impl->mean_vec;
        }
    }
    catch (const std::exception& e)
    {
        r.threw = true;
        r.what = sanitize(e.what());
    }
    return r;
}

int main()
{
    std::string line;
    while (std::getline(std::cin, line))
    {
        if (line.empty())
            continue;
        vh::case_alarm(120);
        auto f = vh::fields(line);
        const std::string op = f["op"];
        const IndexType N = std::stoi(f["N"]);
        const IndexType D = std::stoi(f["D"]);
        DenseMatrix F = v8::parse_matrix(f["feat"]); // Ntot x D (all samples the callbacks know)
        DenseMatrix Xt = F.transpose();              // D x Ntot, samples as columns
        v8::matrix_features_callback fcb{&Xt};
        Idx idx = v8::parse_range(f, N);             // the range handed to the library (N selected samples)
        std::ostringstream out;
        std::cerr << "case " << op << " N=" << N << " D=" << D << " k=" << f["k"] << " d=" << f["d"] << " " << f["method"]
                  << "\n";
#ifndef V8_NO_ROUTINES
        if (op == "npe" || op == "lltsa" || op == "lpp")
        {
            DenseMatrix Wd = v8::parse_matrix(f["W"]);
            SparseWeightMatrix W = Wd.sparseView();
            DenseSymmetricMatrixPair pr;
            if (op == "npe")
                pr = construct_neighborhood_preserving_eigenproblem(W, idx.begin(), idx.end(), fcb, D);
            else if (op == "lltsa")
                pr = construct_lltsa_eigenproblem(W, idx.begin(), idx.end(), fcb, D);
            else
            {
                auto dg = vh::parse_nums(f["Dg"]);
                DenseVector dv(N);
                for (IndexType i = 0; i < N; ++i)
                    dv(i) = dg[i];
                DenseDiagonalMatrix Dg(dv);
                pr = construct_locality_preserving_eigenproblem(W, Dg, idx.begin(), idx.end(), fcb, D);
            }
            out << "ok=1 lhs=" << show_matrix(pr.first) << " rhs=" << show_matrix(pr.second);
        }
        else
#else
        if (op == "npe" || op == "lltsa" || op == "lpp")
            out << "unavailable=1";
        else
#endif
        if (op == "embed")
        {
            const std::string method = f["method"];
            IndexType k = std::stoi(f["k"]), d = std::stoi(f["d"]);
            ScalarType shift = vh::parse_num(f["shift"]), tshift = vh::parse_num(f["tshift"]);
            ScalarType width = vh::parse_num(f["width"]);
            bool cc = f["cc"] == "1";
            unsigned seed = (unsigned)std::stoul(f["seed"]);
            NeighborsMethod nm = v8::neighbors_method_of(f["nm"]);
            DenseMatrix Kbig = v8::parse_matrix(f["kern"]);
            DenseMatrix Dbig = v8::parse_matrix(f["dist"]);
            v8::matrix_kernel_callback kcb{&Kbig};
            v8::matrix_distance_callback dcb{&Dbig};
            DenseMatrix K = v8::restrict_square(Kbig, idx); // mirrored kernels work by position in the range
            DenseMatrix Dm = v8::restrict_square(Dbig, idx);
            DimensionReductionMethod m = method == "npe"     ? NeighborhoodPreservingEmbedding
                                         : method == "lltsa" ? LinearLocalTangentSpaceAlignment
                                                             : LocalityPreservingProjections;
            // mirrored neighbour search and oracle values first
            std::srand(seed);
            tapkee::verif_shuffle_generator().seed(seed);
            Neighbors nb;
            try
            {
                if (method == "lpp")
                {
                    PlainDistance<Idx::iterator, v8::matrix_distance_callback> pd(dcb);
                    nb = find_neighbors(nm, idx.begin(), idx.end(), pd, k, cc);
                }
                else
                {
                    KernelDistance<Idx::iterator, v8::matrix_kernel_callback> kd(kcb);
                    nb = find_neighbors(nm, idx.begin(), idx.end(), kd, k, cc);
                }
            }
            catch (const std::exception& e)
            {
            }
            out << "ok=1 nb=" << v8::show_neighbors(nb) << " uniform=" << (nb.empty() || v8::uniform(nb) ? 1 : 0);
            if (!nb.empty() && v8::uniform(nb))
            {
                if (method == "npe")
                    v8::print_lle_oracles(out, K, nb, tshift);
                else if (method == "lltsa")
                    v8::print_eig_oracles(out, K, nb, d);
                else
                    out << " heat=" << show_matrix(v8::mirror_heats(Dm, nb, width));
            }
            run_result r = run_embed(m, idx, kcb, dcb, Xt, k, d, nm, cc, seed, shift, tshift, width);
            if (r.threw)
                out << " threw=" << r.what;
            else
            {
                out << " threw=- calls=" << r.o.calls << " skip=" << r.o.skip << " smallest=" << r.o.smallest
                    << " gen=" << r.o.generalized << " td=" << r.o.target_dimension << " lhs=" << show_matrix(r.o.lhs)
                    << " rhs=" << show_matrix(r.o.rhs) << " vals=" << show_vector(r.o.values)
                    << " vecs=" << show_matrix(r.o.vectors) << " P=" << show_matrix(r.P) << " mean=" << show_vector(r.mean)
                    << " Y=" << show_matrix(r.Y);
                // mirrored: all generalised eigenvalues of the pair as the solver sees it (for the gap at the d-boundary)
                Eigen::GeneralizedSelfAdjointEigenSolver<DenseMatrix> ges(r.o.lhs, r.o.rhs);
                if (ges.info() == Eigen::Success)
                    out << " allvals=" << show_vector(ges.eigenvalues());
                else
                    out << " allvals=-";
            }
            if (f.count("feat2") && !r.threw)
            {
                DenseMatrix F2 = v8::parse_matrix(f["feat2"]);
                DenseMatrix Xt2 = F2.transpose();
                run_result r2 = run_embed(m, idx, kcb, dcb, Xt2, k, d, nm, cc, seed, shift, tshift, width);
                if (r2.threw)
                    out << " threw2=" << r2.what;
                else
                    out << " threw2=- P2=" << show_matrix(r2.P) << " Y2=" << show_matrix(r2.Y);
            }
        }
        else
            out << "bad-op";
        std::cout << out.str() << std::endl;
    }
    return 0;
}
