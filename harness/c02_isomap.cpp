// C02 / C03 end-to-end leg: Isomap through the PUBLIC API (tapkee::with(..).withDistance(..).embedRange) with
// num_neighbors / neighbors_method / check_connectivity, observed at the eigensolver hook (TAPKEE_VERIF,
// verif_eigen_observer): the matrix Isomap hands to the eigensolver is a function of the neighbourhood graph only,
// so on tie-free data it must be bit-identical for Brute, VpTree and CoverTree.
// in : iso k=3 check=0|1 cb=plain metric=L1|Linf pts=.. [vs=..]
// out: brute=<obs> vptree=<obs> covertree=<obs> same=<0|1>
//      obs = ok:<n>x<n>:<64-bit FNV-1a of the matrix bytes>:<finite 0|1>  |  throw:<exception name>
#include "knn_common.hpp"

#include <tapkee/tapkee.hpp>

using namespace tapkee;

static std::string g_obs;

static void observer(const DenseMatrix& lhs, const DenseMatrix&, const tapkee_internal::EigendecompositionResult&,
                     IndexType, unsigned int, bool, bool)
{
    uint64_t h = 1469598103934665603ULL;
    bool finite = true;
    for (IndexType i = 0; i < lhs.rows(); i++)
        for (IndexType j = 0; j < lhs.cols(); j++)
        {
            double v = lhs(i, j);
            if (!std::isfinite(v))
                finite = false;
            unsigned char b[sizeof(double)];
            std::memcpy(b, &v, sizeof(double));
            for (unsigned char c : b)
            {
                h ^= c;
                h *= 1099511628211ULL;
            }
        }
    char buf[96];
    snprintf(buf, sizeof buf, "ok:%dx%d:%016llx:%d", (int)lhs.rows(), (int)lhs.cols(), (unsigned long long)h, finite ? 1 : 0);
    g_obs = buf;
}

static std::string run(const NeighborsMethod& nm, std::vector<int>& data, const vk::Space& sp, int k, bool check)
{
    g_obs = "no-eigenproblem";
    vk::stream().pos = 0;
    try
    {
        TapkeeOutput out = tapkee::with((method = Isomap, target_dimension = 2, num_neighbors = k, neighbors_method = nm,
                                         check_connectivity = check, eigen_method = Dense))
                               .withDistance(vk::DistCb{&sp})
                               .embedRange(data.begin(), data.end());
        (void)out;
    }
    catch (const std::exception& e)
    {
        std::string what = e.what();
        for (auto& c : what)
            if (c == ' ')
                c = '_';
        return "throw:" + what.substr(0, 60) + (g_obs.rfind("ok:", 0) == 0 ? "@" + g_obs : "");
    }
    return g_obs;
}

int main()
{
    Logging::instance().disable_warning();
    tapkee_internal::verif_eigen_observer::get() = observer;
    std::string line;
    while (std::getline(std::cin, line))
    {
        if (line.empty())
            continue;
        vh::case_alarm(60);
        auto f = vh::fields(line);
        vk::Space sp = vk::parse_space(f);
        std::vector<int> data = sp.range(); // identity, or the elements given by rng=
        int k = std::stoi(f["k"]);
        bool check = f.count("check") && f["check"] == "1";
        std::string a = run(Brute, data, sp, k, check);
        std::string b = run(VpTree, data, sp, k, check);
        std::string c = run(CoverTree, data, sp, k, check);
        std::cout << "brute=" << a << " vptree=" << b << " covertree=" << c << " same=" << ((a == b && b == c) ? 1 : 0)
                  << sp.foreign_suffix() << std::endl;
    }
    return 0;
}
