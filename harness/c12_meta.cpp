// C12 metamorphic harness: ONE public-API embed call (or one internal stage call) per input line, all in one
// process, so that a sequence of lines is a *history* (static / singleton state survives from line to line) and
// the same line fed to a fresh process is the history-free reference.
//
//   emb m=<method> nm=brute|vptree|covertree em=dense|randomized k=5 d=2 conn=1 w=<num> ts=3 ratio=<num>
//       metric=euclid|l1 sh=<e> X=x,y,z;x,y,z;...  [seed=<n>] [log=<bits>] [obs=0]
//         X: integer coordinates, one `;`-separated group per sample, scaled by 2^-sh (exact dyadic data)
//         seed: std::srand(seed) and verif_shuffle_generator().seed(seed) right before the call (both members of a
//               metamorphic pair get the same seed = same generator history; in the history differential only
//               randomised methods are seeded, a deterministic observed call never is)
//         log : bit 0 info, bit 1 debug, bit 2 benchmark, bit 3 warning OFF  (mutates the Logging singleton)
//       -> ok Y=<row;row;..> pre=<row;row;..> rhs=<..|-> ev=<full spectrum of the observed problem> sel=<selected>
//          skip=<s> gen=<0|1> nobs=<eigen calls seen> | exc:<class>
//   knn nm=.. k=.. sh=.. X=..      -> tapkee_internal::find_neighbors: per sample the sorted neighbour distances
//   conn nb=1,2;0,2;0,1           -> tapkee_internal::is_connected on the given neighbour lists      -> 1 | 0
//   center n=4 A=a,b,..;..  sh=e   -> tapkee_internal::centerMatrix                                    -> rows
//   trip n=4 T=i:j:v,i:j:v,...     -> tapkee_internal::sparse_matrix_from_triplets (dense rows)        -> rows
//
// Doubles are printed as exact dyadics (vh::num); nothing is rounded for printing.
#include <tapkee/tapkee.hpp>

#include <tapkee/utils/matrix.hpp>
#include <tapkee/utils/sparse.hpp>

#include "vcommon.hpp"

using namespace tapkee;

// ---- callbacks: linear kernel, Euclidean (or L1) distance, feature access over a D x N matrix
namespace c12
{
struct kernel_cb
{
    const DenseMatrix* X;
    inline ScalarType kernel(IndexType a, IndexType b) const
    {
        return X->col(a).dot(X->col(b));
    }
};
struct distance_cb
{
    const DenseMatrix* X;
    int metric; // 0 euclid (as eigen_distance_callback), 1 L1
    inline ScalarType distance(IndexType a, IndexType b) const
    {
        if (metric == 1)
            return (X->col(a) - X->col(b)).lpNorm<1>();
        return (X->col(a) - X->col(b)).norm();
    }
};
struct features_cb
{
    const DenseMatrix* X;
    inline IndexType dimension() const
    {
        return static_cast<IndexType>(X->rows());
    }
    inline void vector(IndexType i, DenseVector& v) const
    {
        v = X->col(i);
    }
};
typedef std::vector<IndexType>::iterator It;
} // namespace c12

namespace
{
using c12::distance_cb;
using c12::features_cb;
using c12::kernel_cb;

struct null_logger : public LoggerImplementation
{
    long n = 0;
    void message_info(const std::string&) override { n++; }
    void message_warning(const std::string&) override { n++; }
    void message_debug(const std::string&) override { n++; }
    void message_error(const std::string&) override { n++; }
    void message_benchmark(const std::string&) override { n++; }
};

std::string show(const DenseMatrix& M)
{
    if (M.rows() == 0 || M.cols() == 0)
        return "-";
    std::string out;
    for (Eigen::Index i = 0; i < M.rows(); i++)
    {
        if (i)
            out += ";";
        for (Eigen::Index j = 0; j < M.cols(); j++)
        {
            if (j)
                out += ",";
            out += vh::num(M(i, j));
        }
    }
    return out;
}

std::string show(const DenseVector& v)
{
    if (v.size() == 0)
        return "-";
    std::string out;
    for (Eigen::Index i = 0; i < v.size(); i++)
    {
        if (i)
            out += ",";
        out += vh::num(v(i));
    }
    return out;
}

struct Observation
{
    int n = 0;
    DenseMatrix lhs, rhs;
    DenseVector selected;
    unsigned int skip = 0;
    bool smallest = false, generalized = false;
    IndexType td = 0;
} g_obs;

void observer(const DenseMatrix& lhs, const DenseMatrix& rhs, const tapkee_internal::EigendecompositionResult& result,
              IndexType target_dimension, unsigned int skip, bool smallest, bool generalized)
{
    g_obs.n++;
    g_obs.lhs = lhs;
    g_obs.rhs = rhs;
    g_obs.selected = result.second;
    g_obs.skip = skip;
    g_obs.smallest = smallest;
    g_obs.generalized = generalized;
    g_obs.td = target_dimension;
}

const DimensionReductionMethod* method_of(const std::string& m)
{
    static const std::map<std::string, const DimensionReductionMethod*> table = {
        {"klle", &KernelLocallyLinearEmbedding},
        {"npe", &NeighborhoodPreservingEmbedding},
        {"kltsa", &KernelLocalTangentSpaceAlignment},
        {"lltsa", &LinearLocalTangentSpaceAlignment},
        {"hlle", &HessianLocallyLinearEmbedding},
        {"le", &LaplacianEigenmaps},
        {"lpp", &LocalityPreservingProjections},
        {"dm", &DiffusionMap},
        {"isomap", &Isomap},
        {"lisomap", &LandmarkIsomap},
        {"mds", &MultidimensionalScaling},
        {"lmds", &LandmarkMultidimensionalScaling},
        {"spe", &StochasticProximityEmbedding},
        {"kpca", &KernelPrincipalComponentAnalysis},
        {"pca", &PrincipalComponentAnalysis},
        {"rp", &RandomProjection},
        {"fa", &FactorAnalysis},
        {"tsne", &tDistributedStochasticNeighborEmbedding},
        {"ms", &ManifoldSculpting},
        {"passthru", &PassThru},
    };
    auto it = table.find(m);
    return it == table.end() ? nullptr : it->second;
}

// full spectrum of the problem the method handed to the solver (diagnostic used to CLASSIFY a case as
// well-/ill-conditioned; never compared with implementation output)
DenseVector spectrum(const Observation& o)
{
    if (o.lhs.rows() == 0 || o.lhs.rows() != o.lhs.cols() || !o.lhs.allFinite())
        return DenseVector();
    if (o.generalized)
    {
        if (o.rhs.rows() != o.lhs.rows() || !o.rhs.allFinite())
            return DenseVector();
        Eigen::GeneralizedSelfAdjointEigenSolver<DenseMatrix> s(o.lhs, o.rhs, Eigen::EigenvaluesOnly);
        if (s.info() != Eigen::Success)
            return DenseVector();
        return s.eigenvalues();
    }
    DenseMatrix sym = (o.lhs + o.lhs.transpose()) / 2.0;
    Eigen::SelfAdjointEigenSolver<DenseMatrix> s(sym, Eigen::EigenvaluesOnly);
    if (s.info() != Eigen::Success)
        return DenseVector();
    return s.eigenvalues();
}

DenseMatrix parse_points(const std::string& xs, int sh)
{
    auto rows = vh::split(xs, ';');
    std::vector<std::vector<long>> pts;
    for (auto& r : rows)
        pts.push_back(vh::parse_ints(r));
    size_t N = pts.size(), D = N ? pts[0].size() : 0;
    DenseMatrix X(D, N);
    for (size_t i = 0; i < N; i++)
    {
        if (pts[i].size() != D)
            throw std::runtime_error("ragged X");
        for (size_t j = 0; j < D; j++)
            X(j, i) = std::ldexp((double)pts[i][j], -sh);
    }
    return X;
}

std::string do_embed(std::map<std::string, std::string>& f)
{
    const DimensionReductionMethod* m = method_of(f["m"]);
    if (!m)
        return "bad-method";
    int sh = f.count("sh") ? std::stoi(f["sh"]) : 0;
    DenseMatrix X = parse_points(f["X"], sh);
    IndexType N = X.cols();
    std::vector<IndexType> idx(N);
    for (IndexType i = 0; i < N; i++)
        idx[i] = i;

    NeighborsMethod nm = Brute;
    if (f["nm"] == "vptree")
        nm = VpTree;
    else if (f["nm"] == "covertree")
        nm = CoverTree;
    EigenMethod em = Dense;
    if (f["em"] == "randomized")
        em = Randomized;

    if (f.count("log"))
    {
        int bits = std::stoi(f["log"]);
        Logging& L = Logging::instance();
        (bits & 1) ? L.enable_info() : L.disable_info();
        (bits & 2) ? L.enable_debug() : L.disable_debug();
        (bits & 4) ? L.enable_benchmark() : L.disable_benchmark();
        (bits & 8) ? L.disable_warning() : L.enable_warning();
    }
    if (f.count("seed"))
    {
        unsigned s = (unsigned)std::stoul(f["seed"]);
        std::srand(s);
        verif_shuffle_generator().seed(s);
    }

    kernel_cb kcb{&X};
    distance_cb dcb{&X, f["metric"] == "l1" ? 1 : 0};
    features_cb fcb{&X};

    ParametersSet params =
        (method = *m, neighbors_method = nm, eigen_method = em,
         num_neighbors = (IndexType)std::stoi(f.count("k") ? f["k"] : "5"),
         target_dimension = (IndexType)std::stoi(f.count("d") ? f["d"] : "2"),
         check_connectivity = (f.count("conn") ? f["conn"] == "1" : true),
         gaussian_kernel_width = (ScalarType)(f.count("w") ? vh::parse_num(f["w"]) : 1.0),
         diffusion_map_timesteps = (IndexType)std::stoi(f.count("ts") ? f["ts"] : "3"),
         landmark_ratio = (ScalarType)(f.count("ratio") ? vh::parse_num(f["ratio"]) : 0.5),
         max_iteration = (IndexType)std::stoi(f.count("it") ? f["it"] : "20"),
         sne_perplexity = (ScalarType)(f.count("perp") ? vh::parse_num(f["perp"]) : 2.0),
         sne_theta = (ScalarType)(f.count("theta") ? vh::parse_num(f["theta"]) : 0.0));

    bool observe = !(f.count("obs") && f["obs"] == "0");
    g_obs = Observation();
    tapkee_internal::verif_eigen_observer::get() = observe ? observer : nullptr;

    TapkeeOutput out;
    try
    {
        out = tapkee::embed(idx.begin(), idx.end(), kcb, dcb, fcb, params);
    }
    catch (const no_data_error&) { return "exc:no_data_error"; }
    catch (const unsupported_method_error&) { return "exc:unsupported_method_error"; }
    catch (const not_enough_memory_error&) { return "exc:not_enough_memory_error"; }
    catch (const cancelled_exception&) { return "exc:cancelled_exception"; }
    catch (const eigendecomposition_error&) { return "exc:eigendecomposition_error"; }
    catch (const missed_parameter_error&) { return "exc:missed_parameter_error"; }
    catch (const wrong_parameter_error&) { return "exc:wrong_parameter_error"; }
    catch (const wrong_parameter_type_error&) { return "exc:wrong_parameter_type_error"; }
    catch (const multiple_parameter_error&) { return "exc:multiple_parameter_error"; }
    catch (const std::exception& e) { return std::string("exc:std:") + typeid(e).name(); }

    std::string s = "ok Y=" + show(out.embedding);
    if (observe)
    {
        s += " pre=" + show(g_obs.lhs) + " rhs=" + show(g_obs.rhs) + " ev=" + show(spectrum(g_obs)) +
             " sel=" + show(g_obs.selected) + " skip=" + std::to_string(g_obs.skip) +
             " gen=" + std::to_string((int)g_obs.generalized) + " nobs=" + std::to_string(g_obs.n);
    }
    return s;
}

// the neighbour search alone (internal entry point tapkee_internal::find_neighbors, check_connectivity off):
// per sample the ascending list of the distances to its returned neighbours — determined by the pairwise distances
// alone (also under ties), hence permutation-equivariant, rigid-motion invariant, scale covariant and the same for
// all three search methods
std::string do_knn(std::map<std::string, std::string>& f)
{
    int sh = f.count("sh") ? std::stoi(f["sh"]) : 0;
    DenseMatrix X = parse_points(f["X"], sh);
    IndexType N = X.cols();
    std::vector<IndexType> idx(N);
    for (IndexType i = 0; i < N; i++)
        idx[i] = i;
    NeighborsMethod nm = Brute;
    if (f["nm"] == "vptree")
        nm = VpTree;
    else if (f["nm"] == "covertree")
        nm = CoverTree;
    if (f.count("seed"))
        std::srand((unsigned)std::stoul(f["seed"]));
    distance_cb dcb{&X, f["metric"] == "l1" ? 1 : 0};
    typedef std::vector<IndexType>::iterator It;
    tapkee_internal::PlainDistance<It, distance_cb> pd(dcb);
    tapkee_internal::Neighbors nb =
        tapkee_internal::find_neighbors(nm, idx.begin(), idx.end(), pd, (IndexType)std::stoi(f["k"]), false);
    std::string out;
    for (size_t i = 0; i < nb.size(); i++)
    {
        std::vector<double> ds;
        for (auto j : nb[i])
            ds.push_back(dcb.distance((IndexType)i, j));
        std::sort(ds.begin(), ds.end());
        if (i)
            out += ";";
        for (size_t t = 0; t < ds.size(); t++)
            out += (t ? "," : "") + vh::num(ds[t]);
    }
    return out;
}

std::string do_conn(std::map<std::string, std::string>& f)
{
    tapkee_internal::Neighbors nb;
    for (auto& r : vh::split(f["nb"], ';', true))
    {
        tapkee_internal::LocalNeighbors l;
        for (long v : vh::parse_ints(r))
            l.push_back((IndexType)v);
        nb.push_back(l);
    }
    std::vector<IndexType> idx(nb.size());
    for (size_t i = 0; i < idx.size(); i++)
        idx[i] = i;
    return tapkee_internal::is_connected(idx.begin(), idx.end(), nb) ? "1" : "0";
}

DenseMatrix parse_matrix(const std::string& s, int sh)
{
    auto rows = vh::split(s, ';');
    std::vector<std::vector<long>> v;
    for (auto& r : rows)
        v.push_back(vh::parse_ints(r));
    DenseMatrix A(v.size(), v.empty() ? 0 : v[0].size());
    for (size_t i = 0; i < v.size(); i++)
        for (size_t j = 0; j < v[i].size(); j++)
            A(i, j) = std::ldexp((double)v[i][j], -sh);
    return A;
}

std::string do_center(std::map<std::string, std::string>& f)
{
    DenseMatrix A = parse_matrix(f["A"], f.count("sh") ? std::stoi(f["sh"]) : 0);
    tapkee_internal::centerMatrix(A);
    return show(A);
}

std::string do_trip(std::map<std::string, std::string>& f)
{
    IndexType n = std::stoi(f["n"]);
    tapkee_internal::SparseTriplets ts;
    for (auto& t : vh::split(f["T"], ','))
    {
        auto p = vh::split(t, ':');
        ts.push_back(tapkee_internal::SparseTriplet(std::stoi(p[0]), std::stoi(p[1]), (double)std::stol(p[2])));
    }
    SparseMatrix S = tapkee_internal::sparse_matrix_from_triplets(ts, n, n);
    return show(DenseMatrix(S));
}
} // namespace

int main()
{
    Logging::instance().set_logger_impl(new null_logger);
    std::string line;
    while (std::getline(std::cin, line))
    {
        if (line.empty())
            continue;
        auto f = vh::fields(line);
        std::string out;
        vh::case_alarm(40); // a hang is an observation (`abort:` for this line), not a stuck check
        try
        {
            if (line.rfind("emb ", 0) == 0)
                out = do_embed(f);
            else if (line.rfind("knn ", 0) == 0)
                out = do_knn(f);
            else if (line.rfind("conn ", 0) == 0)
                out = do_conn(f);
            else if (line.rfind("center ", 0) == 0)
                out = do_center(f);
            else if (line.rfind("trip ", 0) == 0)
                out = do_trip(f);
            else
                out = "bad-case";
        }
        catch (const std::exception& e)
        {
            out = std::string("harness-error:") + e.what();
        }
        vh::case_alarm(0);
        std::cout << out << std::endl;
    }
    return 0;
}
