// C09 correspondence harness: the real compute_laplacian / compute_diffusion_matrix and the public API for
// Laplacian Eigenmaps and Diffusion Map (eigen-observer hook).  exp / sqrt values are mirrored so that the Lean
// driver can cross-check them against its own evaluation (DESIGN §3).
//
// in : op=lap   N= k= width= nb=<lists> dist=<NxN>
//      op=dm    N= width= dist=<NxN>
//      op=embed method=le|dm N= k= d= t= width= nm= cc= seed= dist=<NxN>
// out: one line of key=value tokens
#include "v0810.hpp"

#include <tapkee/routines/diffusion_maps.hpp>
#include <tapkee/routines/laplacian_eigenmaps.hpp>

using namespace tapkee;
using namespace tapkee::tapkee_internal;
using v8::show_matrix;
using v8::show_vector;
using v8::mirror_heats;
using v8::uniform;

typedef std::vector<IndexType> Idx;

int main()
{
    std::string line;
    while (std::getline(std::cin, line))
    {
        if (line.empty())
            continue;
        vh::case_alarm(120);
        auto f = vh::fields(line);
        const std::string op = f["op"];
        const IndexType N = std::stoi(f["N"]);
        DenseMatrix Dbig = v8::parse_matrix(f["dist"]);
        v8::matrix_distance_callback dcb{&Dbig};
        ScalarType width = vh::parse_num(f["width"]);
        Idx idx = v8::parse_range(f, N);
        DenseMatrix Dm = v8::restrict_square(Dbig, idx); // mirrored exp values work by position in the range
        std::ostringstream out;
        std::cerr << "case " << op << " N=" << N << " k=" << f["k"] << " d=" << f["d"] << " " << f["method"] << "\n";
#ifndef V8_NO_ROUTINES
        if (op == "lap")
        {
            Neighbors nb = v8::parse_neighbors(f["nb"]);
            out << "ok=1 heat=" << show_matrix(mirror_heats(Dm, nb, width));
            Laplacian lap = compute_laplacian(idx.begin(), idx.end(), nb, dcb, width);
            out << " nnz=" << lap.first.nonZeros() << " L=" << show_matrix(DenseMatrix(lap.first))
                << " D=" << show_vector(lap.second.diagonal());
        }
        else if (op == "dm")
        {
            DenseMatrix T = compute_diffusion_matrix(idx.begin(), idx.end(), dcb, width);
            out << "ok=1 T=" << show_matrix(T);
        }
        else
#else
        if (op == "lap" || op == "dm")
            out << "unavailable=1";
        else
#endif
        if (op == "embed")
        {
            const std::string method = f["method"];
            IndexType k = std::stoi(f["k"]), d = std::stoi(f["d"]), t = std::stoi(f["t"]);
            bool cc = f["cc"] == "1";
            unsigned seed = (unsigned)std::stoul(f["seed"]);
            NeighborsMethod nm = v8::neighbors_method_of(f["nm"]);
            out << "ok=1";
            if (method == "le")
            {
                std::srand(seed);
                tapkee::verif_shuffle_generator().seed(seed);
                PlainDistance<Idx::iterator, v8::matrix_distance_callback> pd(dcb);
                Neighbors nb;
                try
                {
                    nb = find_neighbors(nm, idx.begin(), idx.end(), pd, k, cc);
                }
                catch (const std::exception& e)
                {
                }
                out << " nb=" << v8::show_neighbors(nb) << " uniform=" << (nb.empty() || uniform(nb) ? 1 : 0);
                if (!nb.empty() && uniform(nb))
                    out << " heat=" << show_matrix(mirror_heats(Dm, nb, width));
            }
            std::srand(seed);
            tapkee::verif_shuffle_generator().seed(seed);
            v8::install_observer();
            try
            {
                TapkeeOutput res = tapkee::embed(
                    idx.begin(), idx.end(), dummy_kernel_callback<IndexType>(), dcb, dummy_features_callback<IndexType>(),
                    (tapkee::method = (method == "le" ? LaplacianEigenmaps : DiffusionMap), tapkee::target_dimension = d,
                     tapkee::num_neighbors = k, tapkee::neighbors_method = nm, tapkee::gaussian_kernel_width = width,
                     tapkee::diffusion_map_timesteps = t, tapkee::check_connectivity = cc, tapkee::eigen_method = Dense));
                v8::observed& o = v8::obs();
                out << " threw=- calls=" << o.calls << " skip=" << o.skip << " smallest=" << o.smallest
                    << " gen=" << o.generalized << " td=" << o.target_dimension << " lhs=" << show_matrix(o.lhs);
                if (o.generalized)
                    out << " rhs=" << show_vector(o.rhs.diagonal()) << " rhsoff="
                        << vh::num((o.rhs - DenseMatrix(o.rhs.diagonal().asDiagonal())).cwiseAbs().maxCoeff());
                out << " vals=" << show_vector(o.values) << " vecs=" << show_matrix(o.vectors)
                    << " Y=" << show_matrix(res.embedding);
            }
            catch (const std::exception& e)
            {
                std::string w = e.what();
                for (auto& c : w)
                    if (c == ' ' || c == '=')
                        c = '_';
                out << " threw=" << w;
            }
        }
        else
            out << "bad-op";
        std::cout << out.str() << std::endl;
    }
    return 0;
}
