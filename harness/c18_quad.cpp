// C18 correspondence harness: drives the real tsne::QuadTree through its PUBLIC interface only.
// in : quad root=def|x,y,hw,hh pts=x,y;x,y;... th=t0,t1,... q=i0,i1,...
// out: corr=1 idx=0,1,2 depth=3 | f=i@k:nx,ny,sq;...
//   root=def  -> QuadTree(data, N)                       (mean / max deviation + 1e-5 root cell)
//   root=x,.. -> QuadTree(data, N, x, y, hw, hh)         (explicit root cell)
// idx = getAllIndices() into a buffer of exactly N ints pre-set to -1 (an overrun is an ASan observation), sorted.
#include <tapkee/defines.hpp>
#include <tapkee/external/barnes_hut_sne/quadtree.hpp>

#include <algorithm>
#include <memory>

#include "vcommon.hpp"

using tapkee::ScalarType;

int main()
{
    std::string line;
    while (std::getline(std::cin, line))
    {
        if (line.empty())
            continue;
        vh::case_alarm(20); // per-case watchdog: a hang is the observation abort:timeout
        auto f = vh::fields(line);
        std::vector<double> data;
        for (auto& p : vh::split(f["pts"], ';'))
        {
            auto xy = vh::parse_nums(p);
            data.push_back(xy.at(0));
            data.push_back(xy.at(1));
        }
        int N = (int)(data.size() / 2);
        std::vector<double> ths = vh::parse_nums(f["th"]);
        std::vector<long> qs = vh::parse_ints(f["q"]);
        std::cerr << "case N=" << N << "\n";

        std::unique_ptr<tsne::QuadTree> tree;
        if (f["root"] == "def")
            tree.reset(new tsne::QuadTree(data.data(), N));
        else
        {
            auto r = vh::parse_nums(f["root"]);
            tree.reset(new tsne::QuadTree(data.data(), N, r.at(0), r.at(1), r.at(2), r.at(3)));
        }
        std::ostringstream out;
        out << "corr=" << (tree->isCorrect() ? 1 : 0);
        {
            std::unique_ptr<int[]> buf(new int[N]);
            for (int i = 0; i < N; i++)
                buf[i] = -1;
            tree->getAllIndices(buf.get());
            std::vector<int> idx;
            for (int i = 0; i < N; i++)
                if (buf[i] != -1)
                    idx.push_back(buf[i]);
            std::sort(idx.begin(), idx.end());
            out << " idx=";
            for (size_t i = 0; i < idx.size(); i++)
                out << (i ? "," : "") << idx[i];
        }
        out << " depth=" << tree->getDepth();
        out << " | f=";
        bool first = true;
        for (long q : qs)
        {
            for (size_t k = 0; k < ths.size(); k++)
            {
                ScalarType neg_f[2] = {0.0, 0.0};
                ScalarType sum_Q = 0.0;
                tree->computeNonEdgeForces((int)q, ths[k], neg_f, &sum_Q);
                out << (first ? "" : ";") << q << "@" << k << ":" << vh::num(neg_f[0]) << "," << vh::num(neg_f[1]) << ","
                    << vh::num(sum_Q);
                first = false;
            }
        }
        std::cout << out.str() << std::endl;
    }
    return 0;
}
