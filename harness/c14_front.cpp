// C14 correspondence harness: the real tapkee::embed on generated requests, with counting callbacks.
// in : front N=10 cbs=kd stop=1 kw=method:meth:Isomap,num_neighbors:int:3,landmark_ratio:real:3/10
// out: throw tapkee::wrong_parameter_error k=0 d=0 f=0 | echo=<ident>=<repr>;... # raw=<k>,<d>,<f>
//      (`ok …`, `reached distance …`; `cbs` must equal the subset this binary was compiled for, -DCB_MASK)
// Built WITHOUT -fopenmp: callbacks may throw (stop mode, dummy callbacks) and an exception must be able to
// leave the library's parallel regions.
#include <tapkee/tapkee.hpp>
#include <tapkee/callbacks/dummy_callbacks.hpp>

#include <unistd.h>

#include "front_tables.inc"
#include "vcommon.hpp"

#ifndef CB_MASK
#define CB_MASK 7 // bit 0 kernel, bit 1 distance, bit 2 features are real callbacks; the others are dummies
#endif

using namespace tapkee;

static struct
{
    long k = 0, d = 0, f = 0;
    bool stop = false;
} g;

struct reached
{
    const char* which;
};

struct counting_kernel
{
    const DenseMatrix* X;
    ScalarType kernel(IndexType a, IndexType b) const
    {
        if (g.stop)
            throw reached{"kernel"};
        g.k++;
        return X->col(a).dot(X->col(b));
    }
};
struct counting_distance
{
    const DenseMatrix* X;
    ScalarType distance(IndexType a, IndexType b) const
    {
        if (g.stop)
            throw reached{"distance"};
        g.d++;
        return (X->col(a) - X->col(b)).norm();
    }
};
struct counting_features
{
    const DenseMatrix* X;
    IndexType dimension() const
    {
        return static_cast<IndexType>(X->rows());
    }
    void vector(IndexType i, DenseVector& v) const
    {
        g.f++;
        v = X->col(i);
    }
};

// debug-level echo of the merged parameter set
static std::vector<std::pair<std::string, std::string>> g_echo;
struct capture_logger : public LoggerImplementation
{
    void message_info(const std::string&) override {}
    void message_warning(const std::string&) override {}
    void message_error(const std::string&) override {}
    void message_benchmark(const std::string&) override {}
    void message_debug(const std::string& msg) override
    {
        const std::string head = "Parameter ";
        if (msg.compare(0, head.size(), head) != 0)
            return;
        auto eq = msg.find(" = [");
        if (eq == std::string::npos || msg.back() != ']')
            return;
        g_echo.emplace_back(msg.substr(head.size(), eq - head.size()), msg.substr(eq + 4, msg.size() - eq - 5));
    }
};

static bool cancel_true()
{
    return true;
}
static bool cancel_false()
{
    return false;
}
static void progress_fn(double)
{
}

static std::string keyword_name(const std::string& ident)
{
#define X(k, ty)                                                                                                       \
    if (ident == #k)                                                                                                   \
        return std::string(tapkee::k);
    VERIF_KEYWORDS(X)
#undef X
    throw std::runtime_error("unknown keyword " + ident);
}

static std::string keyword_ident(const std::string& name)
{
#define X(k, ty)                                                                                                       \
    if (name == std::string(tapkee::k))                                                                                \
        return #k;
    VERIF_KEYWORDS(X)
#undef X
    return "?" + name;
}

static stichwort::Parameter make_param(const std::string& item)
{
    auto c1 = item.find(':');
    auto c2 = item.find(':', c1 + 1);
    std::string ident = item.substr(0, c1), ty = item.substr(c1 + 1, c2 - c1 - 1), v = item.substr(c2 + 1);
    std::string name = keyword_name(ident);
    using stichwort::Parameter;
    if (ty == "default")
    {
#define X(k, t)                                                                                                        \
    if (ident == #k)                                                                                                   \
        return (tapkee::k = stichwort::by_default);
        VERIF_KEYWORDS(X)
#undef X
    }
    if (ty == "int")
        return Parameter::create(name, static_cast<IndexType>(std::stol(v)));
    if (ty == "real")
        return Parameter::create(name, static_cast<ScalarType>(vh::parse_num(v)));
    if (ty == "bool")
        return Parameter::create(name, v == "1");
    if (ty == "meth")
    {
#define X(m)                                                                                                           \
    if (v == #m)                                                                                                       \
        return Parameter::create(name, DimensionReductionMethod(tapkee::m));
        VERIF_METHODS(X)
#undef X
    }
    if (ty == "nbrs")
    {
#define X(m)                                                                                                           \
    if (v == #m)                                                                                                       \
        return Parameter::create(name, NeighborsMethod(tapkee::m));
        VERIF_NEIGHBORS_METHODS(X)
#undef X
    }
    if (ty == "eig")
    {
#define X(m)                                                                                                           \
    if (v == #m)                                                                                                       \
        return Parameter::create(name, EigenMethod(tapkee::m));
        VERIF_EIGEN_METHODS(X)
#undef X
    }
    if (ty == "strat")
    {
#define X(m)                                                                                                           \
    if (v == #m)                                                                                                       \
        return Parameter::create(name, ComputationStrategy(tapkee::m));
        VERIF_STRATEGIES(X)
#undef X
    }
    if (ty == "cancel")
    {
        bool (*fn)() = v == "true" ? cancel_true : v == "false" ? cancel_false : nullptr;
        return Parameter::create(name, fn);
    }
    if (ty == "progress")
    {
        void (*fn)(double) = v == "fn" ? progress_fn : nullptr;
        return Parameter::create(name, fn);
    }
    if (ty == "other")
    {
        if (v == "long")
            return Parameter::create(name, 2L);
        if (v == "float")
            return Parameter::create(name, 0.5f);
        if (v == "uint")
            return Parameter::create(name, 2u);
        if (v == "cstr")
            return Parameter::create(name, static_cast<const char*>("x"));
    }
    throw std::runtime_error("bad item " + item);
}

template <bool real, class Real, class Dummy> struct pick
{
    static Real make(const DenseMatrix* X)
    {
        return Real{X};
    }
};
template <class Real, class Dummy> struct pick<false, Real, Dummy>
{
    static Dummy make(const DenseMatrix*)
    {
        return Dummy();
    }
};

int main()
{
    // keep the protocol channel clean: the library (t-SNE) prints to stdout
    int proto = dup(1);
    FILE* out = fdopen(proto, "w");
    if (!freopen("/dev/null", "w", stdout))
        return 3;
    Logging::instance().set_logger_impl(new capture_logger);
    Logging::instance().enable_debug();

    const std::string want_cbs = std::string((CB_MASK & 1) ? "k" : "") + ((CB_MASK & 2) ? "d" : "") + ((CB_MASK & 4) ? "f" : "");
    std::string line;
    while (std::getline(std::cin, line))
    {
        if (line.empty())
            continue;
        auto f = vh::fields(line);
        int N = std::stoi(f["N"]);
        std::string cbs = f.count("cbs") ? f["cbs"] : "";
        if (cbs == "-")
            cbs = "";
        if (cbs != want_cbs)
        {
            fprintf(out, "bad-cbs (binary is built for '%s')\n", want_cbs.c_str());
            fflush(out);
            continue;
        }
        const int D = 10;
        DenseMatrix X(D, N);
        unsigned s = 12345u;
        for (int j = 0; j < N; j++)
            for (int i = 0; i < D; i++)
            {
                s = s * 1103515245u + 12345u;
                X(i, j) = static_cast<double>((s >> 16) % 64) - 31.0 + (i == j % D ? 7.0 * (j + 1) : 0.0);
            }
        std::vector<IndexType> idx(N);
        for (int i = 0; i < N; i++)
            idx[i] = i;

        std::string outcome, what;
        g.k = g.d = g.f = 0;
        g.stop = f.count("stop") && f["stop"] == "1";
        g_echo.clear();
        std::srand(1);
        tapkee::verif_shuffle_generator().seed(5489u);
        try
        {
            std::vector<stichwort::Parameter> ps;
            for (auto& item : vh::split(f.count("kw") ? f["kw"] : "", ','))
                ps.push_back(make_param(item));
            // the keyword expression (p1, p2, ..., pn): Parameter::operator, then ParametersSet::operator,
            stichwort::ParametersSet set;
            if (ps.size() == 1)
                set = ps[0];
            else if (ps.size() >= 2)
            {
                set = (ps[0], ps[1]);
                for (size_t i = 2; i < ps.size(); i++)
                    (set, ps[i]);
            }
            auto kcb = pick<(CB_MASK & 1) != 0, counting_kernel, dummy_kernel_callback<IndexType>>::make(&X);
            auto dcb = pick<(CB_MASK & 2) != 0, counting_distance, dummy_distance_callback<IndexType>>::make(&X);
            auto fcb = pick<(CB_MASK & 4) != 0, counting_features, dummy_features_callback<IndexType>>::make(&X);
            TapkeeOutput result = tapkee::embed(idx.begin(), idx.end(), kcb, dcb, fcb, set);
            outcome = "ok";
        }
        catch (const reached& r)
        {
            outcome = std::string("reached ") + r.which;
        }
#define CATCH(ns, cls)                                                                                                 \
    catch (const ns::cls&)                                                                                             \
    {                                                                                                                  \
        outcome = "throw " #ns "::" #cls;                                                                              \
    }
        CATCH(tapkee, no_data_error)
        catch (const tapkee::unsupported_method_error& e)
        {
            outcome = "throw tapkee::unsupported_method_error";
            what = e.what();
        }
        CATCH(tapkee, not_enough_memory_error)
        CATCH(tapkee, cancelled_exception)
        CATCH(tapkee, eigendecomposition_error)
        CATCH(tapkee, missed_parameter_error)
        CATCH(tapkee, wrong_parameter_error)
        CATCH(tapkee, wrong_parameter_type_error)
        CATCH(tapkee, multiple_parameter_error)
        CATCH(stichwort, missed_parameter_error)
        CATCH(stichwort, wrong_parameter_error)
        CATCH(stichwort, wrong_parameter_type_error)
        CATCH(stichwort, multiple_parameter_error)
        CATCH(std, bad_alloc)
#undef CATCH
        catch (const std::exception& e)
        {
            std::string w = e.what();
            for (auto& c : w)
                if (c == ' ')
                    c = '_';
            outcome = "throw other:" + w;
        }
        std::ostringstream o;
        o << outcome << " k=" << (g.k ? "+" : "0") << " d=" << (g.d ? "+" : "0") << " f=" << (g.f ? "+" : "0") << " | echo=";
        if (g_echo.empty())
            o << "-";
        bool first = true;
        for (auto& kv : g_echo)
        {
            std::string v = kv.second;
            for (auto& c : v)
                if (c == ' ' || c == ';')
                    c = '_';
            o << (first ? "" : ";") << keyword_ident(kv.first) << "=" << v;
            first = false;
        }
        o << " # raw=" << g.k << "," << g.d << "," << g.f;
        if (!what.empty())
        {
            for (auto& c : what)
                if (c == ' ')
                    c = '_';
            o << " msg=" << what;
        }
        fprintf(out, "%s\n", o.str().c_str());
        fflush(out);
    }
    return 0;
}
