// C14 / C13 correspondence harness: the real tapkee::embed on generated requests, with counting callbacks.
// in : front N=10 [D=10] cbs=kd stop=1 kw=method:meth:Isomap,num_neighbors:int:3,landmark_ratio:real:3/10
//        [via=chain:dk]   the request goes through tapkee::with(kw).withDistance(..).withKernel(..).embedRange(..)
//                         (attachment order = the letters; must be a permutation of cbs) instead of tapkee::embed
//        [via=chainusing:dk]  the same chain ended by the state's embedUsing(container) overload
//        [emb=1]          append ` emb=<rows>x<cols>:<digest of the embedding bytes>` to the diagnostics
//        [throwcb=kd]     these (supplied) callbacks throw `undeclared` when invoked
// out: throw tapkee::wrong_parameter_error k=0 d=0 f=0 | echo=<ident>=<repr>;... | routes=k>k,d>d # raw=<k>,<d>,<f>
//      (`ok …`, `reached distance …`, `throw undeclared:distance …`; routes = slot>role of every callback
//       invocation seen; `cbs` must equal the subset this binary was compiled for, -DCB_MASK)
// Built WITHOUT -fopenmp: callbacks may throw (stop mode, dummy callbacks) and an exception must be able to
// leave the library's parallel regions.
#include <tapkee/tapkee.hpp>
#include <tapkee/callbacks/dummy_callbacks.hpp>
#include <tapkee/chain_interface.hpp>

#include <cstring>
#include <set>
#include <unistd.h>

#include "front_common.hpp"

#ifndef CB_MASK
#define CB_MASK 7 // bit 0 kernel, bit 1 distance, bit 2 features are real callbacks; the others are dummies
#endif

using namespace tapkee;

static struct
{
    long k = 0, d = 0, f = 0;
    bool stop = false;
    std::string throwing;
    std::set<std::string> routes;
} g;

struct reached
{
    const char* which;
};
struct undeclared
{
    const char* which;
};

// One callback type for all three roles: whatever slot the library stores it in, it answers, and it records
// in which slot (member function called) an object created for which role was used.
struct universal_callback
{
    const DenseMatrix* X;
    char role; // 'k', 'd' or 'f': what the harness attached it as
    void seen(char slot) const
    {
        g.routes.insert(std::string(1, slot) + ">" + std::string(1, role));
    }
    ScalarType kernel(IndexType a, IndexType b) const
    {
        seen('k');
        if (g.throwing.find('k') != std::string::npos)
            throw undeclared{"kernel"};
        if (g.stop)
            throw reached{"kernel"};
        g.k++;
        return X->col(a).dot(X->col(b));
    }
    ScalarType distance(IndexType a, IndexType b) const
    {
        seen('d');
        if (g.throwing.find('d') != std::string::npos)
            throw undeclared{"distance"};
        if (g.stop)
            throw reached{"distance"};
        g.d++;
        return (X->col(a) - X->col(b)).norm();
    }
    IndexType dimension() const
    {
        return static_cast<IndexType>(X->rows());
    }
    void vector(IndexType i, DenseVector& v) const
    {
        seen('f');
        if (g.throwing.find('f') != std::string::npos)
            throw undeclared{"features"};
        g.f++;
        if (v.size() != X->rows()) // the library must hand over a vector of size dimension(); a user callback may fill it element-wise
            throw std::logic_error("features callback was handed a vector of size " + std::to_string(v.size()));
        for (IndexType r = 0; r < X->rows(); ++r)
            v(r) = (*X)(r, i);
    }
};

// debug-level echo of the merged parameter set
static std::vector<std::pair<std::string, std::string>> g_echo;
struct capture_logger : public LoggerImplementation
{
    void message_info(const std::string&) override {}
    void message_warning(const std::string&) override {}
    void message_error(const std::string&) override {}
    void message_benchmark(const std::string&) override {}
    void message_debug(const std::string& msg) override
    {
        const std::string head = "Parameter ";
        if (msg.compare(0, head.size(), head) != 0)
            return;
        auto eq = msg.find(" = [");
        if (eq == std::string::npos || msg.back() != ']')
            return;
        g_echo.emplace_back(msg.substr(head.size(), eq - head.size()), msg.substr(eq + 4, msg.size() - eq - 5));
    }
};

typedef std::vector<IndexType>::iterator Iter;

// the chain interface, every attachment order of the subset this binary supplies
// FINISH: embedRange(begin, end) or the state's embedUsing(container) overload
#define FINISH(chain) (use_container ? (chain).embedUsing(container) : (chain).embedRange(b, e))
static TapkeeOutput via_chain(const std::string& order, const stichwort::ParametersSet& set, Iter b, Iter e,
                              const std::vector<IndexType>& container, bool use_container, const universal_callback& K,
                              const universal_callback& D, const universal_callback& F)
{
    (void)K;
    (void)D;
    (void)F;
    auto P = tapkee::with(set);
#if CB_MASK == 0
    if (order == "")
        throw std::runtime_error("the chain interface has no embedRange without callbacks");
#elif CB_MASK == 1
    if (order == "k")
        return FINISH(P.withKernel(K));
#elif CB_MASK == 2
    if (order == "d")
        return FINISH(P.withDistance(D));
#elif CB_MASK == 4
    if (order == "f")
        return FINISH(P.withFeatures(F));
#elif CB_MASK == 3
    if (order == "kd")
        return FINISH(P.withKernel(K).withDistance(D));
    if (order == "dk")
        return FINISH(P.withDistance(D).withKernel(K));
#elif CB_MASK == 5
    if (order == "kf")
        return FINISH(P.withKernel(K).withFeatures(F));
    if (order == "fk")
        return FINISH(P.withFeatures(F).withKernel(K));
#elif CB_MASK == 6
    if (order == "df")
        return FINISH(P.withDistance(D).withFeatures(F));
    if (order == "fd")
        return FINISH(P.withFeatures(F).withDistance(D));
#elif CB_MASK == 7
    if (order == "kdf")
        return FINISH(P.withKernel(K).withDistance(D).withFeatures(F));
    if (order == "kfd")
        return FINISH(P.withKernel(K).withFeatures(F).withDistance(D));
    if (order == "dkf")
        return FINISH(P.withDistance(D).withKernel(K).withFeatures(F));
    if (order == "dfk")
        return FINISH(P.withDistance(D).withFeatures(F).withKernel(K));
    if (order == "fkd")
        return FINISH(P.withFeatures(F).withKernel(K).withDistance(D));
    if (order == "fdk")
        return FINISH(P.withFeatures(F).withDistance(D).withKernel(K));
#endif
    throw std::runtime_error("attachment order '" + order + "' is not a permutation of this binary's callbacks");
}

template <bool real, class Dummy> struct pick
{
    static universal_callback make(const universal_callback& u)
    {
        return u;
    }
};
template <class Dummy> struct pick<false, Dummy>
{
    static Dummy make(const universal_callback&)
    {
        return Dummy();
    }
};

int main()
{
    // keep the protocol channel clean: the library (t-SNE) prints to stdout
    int proto = dup(1);
    FILE* out = fdopen(proto, "w");
    if (!freopen("/dev/null", "w", stdout))
        return 3;
    Logging::instance().set_logger_impl(new capture_logger);
    Logging::instance().enable_debug();

    const std::string want_cbs = std::string((CB_MASK & 1) ? "k" : "") + ((CB_MASK & 2) ? "d" : "") + ((CB_MASK & 4) ? "f" : "");
    std::string line;
    while (std::getline(std::cin, line))
    {
        if (line.empty())
            continue;
        vh::case_alarm(30); // a hang is an observation (`abort:timeout`), not a blocked run
        auto f = vh::fields(line);
        int N = std::stoi(f["N"]);
        std::string cbs = f.count("cbs") ? f["cbs"] : "";
        if (cbs == "-")
            cbs = "";
        if (cbs != want_cbs)
        {
            fprintf(out, "bad-cbs (binary is built for '%s')\n", want_cbs.c_str());
            fflush(out);
            continue;
        }
        const int D = f.count("D") ? std::stoi(f["D"]) : 10; // feature dimension (what features.dimension() reports)
        DenseMatrix X(D, N);
        unsigned s = 12345u;
        for (int j = 0; j < N; j++)
            for (int i = 0; i < D; i++)
            {
                s = s * 1103515245u + 12345u;
                X(i, j) = static_cast<double>((s >> 16) % 64) - 31.0 + (i == j % D ? 7.0 * (j + 1) : 0.0);
            }
        std::vector<IndexType> idx(N);
        for (int i = 0; i < N; i++)
            idx[i] = i;

        std::string outcome, what, emb;
        g.k = g.d = g.f = 0;
        g.stop = f.count("stop") && f["stop"] == "1";
        g.throwing = f.count("throwcb") ? f["throwcb"] : "";
        g.routes.clear();
        g_echo.clear();
        std::srand(1);
        tapkee::verif_shuffle_generator().seed(5489u);
        try
        {
            stichwort::ParametersSet set = vfront::make_set(f.count("kw") ? f["kw"] : "");
            universal_callback K{&X, 'k'}, Dc{&X, 'd'}, F{&X, 'f'};
            std::string via = f.count("via") ? f["via"] : "direct";
            TapkeeOutput result;
            if (via.compare(0, 6, "chain:") == 0)
                result = via_chain(via.substr(6), set, idx.begin(), idx.end(), idx, false, K, Dc, F);
            else if (via.compare(0, 11, "chainusing:") == 0)
                result = via_chain(via.substr(11), set, idx.begin(), idx.end(), idx, true, K, Dc, F);
            else
            {
                auto kcb = pick<(CB_MASK & 1) != 0, dummy_kernel_callback<IndexType>>::make(K);
                auto dcb = pick<(CB_MASK & 2) != 0, dummy_distance_callback<IndexType>>::make(Dc);
                auto fcb = pick<(CB_MASK & 4) != 0, dummy_features_callback<IndexType>>::make(F);
                result = tapkee::embed(idx.begin(), idx.end(), kcb, dcb, fcb, set);
            }
            outcome = "ok";
            if (f.count("emb") && f["emb"] == "1")
            {
                // shape and FNV-1a digest of the embedding's bytes (row-major)
                unsigned long long h = 1469598103934665603ULL;
                for (IndexType i = 0; i < result.embedding.rows(); i++)
                    for (IndexType j = 0; j < result.embedding.cols(); j++)
                    {
                        double x = result.embedding(i, j);
                        unsigned char bytes[sizeof x];
                        std::memcpy(bytes, &x, sizeof x);
                        for (unsigned char c : bytes)
                            h = (h ^ c) * 1099511628211ULL;
                    }
                char buf[96];
                snprintf(buf, sizeof buf, " emb=%ldx%ld:%016llx", (long)result.embedding.rows(), (long)result.embedding.cols(), h);
                emb = buf;
            }
        }
        catch (const reached& r)
        {
            outcome = std::string("reached ") + r.which;
        }
        catch (const undeclared& r)
        {
            outcome = std::string("throw undeclared:") + r.which;
        }
        catch (const tapkee::unsupported_method_error& e)
        {
            outcome = "throw tapkee::unsupported_method_error";
            what = e.what();
        }
#define CATCH(ns, cls)                                                                                                 \
    catch (const ns::cls&)                                                                                             \
    {                                                                                                                  \
        outcome = "throw " #ns "::" #cls;                                                                              \
    }
        CATCH(tapkee, no_data_error)
        CATCH(tapkee, not_enough_memory_error)
        CATCH(tapkee, cancelled_exception)
        CATCH(tapkee, eigendecomposition_error)
        CATCH(tapkee, missed_parameter_error)
        CATCH(tapkee, wrong_parameter_error)
        CATCH(tapkee, wrong_parameter_type_error)
        CATCH(tapkee, multiple_parameter_error)
        CATCH(stichwort, missed_parameter_error)
        CATCH(stichwort, wrong_parameter_error)
        CATCH(stichwort, wrong_parameter_type_error)
        CATCH(stichwort, multiple_parameter_error)
        CATCH(std, bad_alloc)
#undef CATCH
        catch (const std::exception& e)
        {
            std::string w = e.what();
            for (auto& c : w)
                if (c == ' ')
                    c = '_';
            outcome = "throw other:" + w;
        }
        std::ostringstream o;
        o << outcome << " k=" << (g.k ? "+" : "0") << " d=" << (g.d ? "+" : "0") << " f=" << (g.f ? "+" : "0") << " | echo=";
        if (g_echo.empty())
            o << "-";
        bool first = true;
        for (auto& kv : g_echo)
        {
            std::string v = kv.second;
            for (auto& c : v)
                if (c == ' ' || c == ';')
                    c = '_';
            o << (first ? "" : ";") << vfront::keyword_ident(kv.first) << "=" << v;
            first = false;
        }
        o << " | routes=";
        first = true;
        for (auto& r : g.routes)
        {
            o << (first ? "" : ",") << r;
            first = false;
        }
        if (g.routes.empty())
            o << "-";
        o << " # raw=" << g.k << "," << g.d << "," << g.f << emb;
        if (!what.empty())
        {
            for (auto& c : what)
                if (c == ' ')
                    c = '_';
            o << " msg=" << what;
        }
        fprintf(out, "%s\n", o.str().c_str());
        fflush(out);
    }
    return 0;
}
