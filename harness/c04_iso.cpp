// C04 correspondence harness (2/2): Isomap end to end.
//   default            : IsomapImplementation instantiated exactly as embed()/DynamicImplementation::embedUsing do
//                        (parameters.check, merge(defaults), ImplementationBase, validate, embed) - compiles in ~15 s
//   -DC04_PUBLIC_API   : tapkee::with((method = Isomap, ...)).withDistance(cb).embedUsing(idx)   (thorough tier)
// The eigen observer (hook 3, TAPKEE_VERIF) captures the matrix handed to the eigensolver.
//
// The neighbour lists are OBSERVED from inside embed(): the distance callback records every query (by value of the
// caller's index vector, which may be permuted / offset: `idx=`).  A neighbour-search round asks for every ordered pair
// once, in any order (self pair optional); every later query (u, w) comes from the relax loop, which asks for exactly
// the edges u -> neighbors[u][i] (row u of the Dijkstra settles u first and then queries all of its list).  So
// rounds = number of complete pair covers and the edge set = the queries after them; nothing is recomputed with
// settings of the harness's own.
//
// in : iso N=8 k=3 d=2 w=<distance matrix> [eig=dense|randomized] [cc=0|1] [idx=<values of the index vector>]
// out: nb=<observed lists, sorted> rounds=<rounds> shape=ok|<what was not recognised> then  calls=1 pre=<matrix handed to the eigensolver> ev=<eigenvalues>
//      Y=<embedding rows>   or   throw=<exception text>
#ifdef C04_PUBLIC_API
#include <tapkee/tapkee.hpp>
#else
#include <tapkee/defines.hpp>
#include <tapkee/methods/base.hpp>
#include <tapkee/utils/matrix.hpp>
#include <tapkee/routines/eigendecomposition.hpp>
#include <tapkee/methods/isomap.hpp>
#include <tapkee/callbacks/dummy_callbacks.hpp>
#endif
#include <tapkee/callbacks/precomputed_callbacks.hpp>

#include <set>

#include "c04_common.hpp"

// ------------------------------------------------------------------ eigen observer (hook 3)
static DenseMatrix g_seen;
static EigendecompositionResult g_result;
static int g_calls = 0;
static void observer(const DenseMatrix& lhs, const DenseMatrix&, const EigendecompositionResult& result, IndexType,
                     unsigned int, bool, bool)
{
    g_seen = lhs;
    g_result = result;
    g_calls++;
}

// ------------------------------------------------------------------ recording distance callback
struct query
{
    int a, b, level; // level = omp_get_level(): 0 in sequential code, >= 1 inside the relax loop's parallel region
};

struct query_log
{
    std::vector<query> q;
};

struct recording_distance
{
    const DenseMatrix* W;
    query_log* log;
    inline ScalarType distance(int a, int b) const
    {
        query x{a, b, omp_get_level()};
#pragma omp critical(c04_record)
        log->q.push_back(x);
        return (*W)(a, b);
    }
};

// Split the query log (positions) into neighbour-search rounds and the relax loop's edge queries, without depending on
// the order in which a round asks its questions: a round is a stretch of queries without a repeated ordered pair that
// covers every ordered pair (i, j), i != j (the self pair (i, i) is optional); the stretch ends at the first repeated
// pair.  Queries made inside a parallel region (omp_get_level() >= 1: the relax loop, whatever the thread count) are
// edges; if the search itself ran inside a parallel region too (no sequential query at all) the first stretch that
// is not a round starts the relax loop.
// `shape` = "ok" or a description of what was not recognised (reported as a broken observation, not a failing input).
static size_t count_rounds(const std::vector<query>& q, IndexType N, int& rounds)
{
    size_t pos = 0;
    rounds = 0;
    const size_t need = (size_t)N * (size_t)(N - 1);
    while (pos < q.size())
    {
        std::set<std::pair<int, int>> seen;
        size_t offdiag = 0, t = pos;
        for (; t < q.size(); t++)
        {
            if (q[t].a < 0 || q[t].b < 0)
                break;
            if (!seen.insert(std::make_pair(q[t].a, q[t].b)).second)
                break;
            if (q[t].a != q[t].b)
                offdiag++;
        }
        if (offdiag != need)
            break;
        rounds++;
        pos = t;
    }
    return pos;
}

static void observed_lists(const std::vector<query>& q, IndexType N, Neighbors& nb, int& rounds, std::string& shape)
{
    shape = "ok";
    std::vector<query> seq, par;
    for (auto& x : q)
        (x.level == 0 ? seq : par).push_back(x);
    std::vector<query> edges;
    if (!seq.empty())
    {
        size_t pos = count_rounds(seq, N, rounds);
        if (pos != seq.size())
            shape = "sequential-queries-that-are-not-complete-pair-covers";
        edges = par;
    }
    else
    {
        size_t pos = count_rounds(par, N, rounds);
        edges.assign(par.begin() + pos, par.end());
    }
    std::vector<std::set<IndexType>> sets(N);
    for (auto& x : edges)
    {
        if (x.a < 0 || x.b < 0)
        {
            shape = "query-outside-the-index-range";
            continue;
        }
        sets[x.a].insert(x.b);
    }
    nb.clear();
    for (IndexType u = 0; u < N; u++)
        nb.push_back(LocalNeighbors(sets[u].begin(), sets[u].end()));
}

static std::string run_iso(std::map<std::string, std::string>& f)
{
    IndexType N = std::stoi(f["N"]);
    IndexType k = std::stoi(f["k"]);
    IndexType d = std::stoi(f["d"]);
    DenseMatrix W = parse_matrix(f["w"]);
    bool cc = f.count("cc") ? f["cc"] == "1" : false;
    EigenMethod em = (f.count("eig") && f["eig"] == "randomized") ? Randomized : Dense;
    std::vector<IndexType> idx = parse_idx(f, N);
    DenseMatrix Wv = by_value(W, idx);
    query_log log;
    recording_distance dcb{&Wv, &log};
    g_calls = 0;
    g_seen.resize(0, 0);
    verif_eigen_observer::get() = observer;
    std::ostringstream o;
    std::string thrown;
    TapkeeOutput out;
    try
    {
        typedef std::vector<IndexType>::iterator It;
#ifdef C04_PUBLIC_API
        out = with((method = Isomap, num_neighbors = k, target_dimension = d, neighbors_method = Brute,
                    eigen_method = em, check_connectivity = cc))
                  .withDistance(dcb)
                  .embedUsing(idx);
#else
        // the statements of tapkee::embed + DynamicImplementation::embedUsing for method == Isomap
        stichwort::ParametersSet parameters = (method = Isomap, num_neighbors = k, target_dimension = d,
                                               neighbors_method = Brute, eigen_method = em, check_connectivity = cc);
        parameters.check();
        parameters.merge(tapkee_internal::defaults);
        Context context(nullptr, nullptr);
        typedef dummy_kernel_callback<IndexType> KC;
        typedef dummy_features_callback<IndexType> FC;
        ImplementationBase<It, KC, recording_distance, FC> base(idx.begin(), idx.end(), KC(), dcb, FC(), parameters,
                                                               context);
        IsomapImplementation<It, KC, recording_distance, FC> implementation(base);
        implementation.validate();
        out = implementation.embed();
#endif
    }
    catch (const std::exception& ex)
    {
        thrown = ex.what();
        if (thrown.empty())
            thrown = "exception";
        for (auto& c : thrown)
            if (c == ' ')
                c = '_';
    }
    verif_eigen_observer::get() = NULL;
    Neighbors nb;
    int rounds = 0;
    std::string shape;
    // queries are recorded by VALUE; translate to positions
    std::vector<int> pos_of(Wv.rows(), -1);
    for (IndexType i = 0; i < N; i++)
        pos_of[idx[i]] = i;
    std::vector<query> qpos;
    for (auto& x : log.q)
        qpos.push_back(query{x.a >= 0 && x.a < (int)pos_of.size() ? pos_of[x.a] : -1,
                             x.b >= 0 && x.b < (int)pos_of.size() ? pos_of[x.b] : -1, x.level});
    observed_lists(qpos, N, nb, rounds, shape);
    o << "nb=" << show_lists(nb) << " rounds=" << rounds << " shape=" << shape;
    if (!thrown.empty())
        o << " throw=" << thrown;
    else
        o << " calls=" << g_calls << " pre=" << show_matrix(g_seen)
          << " ev=" << show_matrix(DenseMatrix(g_result.second.transpose())) << " Y=" << show_matrix(out.embedding);
    return o.str();
}

int main()
{
    tapkee::Logging::instance().disable_info();
    tapkee::Logging::instance().disable_warning();
    const char* alarm_env = std::getenv("C04_CASE_ALARM");
    unsigned alarm_s = alarm_env ? (unsigned)std::atoi(alarm_env) : 60;
    std::string line;
    while (std::getline(std::cin, line))
    {
        if (line.empty())
            continue;
        vh::case_alarm(alarm_s); // a hang is an observation (abort:timeout), not a stalled check
        auto f = vh::fields(line);
        std::cout << (line.rfind("iso ", 0) == 0 ? run_iso(f) : std::string("bad-topic")) << std::endl;
    }
    return 0;
}
