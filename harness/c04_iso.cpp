// C04 correspondence harness (2/2): Isomap end to end.
//   default            : IsomapImplementation instantiated exactly as embed()/DynamicImplementation::embedUsing do
//                        (parameters.check, merge(defaults), ImplementationBase, validate, embed) - compiles in ~15 s
//   -DC04_PUBLIC_API   : tapkee::with((method = Isomap, ...)).withDistance(cb).embedUsing(idx)   (thorough tier)
// The eigen observer (hook 3, TAPKEE_VERIF) captures the matrix handed to the eigensolver.
//
// in : iso N=8 k=3 d=2 w=<distance matrix> [eig=dense|randomized] [cc=0|1]
// out: nb=<lists> calls=1 pre=<matrix handed to the eigensolver> ev=<eigenvalues> Y=<embedding rows>
//      | throw:<exception text>
#ifdef C04_PUBLIC_API
#include <tapkee/tapkee.hpp>
#else
#include <tapkee/defines.hpp>
#include <tapkee/methods/base.hpp>
#include <tapkee/utils/matrix.hpp>
#include <tapkee/routines/eigendecomposition.hpp>
#include <tapkee/methods/isomap.hpp>
#include <tapkee/callbacks/dummy_callbacks.hpp>
#endif
#include <tapkee/callbacks/precomputed_callbacks.hpp>

#include "c04_common.hpp"

// ------------------------------------------------------------------ eigen observer (hook 3)
static DenseMatrix g_seen;
static EigendecompositionResult g_result;
static int g_calls = 0;
static void observer(const DenseMatrix& lhs, const DenseMatrix&, const EigendecompositionResult& result, IndexType,
                     unsigned int, bool, bool)
{
    g_seen = lhs;
    g_result = result;
    g_calls++;
}

static std::string run_iso(std::map<std::string, std::string>& f)
{
    IndexType N = std::stoi(f["N"]);
    IndexType k = std::stoi(f["k"]);
    IndexType d = std::stoi(f["d"]);
    DenseMatrix W = parse_matrix(f["w"]);
    bool cc = f.count("cc") ? f["cc"] == "1" : false;
    EigenMethod em = (f.count("eig") && f["eig"] == "randomized") ? Randomized : Dense;
    std::vector<IndexType> idx(N);
    for (IndexType i = 0; i < N; i++)
        idx[i] = i;
    precomputed_distance_callback dcb(W);
    g_calls = 0;
    g_seen.resize(0, 0);
    verif_eigen_observer::get() = observer;
    std::ostringstream o;
    try
    {
        typedef std::vector<IndexType>::iterator It;
#ifdef C04_PUBLIC_API
        TapkeeOutput out = with((method = Isomap, num_neighbors = k, target_dimension = d, neighbors_method = Brute,
                                 eigen_method = em, check_connectivity = cc))
                               .withDistance(dcb)
                               .embedUsing(idx);
#else
        // the statements of tapkee::embed + DynamicImplementation::embedUsing for method == Isomap
        stichwort::ParametersSet parameters = (method = Isomap, num_neighbors = k, target_dimension = d,
                                               neighbors_method = Brute, eigen_method = em, check_connectivity = cc);
        parameters.check();
        parameters.merge(tapkee_internal::defaults);
        Context context(nullptr, nullptr);
        typedef dummy_kernel_callback<IndexType> KC;
        typedef dummy_features_callback<IndexType> FC;
        ImplementationBase<It, KC, precomputed_distance_callback, FC> base(idx.begin(), idx.end(), KC(), dcb, FC(),
                                                                            parameters, context);
        IsomapImplementation<It, KC, precomputed_distance_callback, FC> implementation(base);
        implementation.validate();
        TapkeeOutput out = implementation.embed();
#endif
        // the neighbour lists embed() used: the same deterministic search on the same input
        PlainDistance<It, precomputed_distance_callback> pd(dcb);
        Neighbors nb = find_neighbors(Brute, idx.begin(), idx.end(), pd, k, cc);
        o << "nb=" << show_lists(nb) << " calls=" << g_calls << " pre=" << show_matrix(g_seen)
          << " ev=" << show_matrix(DenseMatrix(g_result.second.transpose())) << " Y=" << show_matrix(out.embedding);
    }
    catch (const std::exception& ex)
    {
        std::string w = ex.what();
        for (auto& c : w)
            if (c == ' ')
                c = '_';
        o.str("");
        o << "throw:" << w;
    }
    verif_eigen_observer::get() = NULL;
    return o.str();
}

int main()
{
    tapkee::Logging::instance().disable_info();
    tapkee::Logging::instance().disable_warning();
    const char* alarm_env = std::getenv("C04_CASE_ALARM");
    unsigned alarm_s = alarm_env ? (unsigned)std::atoi(alarm_env) : 60;
    std::string line;
    while (std::getline(std::cin, line))
    {
        if (line.empty())
            continue;
        vh::case_alarm(alarm_s); // a hang is an observation (abort:timeout), not a stalled check
        auto f = vh::fields(line);
        std::cout << (line.rfind("iso ", 0) == 0 ? run_iso(f) : std::string("bad-topic")) << std::endl;
    }
    return 0;
}
