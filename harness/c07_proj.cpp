// C07 correspondence harness: the projection function returned by the PUBLIC API.
// in : proj method=pca|rp|npe|lltsa|lpp N=8 D=3 d=2 k=4 solver=dense seed=1 data=<N rows of D> q=<Q rows of D>
// out: ok has=1 P=<Dxd> mu=<D> Y=<Nxd> T=<Nxd> Q=<Qxd> C=<Qxd> E=<d> Dm=<d>   T row i = projection(x_i), Q row r = projection(q_r),
//      C row r = a*f(x_i)+(1-a)*f(x_j) in ONE expression, E = f(x_0) held by reference across a later call, Dm = f(x_0)-f(x_last)
// in : empty method=<any of the 20> N=.. D=.. d=2 k=.. seed=1 data=<N rows of D>
// out: ok has=0|1 rows=<N> cols=<d>
#include "vspectral.hpp"

using namespace tapkee;

static TapkeeOutput run_method(std::map<std::string, std::string>& f, const DenseMatrix& X)
{
    const int N = std::stoi(f["N"]), d = std::stoi(f["d"]);
    const int k = f.count("k") ? std::stoi(f["k"]) : 5;
    std::srand((unsigned)std::stoul(f.count("seed") ? f["seed"] : "1"));
    tapkee::verif_shuffle_generator().seed(5489u);
    std::vector<IndexType> idx = vs::ids(f, N);
    eigen_features_callback fcb(X);
    eigen_kernel_callback kcb(X);
    eigen_distance_callback dcb(X);
    ParametersSet params =
        (method = vs::method_by_name(f["method"]), target_dimension = d, num_neighbors = k, neighbors_method = Brute,
         eigen_method = vs::solver_by_name(f.count("solver") ? f["solver"] : "dense"), gaussian_kernel_width = 10.0,
         sne_perplexity = 2.0, max_iteration = 20, landmark_ratio = 0.5);
    return tapkee::with(params).withKernel(kcb).withDistance(dcb).withFeatures(fcb).embedUsing(idx);
}

static std::string run_proj(std::map<std::string, std::string>& f)
{
    const int N = std::stoi(f["N"]);
    DenseMatrix data = vs::all_data(f);
    DenseMatrix X = data.transpose();
    std::vector<IndexType> idx = vs::ids(f, N);
    TapkeeOutput out = run_method(f, X);
    auto* impl = dynamic_cast<MatrixProjectionImplementation*>(out.projection.implementation.get());
    std::ostringstream s;
    s << "ok has=" << (out.projection.implementation ? 1 : 0);
    if (!impl)
        return s.str();
    const int d = out.embedding.cols();
    DenseMatrix T(N, d);
    for (int i = 0; i < N; ++i)
        T.row(i) = out.projection(DenseVector(X.col(idx[i]))).transpose();
    DenseMatrix q = f.count("q") && f["q"] != "-" ? vs::parse_mat(f["q"]) : DenseMatrix(0, X.rows());
    DenseMatrix Q(q.rows(), d);
    for (int r = 0; r < q.rows(); ++r)
        Q.row(r) = out.projection(DenseVector(q.row(r).transpose())).transpose();
    // multi-step use of ONE projection function (a projection must be a pure function of its argument):
    //  C row r = a*f(x_i) + (1-a)*f(x_j) evaluated in a single expression, for every combination query r = i:j:a;
    //  E       = f(x_0) bound by reference BEFORE f(x_{N-1}) is applied, read afterwards;
    //  Dm      = f(x_0) - f(x_{N-1}) in a single expression
    std::vector<std::string> combs = f.count("comb") && f["comb"] != "-" ? vh::split(f["comb"], ',') : std::vector<std::string>();
    DenseMatrix C = DenseMatrix::Zero(q.rows(), d);
    for (int r = 0; r < q.rows() && r < (int)combs.size(); ++r)
    {
        if (combs[r] == "-")
            continue;
        auto t = vh::split(combs[r], ':');
        const int i = std::stoi(t[0]), j = std::stoi(t[1]);
        const double a = vh::parse_num(t[2]);
        const DenseVector xi = X.col(idx[i]), xj = X.col(idx[j]);
        DenseVector comb = a * out.projection(xi) + (1.0 - a) * out.projection(xj);
        C.row(r) = comb.transpose();
    }
    const DenseVector x0 = X.col(idx[0]), xl = X.col(idx[N - 1]);
    const DenseVector& first = out.projection(x0);
    DenseVector later = out.projection(xl);
    DenseVector E = first;
    DenseVector Dm = out.projection(x0) - out.projection(xl);
    (void)later;
    s << " P=" << vs::mat(impl->proj_mat) << " mu=" << vs::vec(impl->mean_vec) << " Y=" << vs::mat(out.embedding)
      << " T=" << vs::mat(T) << " Q=" << vs::mat(Q) << " C=" << vs::mat(C) << " E=" << vs::vec(E) << " Dm=" << vs::vec(Dm);
    return s.str();
}

static std::string run_empty(std::map<std::string, std::string>& f)
{
    DenseMatrix X = vs::all_data(f).transpose();
    TapkeeOutput out = run_method(f, X);
    std::ostringstream s;
    s << "ok has=" << (out.projection.implementation ? 1 : 0) << " rows=" << out.embedding.rows()
      << " cols=" << out.embedding.cols();
    return s.str();
}

// in : hist N=.. D=.. d=2 k=.. seed=1 ops=pca:copy,isomap:move,mds:cctor,... data=<rows> [sel= alldata=]
// out: ok steps=<n> | has=<0|1> shas=<0|1> T=<Nxd or -> Y=<Nxd> | ...      one block per op
//      ONE TapkeeOutput variable is reused across the whole sequence; `copy`: cur = res; `move`: cur = std::move(res);
//      `cctor`: TapkeeOutput tmp(res); cur = tmp;   after every assignment: has = cur has a projection, shas = a
//      copy-constructed snapshot of cur has one, T row i = cur.projection(x_i), Y = cur.embedding
static std::string run_hist(std::map<std::string, std::string>& f)
{
    const int N = std::stoi(f["N"]);
    DenseMatrix X = vs::all_data(f).transpose();
    std::vector<IndexType> idx = vs::ids(f, N);
    auto ops = vh::split(f["ops"], ',');
    TapkeeOutput cur;
    std::ostringstream s;
    s << "ok steps=" << ops.size();
    for (auto& op : ops)
    {
        auto t = vh::split(op, ':');
        f["method"] = t[0];
        TapkeeOutput res = run_method(f, X);
        if (t[1] == "copy")
            cur = res;
        else if (t[1] == "move")
            cur = std::move(res);
        else
        {
            TapkeeOutput tmp(res);
            cur = tmp;
        }
        TapkeeOutput snap(cur);
        const bool has = (bool)cur.projection.implementation, shas = (bool)snap.projection.implementation;
        s << " | has=" << (has ? 1 : 0) << " shas=" << (shas ? 1 : 0);
        if (has)
        {
            DenseMatrix T(N, cur.embedding.cols());
            for (int i = 0; i < N; ++i)
                T.row(i) = cur.projection(DenseVector(X.col(idx[i]))).transpose();
            s << " T=" << vs::mat(T);
        }
        else
            s << " T=-";
        s << " Y=" << vs::mat(cur.embedding);
    }
    return s.str();
}

int main()
{
    tapkee::Logging::instance().disable_info();
    std::string line;
    while (std::getline(std::cin, line))
    {
        if (line.empty())
            continue;
        auto f = vh::fields(line);
        vh::case_alarm(300); // per-case watchdog: a hang becomes the observation abort:timeout for this case
        bool empty = line.rfind("empty ", 0) == 0, hist = line.rfind("hist ", 0) == 0;
        std::cout << vs::guarded([&] { return hist ? run_hist(f) : empty ? run_empty(f) : run_proj(f); }) << std::endl;
    }
    return 0;
}
