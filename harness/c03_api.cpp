// C03 quick public-API leg: the check_connectivity flag as the METHODS use it (ImplementationBase::find_neighbors_with,
// methods/base.hpp) — Isomap, Landmark Isomap (all samples landmarks) and Laplacian Eigenmaps, instantiated exactly as
// tapkee::embed / DynamicImplementation::embedUsing do (parameters.check, merge(defaults), ImplementationBase, validate,
// embed), which compiles much faster than all of tapkee.hpp.  Build with -O0 -g1.
// in : api meth=isomap|lisomap|le nm=brute|vptree|covertree k=3 cc=1|0|default cb=plain metric=L1|Linf pts=..
// out: obs=ok|throw:<text> fin=<embedding finite> gfin=<matrix handed to the eigensolver finite> minnz=<least number of
//      off-diagonal non-zeros in a row of that matrix> kcc=<k of find_neighbors(.., k, true)> lists0=<lists of (.., k, false)>
#include "knn_common.hpp"

#include <tapkee/callbacks/dummy_callbacks.hpp>
#include <tapkee/methods/base.hpp>
#include <tapkee/utils/matrix.hpp>
#include <tapkee/routines/eigendecomposition.hpp>
#include <tapkee/routines/generalized_eigendecomposition.hpp>
#include <tapkee/methods/isomap.hpp>
#include <tapkee/methods/landmark_isomap.hpp>
#include <tapkee/methods/laplacian_eigenmaps.hpp>

using namespace tapkee;
using namespace tapkee::tapkee_internal;

static bool g_gfin = true;
static long g_minnz = -1;
static int g_calls = 0;

static void observer(const DenseMatrix& lhs, const DenseMatrix&, const EigendecompositionResult&, IndexType, unsigned int,
                     bool, bool)
{
    g_calls++;
    g_gfin = true;
    g_minnz = -1;
    for (IndexType i = 0; i < lhs.rows(); i++)
    {
        long nz = 0;
        for (IndexType j = 0; j < lhs.cols(); j++)
        {
            if (!std::isfinite(lhs(i, j)))
                g_gfin = false;
            if (i != j && lhs(i, j) != 0.0)
                nz++;
        }
        if (g_minnz < 0 || nz < g_minnz)
            g_minnz = nz;
    }
}

typedef std::vector<int>::iterator It;
typedef dummy_kernel_callback<int> KC;
typedef dummy_features_callback<int> FC;
typedef ImplementationBase<It, KC, vk::DistCb, FC> Base;

int main()
{
    Logging::instance().disable_warning();
    Logging::instance().disable_info();
    verif_eigen_observer::get() = observer;
    std::string line;
    while (std::getline(std::cin, line))
    {
        if (line.empty())
            continue;
        vh::case_alarm(60);
        auto f = vh::fields(line);
        vk::Space sp = vk::parse_space(f);
        std::vector<int> data(sp.N);
        for (int i = 0; i < sp.N; i++)
            data[i] = i;
        int k = std::stoi(f["k"]);
        NeighborsMethod nm = vk::method_of(f["nm"]);
        vk::DistCb dcb{&sp};
        g_calls = 0;
        g_gfin = true;
        g_minnz = -1;
        std::string obs = "ok";
        bool fin = false;
        try
        {
            stichwort::ParametersSet parameters;
            if (f["meth"] == "isomap")
                parameters = (method = Isomap, num_neighbors = k, target_dimension = 2, neighbors_method = nm,
                              eigen_method = Dense);
            else if (f["meth"] == "lisomap")
                parameters = (method = LandmarkIsomap, num_neighbors = k, target_dimension = 2, neighbors_method = nm,
                              eigen_method = Dense, landmark_ratio = 1.0);
            else
                parameters = (method = LaplacianEigenmaps, num_neighbors = k, target_dimension = 2, neighbors_method = nm,
                              eigen_method = Dense, gaussian_kernel_width = 1e18);
            if (f["cc"] == "1")
                parameters.add(check_connectivity = true);
            else if (f["cc"] == "0")
                parameters.add(check_connectivity = false);
            parameters.check();
            parameters.merge(tapkee_internal::defaults);
            Context context(nullptr, nullptr);
            Base base(data.begin(), data.end(), KC(), dcb, FC(), parameters, context);
            TapkeeOutput out;
            vk::stream().pos = 0;
            if (f["meth"] == "isomap")
            {
                IsomapImplementation<It, KC, vk::DistCb, FC> impl(base);
                impl.validate();
                out = impl.embed();
            }
            else if (f["meth"] == "lisomap")
            {
                LandmarkIsomapImplementation<It, KC, vk::DistCb, FC> impl(base);
                impl.validate();
                out = impl.embed();
            }
            else
            {
                LaplacianEigenmapsImplementation<It, KC, vk::DistCb, FC> impl(base);
                impl.validate();
                out = impl.embed();
            }
            fin = true;
            for (IndexType i = 0; i < out.embedding.rows(); i++)
                for (IndexType j = 0; j < out.embedding.cols(); j++)
                    if (!std::isfinite(out.embedding(i, j)))
                        fin = false;
        }
        catch (const std::exception& e)
        {
            obs = std::string("throw:") + e.what();
            for (auto& c : obs)
                if (c == ' ')
                    c = '_';
            obs = obs.substr(0, 80);
        }
        // what the neighbour search returns for this k with and without the check (same deterministic search)
        vk::PlainD pd(dcb);
        vk::stream().pos = 0;
        Neighbors with_check = find_neighbors(nm, data.begin(), data.end(), pd, k, true);
        vk::stream().pos = 0;
        Neighbors no_check = find_neighbors(nm, data.begin(), data.end(), pd, k, false);
        std::cout << "obs=" << obs << " fin=" << (fin ? 1 : 0) << " gfin=" << (g_gfin ? 1 : 0) << " calls=" << g_calls
                  << " minnz=" << g_minnz << " kcc=" << (with_check.empty() ? 0 : with_check[0].size())
                  << " lists0=" << vk::show_lists(no_check) << std::endl;
    }
    return 0;
}
