// Shared by harness/c02_knn.cpp and harness/c03_conn.cpp (C02 / C03 correspondence, DESIGN §6, §11).
//
// A case describes a finite sample set 0..N-1 and an exact-mode callback:
//   metric=L1|Linf  pts=x,y;x,y;...  [sh=e]      integer coordinates, optionally scaled by 2^-e (dyadic data)
//   metric=L2       pts=...                       Euclidean distance (sqrt rounds: oracle-only leg on generic data)
//   metric=matrix   m=d00,d01,..;d10,..          precomputed integer metric
//   cb=plain | cb=kernel                          PlainDistance / KernelDistance wrapper of tapkee
//   kern=lin (with pts) | kern=matrix km=...      integer kernel values; the induced squared distances are perfect
//                                                squares by construction of the generator, so sqrt is exact
//   rng=i0,i1,...                                 (optional) the iterator range handed to tapkee is data[p] = i_p (N distinct
//                                                non-negative ints) instead of the identity 0..N-1: element != position.
//                                                The user callbacks translate element -> sample through the inverse
//                                                table; an argument that is not an element of the range (e.g. a loop
//                                                POSITION passed where *iter was meant) counts as `foreign` and yields a
//                                                huge value.  Neighbour lists are positions as always.  (The field is not
//                                                called ids=: that name is taken by the implementation's lists.)
//   vs=n0,n1,...                                  vantage stream: the j-th call of tapkee::uniform_random() returns
//                                                n_(j mod len) * 2^-20
// All values are small integers / dyadics, so IEEE arithmetic performs no rounding (exact mode, DESIGN §3).
#pragma once
#include <algorithm>
#include <cmath>
#include <cstdint>
#include <string>
#include <unordered_map>
#include <vector>

namespace vk
{
struct Stream
{
    std::vector<long> v;
    size_t pos = 0;
    size_t draws = 0;
    double next()
    {
        draws++;
        if (v.empty())
            return 0.0;
        double u = std::ldexp((double)(v[pos % v.size()] & ((1L << 20) - 1)), -20);
        pos++;
        return u;
    }
};
inline Stream& stream()
{
    static Stream s;
    return s;
}
inline double next_uniform()
{
    return stream().next();
}
} // namespace vk

// -DKNN_DEFAULT_VANTAGE: leave the library's own generators in place (the VP-tree then draws its vantage points from
// VantagePointTree::next_vantage_fraction's own LCG); such a build is judged by the oracle only
#ifndef KNN_DEFAULT_VANTAGE
#define CUSTOM_UNIFORM_RANDOM_FUNCTION vk::next_uniform()
#define CUSTOM_UNIFORM_RANDOM_INDEX_FUNCTION ((int)(vk::next_uniform() * 1048576.0))
#endif

#include <tapkee/defines.hpp>
#include <tapkee/neighbors/neighbors.hpp>
#include <tapkee/routines/isomap.hpp>

#include "vcommon.hpp"

namespace vk
{
using tapkee::IndexType;
using tapkee::ScalarType;

struct Space
{
    int N = 0;
    std::string metric;                  // L1 | Linf | matrix | (empty when only a kernel is given)
    std::vector<std::vector<double>> pts; // scaled coordinates
    std::vector<std::vector<double>> M;   // metric matrix
    std::string kern;                    // lin | matrix
    std::vector<std::vector<double>> KM;  // kernel matrix
    mutable long ndist = 0, nkern = 0, nself = 0; // nself: evaluations d(x, x) (every search makes N of them per round)
    std::vector<int> ids;                 // the range handed to tapkee (empty: identity)
    std::unordered_map<int, int> inv;     // element -> sample
    mutable long foreign = 0;             // callback arguments that are not elements of the range

    // element (what a dereferenced iterator yields) -> sample index, -1 if it is not an element of the range
    int sample(int e) const
    {
        if (ids.empty())
            return (e >= 0 && e < N) ? e : -1;
        auto it = inv.find(e);
        return it == inv.end() ? -1 : it->second;
    }
    std::vector<int> range() const
    {
        std::vector<int> data(N);
        for (int i = 0; i < N; i++)
            data[i] = ids.empty() ? i : ids[i];
        return data;
    }
    std::string foreign_suffix() const
    {
        return foreign > 0 ? " foreign=" + std::to_string(foreign) : "";
    }

    double dist(int a, int b) const
    {
        ndist++;
        if (a == b)
            nself++;
        if (metric == "matrix")
            return M[a][b];
        double acc = 0;
        const auto &p = pts[a], &q = pts[b];
        if (metric == "L2")
        {
            // the library's own Euclidean distance: NOT exact mode (sqrt rounds); used on generic integer data only,
            // where sqrt is injective on the squared distances, so the order of distances is the order of the squares
            for (size_t t = 0; t < p.size(); t++)
                acc += (p[t] - q[t]) * (p[t] - q[t]);
            return std::sqrt(acc);
        }
        for (size_t t = 0; t < p.size(); t++)
        {
            double d = std::fabs(p[t] - q[t]);
            if (metric == "L1")
                acc += d;
            else
                acc = std::max(acc, d);
        }
        return acc;
    }
    double kernel(int a, int b) const
    {
        nkern++;
        if (kern == "matrix")
            return KM[a][b];
        double acc = 0;
        for (size_t t = 0; t < pts[a].size(); t++)
            acc += pts[a][t] * pts[b][t];
        return acc;
    }
};

inline std::vector<std::vector<double>> parse_rows(const std::string& s, double scale = 1.0)
{
    std::vector<std::vector<double>> rows;
    for (auto& r : vh::split(s, ';', true))
    {
        std::vector<double> row;
        for (auto& t : vh::split(r, ','))
            row.push_back(vh::parse_num(t) * scale);
        rows.push_back(row);
    }
    return rows;
}

inline Space parse_space(std::map<std::string, std::string>& f)
{
    Space s;
    s.metric = f.count("metric") ? f["metric"] : "";
    s.kern = f.count("kern") ? f["kern"] : "";
    double scale = 1.0;
    if (f.count("sh"))
        scale = std::ldexp(1.0, -std::stoi(f["sh"]));
    if (f.count("pts"))
    {
        s.pts = parse_rows(f["pts"], scale);
        s.N = (int)s.pts.size();
    }
    if (f.count("m"))
    {
        s.M = parse_rows(f["m"]);
        s.N = (int)s.M.size();
    }
    if (f.count("km"))
    {
        s.KM = parse_rows(f["km"]);
        s.N = (int)s.KM.size();
    }
    stream().v.clear();
    stream().pos = 0;
    stream().draws = 0;
    if (f.count("vs"))
        stream().v = vh::parse_ints(f["vs"]);
    if (f.count("rng"))
    {
        for (long x : vh::parse_ints(f["rng"]))
            s.ids.push_back((int)x);
        if ((int)s.ids.size() != s.N)
            s.ids.clear(); // malformed: fall back to the identity range
        for (int i = 0; i < (int)s.ids.size(); i++)
            s.inv[s.ids[i]] = i;
    }
    return s;
}

// the user-level callbacks handed to tapkee (they receive dereferenced iterators, i.e. sample indices)
struct DistCb
{
    const Space* s;
    ScalarType distance(int a, int b) const
    {
        int x = s->sample(a), y = s->sample(b);
        if (x < 0 || y < 0)
        {
            s->foreign++;
            return 1e30;
        }
        return s->dist(x, y);
    }
};
struct KernCb
{
    const Space* s;
    ScalarType kernel(int a, int b) const
    {
        int x = s->sample(a), y = s->sample(b);
        if (x < 0 || y < 0)
        {
            s->foreign++;
            return a == b ? 1e30 : 0.0; // induced distance sqrt(k(a,a) + k(b,b) - 2 k(a,b)) stays real
        }
        return s->kernel(x, y);
    }
};

typedef std::vector<int>::iterator It;
typedef tapkee::tapkee_internal::PlainDistance<It, DistCb> PlainD;
typedef tapkee::tapkee_internal::KernelDistance<It, KernCb> KernelD;

inline tapkee::NeighborsMethod method_of(const std::string& m)
{
    if (m == "brute")
        return tapkee::Brute;
    if (m == "vptree")
        return tapkee::VpTree;
    return tapkee::CoverTree;
}

inline std::string show_lists(const tapkee::tapkee_internal::Neighbors& nb)
{
    std::string out;
    for (size_t i = 0; i < nb.size(); i++)
    {
        if (i)
            out += ";";
        for (size_t j = 0; j < nb[i].size(); j++)
        {
            if (j)
                out += ",";
            out += std::to_string(nb[i][j]);
        }
    }
    return out;
}

// records the k values announced by find_neighbors' "not connected ... Recomputing" warnings
struct CaptureLogger : tapkee::LoggerImplementation
{
    std::vector<std::string> warnings;
    void message_info(const std::string& m) override
    {
        warnings.push_back(m);
    }
    void message_warning(const std::string& m) override
    {
        warnings.push_back(m);
    }
    void message_debug(const std::string&) override
    {
    }
    void message_error(const std::string&) override
    {
    }
    void message_benchmark(const std::string&) override
    {
    }
};
} // namespace vk
