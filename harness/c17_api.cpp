// C17 public-API harness: tapkee::embed(tDistributedStochasticNeighborEmbedding) on small inputs.
//   api  N= D= X= perp= theta= dim=    -> rows= cols= Y=<N*dim>   |  throw <type>
#include <cmath>
#include <memory>
#include <vector>

#include "vcommon.hpp"

static unsigned long long vh_gs = 88172645463325252ULL;
static double vh_gauss()
{
    // sum of 12 uniforms - 6 (xorshift64): deterministic stand-in for gaussian_random()
    double s = 0;
    for (int i = 0; i < 12; i++)
    {
        vh_gs ^= vh_gs << 13;
        vh_gs ^= vh_gs >> 7;
        vh_gs ^= vh_gs << 17;
        s += (double)(vh_gs >> 11) / 9007199254740992.0;
    }
    return s - 6.0;
}
#define CUSTOM_GAUSSIAN_RANDOM_FUNCTION vh_gauss()

#include <tapkee/tapkee.hpp>

struct feature_cb
{
    const std::vector<double>* X;
    int D;
    inline tapkee::IndexType dimension() const
    {
        return D;
    }
    inline void vector(int i, tapkee::DenseVector& v) const
    {
        for (int d = 0; d < D; d++)
            v(d) = (*X)[(size_t)i * D + d];
    }
};

int main()
{
    std::string line;
    tapkee::Logging::instance().disable_info();
    while (std::getline(std::cin, line))
    {
        if (line.empty())
            continue;
        vh::case_alarm(300); // per-case watchdog: a hang is the observation abort:timeout
        auto f = vh::fields(line);
        std::string topic = line.substr(0, line.find(' '));
        std::cerr << "case " << topic << "\n";
        int N = std::stoi(f["N"]);
        int D = std::stoi(f["D"]);
        std::ostringstream out;
        if (topic == "api")
{
            std::vector<double> X = vh::parse_nums(f["X"]);
            std::vector<tapkee::IndexType> idx(N);
            for (int i = 0; i < N; i++)
                idx[i] = i;
            feature_cb fcb{&X, D};
            int dim = std::stoi(f["dim"]);
            vh_gs = 88172645463325252ULL;
            try
            {
                using namespace tapkee;
                TapkeeOutput o = tapkee::with((method = tDistributedStochasticNeighborEmbedding, target_dimension = dim,
                                               sne_perplexity = vh::parse_num(f["perp"]), sne_theta = vh::parse_num(f["theta"])))
                                     .withFeatures(fcb)
                                     .embedRange(idx.begin(), idx.end());
                out << "rows=" << o.embedding.rows() << " cols=" << o.embedding.cols() << " Y=";
                for (int i = 0; i < o.embedding.rows(); i++)
                    for (int j = 0; j < o.embedding.cols(); j++)
                        out << ((i || j) ? "," : "") << vh::num(o.embedding(i, j));
            }
            catch (const std::exception& e)
            {
                out << "throw " << typeid(e).name();
            }
        }
        else
            out << "bad-topic";
        std::cout << out.str() << std::endl;
    }
    return 0;
}
