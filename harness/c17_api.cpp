// C17 public-API harness: tapkee::embed(tDistributedStochasticNeighborEmbedding) on small inputs.
//   api  N= D= X= perp= theta= dim= [ids=<N ids> M=<id space>]   -> rows= cols= Y=<N*dim> [foreign=<n>]  |  throw <type>
// With ids= the range handed to embedRange is NOT the identity: the k-th element of the range is the sample id ids[k]
// (< M), the features callback is defined on ids (row k of X is the feature vector of id ids[k]); every other id of the id
// space is a decoy with a far-away feature vector, and every callback evaluation on an id outside the range is counted
// (`foreign=<n>`, printed only when n > 0): a library that passes the POSITION in the range instead of the ELEMENT is seen.
#include <cmath>
#include <memory>
#include <vector>

#include "vcommon.hpp"

static unsigned long long vh_gs = 88172645463325252ULL;
static double vh_gauss()
{
    // sum of 12 uniforms - 6 (xorshift64): deterministic stand-in for gaussian_random()
    double s = 0;
    for (int i = 0; i < 12; i++)
    {
        vh_gs ^= vh_gs << 13;
        vh_gs ^= vh_gs >> 7;
        vh_gs ^= vh_gs << 17;
        s += (double)(vh_gs >> 11) / 9007199254740992.0;
    }
    return s - 6.0;
}
#define CUSTOM_GAUSSIAN_RANDOM_FUNCTION vh_gauss()

#include <tapkee/tapkee.hpp>

struct feature_cb
{
    const std::vector<double>* table; // M * D, indexed by sample id
    const std::vector<char>* in_range; // M
    int D;
    long* foreign;
    inline tapkee::IndexType dimension() const
    {
        return D;
    }
    inline void vector(tapkee::IndexType i, tapkee::DenseVector& v) const
    {
        if (i < 0 || (size_t)i >= in_range->size())
        {
            ++*foreign; // not even an id of the id space
            for (int d = 0; d < D; d++)
                v(d) = 0.0;
            return;
        }
        if (!(*in_range)[(size_t)i])
            ++*foreign;
        for (int d = 0; d < D; d++)
            v(d) = (*table)[(size_t)i * D + d];
    }
};

int main()
{
    std::string line;
    tapkee::Logging::instance().disable_info();
    while (std::getline(std::cin, line))
    {
        if (line.empty())
            continue;
        vh::case_alarm(300); // per-case watchdog: a hang is the observation abort:timeout
        auto f = vh::fields(line);
        std::string topic = line.substr(0, line.find(' '));
        std::cerr << "case " << topic << "\n";
        int N = std::stoi(f["N"]);
        int D = std::stoi(f["D"]);
        std::ostringstream out;
        if (topic == "api")
{
            std::vector<double> X = vh::parse_nums(f["X"]);
            std::vector<tapkee::IndexType> idx(N);
            int M = N;
            if (f.count("ids"))
            {
                std::vector<double> ids = vh::parse_nums(f["ids"]);
                M = std::stoi(f["M"]);
                for (int i = 0; i < N; i++)
                    idx[i] = (tapkee::IndexType)ids[(size_t)i];
            }
            else
                for (int i = 0; i < N; i++)
                    idx[i] = i;
            std::vector<double> table((size_t)M * D);
            std::vector<char> in_range((size_t)M, 0);
            for (int i = 0; i < M; i++) // decoys: far away from every sample (samples lie within [-10, 50])
                for (int d = 0; d < D; d++)
                    table[(size_t)i * D + d] = 100000.0 + 37.0 * i + d;
            for (int k = 0; k < N; k++)
            {
                in_range[(size_t)idx[k]] = 1;
                for (int d = 0; d < D; d++)
                    table[(size_t)idx[k] * D + d] = X[(size_t)k * D + d];
            }
            long foreign = 0;
            feature_cb fcb{&table, &in_range, D, &foreign};
            int dim = std::stoi(f["dim"]);
            vh_gs = 88172645463325252ULL;
            try
            {
                using namespace tapkee;
                TapkeeOutput o = tapkee::with((method = tDistributedStochasticNeighborEmbedding, target_dimension = dim,
                                               sne_perplexity = vh::parse_num(f["perp"]), sne_theta = vh::parse_num(f["theta"])))
                                     .withFeatures(fcb)
                                     .embedRange(idx.begin(), idx.end());
                out << "rows=" << o.embedding.rows() << " cols=" << o.embedding.cols() << " Y=";
                for (int i = 0; i < o.embedding.rows(); i++)
                    for (int j = 0; j < o.embedding.cols(); j++)
                        out << ((i || j) ? "," : "") << vh::num(o.embedding(i, j));
            }
            catch (const std::exception& e)
            {
                out << "throw " << typeid(e).name();
            }
            if (foreign > 0)
                out << " foreign=" << foreign;
        }
        else
            out << "bad-topic";
        std::cout << out.str() << std::endl;
    }
    return 0;
}
