// C11 correspondence harness: landmark selection, triangulation and the landmark methods through the public API.
//
// One input line -> one output line (DESIGN §11).  Numbers cross the boundary as exact dyadics (vh::num).
//
//   sel n=16 ratio=3/16 seed=5
//     -> sel r=<ratio as exact dyadic> count=<size> lm=<a,b,..> perm=<what tapkee::random_shuffle does to 0..n-1 under
//        that seed> replay=<1 iff a second call under the same seed returns the same landmarks>
//   tri n=6 d=2 lm=4,1,3 dist=<n x n> V=<n_l x d> lam=<d> mu=<n_l>
//     -> tri Y=<n x d>            tapkee_internal::triangulate called directly
//   api method=lmds|lisomap|mds|isomap n=8 d=2 [ratio=1/2] [k=4] [eig=dense|randomized] (seed=7 | lmwant=3,0,5)
//       (pts=<n x D integers> | dist=<n x n>)
//     -> api seed=<s> lm=<..> nobs=<#eigendecompositions> B=<matrix handed to the solver> V=<n x d> lam=<d> s=<sqrt lam>
//        Y=<embedding>      or   api seed=<s> lm=<..> exc=<exception text>
//     lm is what select_landmarks_random returns under the seed that the public call then runs under.
//   sweep num=3 lo=1 hi=1000000
//     -> sweep bad=<N:count,...>   every N in [lo,hi] for which static_cast<IndexType>(size_t(N) * (num / N)) != num
//        (the expression of select_landmarks_random; `real=` re-checks each listed N and a stride sample on the real
//        function)
// Compile-time note: `tapkee::embed` instantiates all 20 methods (2 min under ASan+UBSan).  By default this harness
// therefore repeats the body of tapkee::embed / DynamicImplementation::embedUsing for the four methods it needs
// (parameters.check, merge(defaults), base constructor, validate(), embed()); with -DC11_FULL_API the very same cases go
// through tapkee::with(..).withDistance(..).embedRange(..) (a sample of every family in quick, 250 cases in thorough: both builds must print identical lines).
#ifdef C11_FULL_API
#include <tapkee/tapkee.hpp>
#else
#include <tapkee/defines.hpp>
#include <tapkee/callbacks/dummy_callbacks.hpp>
#include <tapkee/methods/base.hpp>
#include <tapkee/routines/eigendecomposition.hpp> // (methods/all.hpp gets these two through locally_linear.hpp)
#include <tapkee/utils/matrix.hpp>
#include <tapkee/methods/isomap.hpp>
#include <tapkee/methods/landmark_isomap.hpp>
#include <tapkee/methods/landmark_multidimensional_scaling.hpp>
#include <tapkee/methods/multidimensional_scaling.hpp>
#include <tapkee/parameters/context.hpp>
#include <tapkee/parameters/defaults.hpp>
#endif

#include <numeric>
#include <set>

#include "vcommon.hpp"

using namespace tapkee;
using namespace tapkee::tapkee_internal;

static std::string show_ints(const std::vector<IndexType>& v)
{
    std::string s;
    for (size_t i = 0; i < v.size(); i++)
        s += (i ? "," : "") + std::to_string(v[i]);
    return s.empty() ? "-" : s;
}

static std::string show_mat(const DenseMatrix& m)
{
    std::string s;
    for (IndexType i = 0; i < m.rows(); i++)
    {
        if (i)
            s += ";";
        for (IndexType j = 0; j < m.cols(); j++)
            s += (j ? "," : "") + vh::num(m(i, j));
    }
    return s.empty() ? "-" : s;
}

static std::string show_vec(const DenseVector& v)
{
    std::string s;
    for (IndexType i = 0; i < v.size(); i++)
        s += (i ? "," : "") + vh::num(v(i));
    return s.empty() ? "-" : s;
}

static DenseMatrix parse_mat(const std::string& s)
{
    auto rows = vh::split(s, ';');
    std::vector<std::vector<double>> r;
    for (auto& row : rows)
        r.push_back(vh::parse_nums(row));
    DenseMatrix m(r.size(), r.empty() ? 0 : r[0].size());
    for (size_t i = 0; i < r.size(); i++)
        for (size_t j = 0; j < r[i].size(); j++)
            m(i, j) = r[i][j];
    return m;
}

static std::vector<IndexType> to_index(const std::vector<long>& v)
{
    return std::vector<IndexType>(v.begin(), v.end());
}

// ------------------------------------------------------------------ seeds
static std::vector<IndexType> shuffled(IndexType n, unsigned seed)
{
    std::vector<IndexType> v(n);
    std::iota(v.begin(), v.end(), 0);
    tapkee::verif_shuffle_generator().seed(seed);
    tapkee::random_shuffle(v.begin(), v.end());
    return v;
}

// first seed under which tapkee::random_shuffle(0..n-1) starts with `want`; found by scanning seeds 0,1,2,..
static long find_seed(IndexType n, const std::vector<IndexType>& want)
{
    static std::map<std::pair<IndexType, size_t>, std::pair<unsigned, std::map<std::vector<IndexType>, unsigned>>> cache;
    auto& c = cache[std::make_pair(n, want.size())];
    auto it = c.second.find(want);
    if (it != c.second.end())
        return it->second;
    const unsigned cap = 3000000;
    while (c.first < cap)
    {
        unsigned s = c.first++;
        std::vector<IndexType> p = shuffled(n, s);
        p.resize(want.size());
        c.second.emplace(p, s);
        if (p == want)
            return s;
    }
    return -1;
}

// ------------------------------------------------------------------ eigen observer
struct Observed
{
    DenseMatrix lhs;
    DenseMatrix V;
    DenseVector lam;
    IndexType d;
    unsigned skip;
    bool smallest;
};
static std::vector<Observed> g_obs;
static void observer(const DenseMatrix& lhs, const DenseMatrix&, const EigendecompositionResult& res, IndexType d,
                     unsigned int skip, bool smallest, bool)
{
    g_obs.push_back(Observed{lhs, res.first, res.second, d, skip, smallest});
}

struct matrix_distance
{
    const DenseMatrix* m;
    ScalarType distance(IndexType a, IndexType b) const
    {
        return (*m)(a, b);
    }
};

template <class It, class D> static TapkeeOutput run_embed(It begin, It end, D dcb, stichwort::ParametersSet parameters)
{
#ifdef C11_FULL_API
    return tapkee::with(parameters).withDistance(dcb).embedRange(begin, end);
#else
    typedef dummy_kernel_callback<IndexType> K;
    typedef dummy_features_callback<IndexType> F;
    parameters.check();
    parameters.merge(tapkee_internal::defaults);
    DimensionReductionMethod selected = parameters[method];
    void (*progress_function_ptr)(double) = parameters[progress_function];
    bool (*cancel_function_ptr)() = parameters[cancel_function];
    Context context(progress_function_ptr, cancel_function_ptr);
    ImplementationBase<It, K, D, F> base(begin, end, K(), dcb, F(), parameters, context);
#define c11_method_handle(X)                                                                                           \
    if (selected == X)                                                                                                 \
    {                                                                                                                  \
        auto implementation = X##Implementation<It, K, D, F>(base);                                                    \
        implementation.validate();                                                                                     \
        return implementation.embed();                                                                                 \
    }
    c11_method_handle(MultidimensionalScaling);
    c11_method_handle(LandmarkMultidimensionalScaling);
    c11_method_handle(Isomap);
    c11_method_handle(LandmarkIsomap);
#undef c11_method_handle
    return TapkeeOutput();
#endif
}

static std::string clean(std::string s)
{
    for (auto& c : s)
        if (c == ' ' || c == '\n' || c == '=')
            c = '_';
    return s;
}

// ------------------------------------------------------------------ commands
static std::string cmd_sel(std::map<std::string, std::string>& f)
{
    IndexType n = std::stoi(f["n"]);
    double ratio = vh::parse_num(f["ratio"]);
    unsigned seed = std::stoul(f["seed"]);
    std::vector<IndexType> data(n);
    std::iota(data.begin(), data.end(), 0);
    tapkee::verif_shuffle_generator().seed(seed);
    Landmarks lm = select_landmarks_random(data.begin(), data.end(), ratio);
    tapkee::verif_shuffle_generator().seed(seed);
    Landmarks lm2 = select_landmarks_random(data.begin(), data.end(), ratio);
    std::vector<IndexType> perm = shuffled(n, seed);
    return "sel r=" + vh::num(ratio) + " count=" + std::to_string(lm.size()) + " lm=" + show_ints(lm) +
           " perm=" + show_ints(perm) + " replay=" + (lm == lm2 ? "1" : "0");
}

static std::string cmd_tri(std::map<std::string, std::string>& f)
{
    IndexType n = std::stoi(f["n"]);
    IndexType d = std::stoi(f["d"]);
    Landmarks lm = to_index(vh::parse_ints(f["lm"]));
    DenseMatrix dist = parse_mat(f["dist"]);
    DenseMatrix V = parse_mat(f["V"]);
    std::vector<double> lam = vh::parse_nums(f["lam"]);
    std::vector<double> mu = vh::parse_nums(f["mu"]);
    DenseVector lamv(lam.size()), muv(mu.size());
    for (size_t i = 0; i < lam.size(); i++)
        lamv(i) = lam[i];
    for (size_t i = 0; i < mu.size(); i++)
        muv(i) = mu[i];
    std::vector<IndexType> data(n);
    std::iota(data.begin(), data.end(), 0);
    EigendecompositionResult emb(V, lamv);
    matrix_distance cb{&dist};
    DenseMatrix Y = triangulate(data.begin(), data.end(), cb, lm, muv, emb, d);
    return "tri Y=" + show_mat(Y);
}

static std::string cmd_api(std::map<std::string, std::string>& f)
{
    std::string method = f["method"];
    IndexType n = std::stoi(f["n"]);
    IndexType d = std::stoi(f["d"]);
    double ratio = f.count("ratio") ? vh::parse_num(f["ratio"]) : 0.5;
    IndexType k = f.count("k") ? std::stoi(f["k"]) : 5;
    bool randomized = f.count("eig") && f["eig"] == "randomized";
    DenseMatrix dist;
    if (f.count("pts"))
    {
        DenseMatrix P = parse_mat(f["pts"]);
        dist.resize(n, n);
        for (IndexType i = 0; i < n; i++)
            for (IndexType j = 0; j < n; j++)
                dist(i, j) = std::sqrt((P.row(i) - P.row(j)).squaredNorm());
    }
    else
        dist = parse_mat(f["dist"]);
    std::vector<IndexType> data(n);
    std::iota(data.begin(), data.end(), 0);
    bool landmark = (method == "lmds" || method == "lisomap");
    long seed = f.count("seed") ? std::stol(f["seed"]) : 0;
    Landmarks lm;
    if (landmark)
    {
        if (f.count("lmwant"))
        {
            seed = find_seed(n, to_index(vh::parse_ints(f["lmwant"])));
            if (seed < 0)
                return "api noseed";
        }
        tapkee::verif_shuffle_generator().seed((unsigned)seed);
        lm = select_landmarks_random(data.begin(), data.end(), ratio);
    }
    DimensionReductionMethod m = method == "lmds"      ? LandmarkMultidimensionalScaling
                                 : method == "lisomap" ? LandmarkIsomap
                                 : method == "mds"     ? MultidimensionalScaling
                                                       : Isomap;
    std::string head = "api seed=" + std::to_string(seed) + " lm=" + show_ints(lm);
    g_obs.clear();
    std::srand(12345u + (unsigned)seed);
    tapkee::verif_shuffle_generator().seed((unsigned)seed);
    TapkeeOutput out;
    try
    {
        matrix_distance cb{&dist};
        out = run_embed(data.begin(), data.end(), cb,
                        (tapkee::method = m, tapkee::target_dimension = d, tapkee::landmark_ratio = ratio,
                         tapkee::num_neighbors = k, tapkee::neighbors_method = Brute,
                         tapkee::eigen_method = (randomized ? Randomized : Dense)));
    }
    catch (const std::exception& e)
    {
        return head + " nobs=" + std::to_string(g_obs.size()) + " exc=" + clean(e.what());
    }
    std::string s = head + " nobs=" + std::to_string(g_obs.size());
    if (!g_obs.empty())
    {
        const Observed& o = g_obs.back();
        DenseVector sq(o.lam.size()), qq(o.lam.size());
        for (IndexType i = 0; i < o.lam.size(); i++)
        {
            sq(i) = std::sqrt(std::max<ScalarType>(o.lam(i), 0.0)); // what the methods multiply by (F-SQRT-NEG)
            qq(i) = std::sqrt(std::sqrt(o.lam(i)));
        }
        s += " B=" + show_mat(o.lhs) + " V=" + show_mat(o.V) + " lam=" + show_vec(o.lam) + " s=" + show_vec(sq) +
             " q=" + show_vec(qq);
        // diagnostic (hypothesis screening only): the full spectrum of the symmetric part of a square solver input,
        // gap = lambda_d - lambda_{d+1} (largest first), norm = max |lambda|, neg = most negative eigenvalue
        if (o.lhs.rows() == o.lhs.cols() && o.lhs.rows() > 0 && o.lhs.allFinite())
        {
            DenseMatrix sym = (o.lhs + o.lhs.transpose()) / 2.0;
            Eigen::SelfAdjointEigenSolver<DenseMatrix> es(sym, Eigen::EigenvaluesOnly);
            DenseVector ev = es.eigenvalues();
            IndexType nn = ev.size();
            double gap = (d < nn) ? ev(nn - d) - ev(nn - d - 1) : (d == nn ? std::fabs(ev(0)) : 0.0);
            s += " gap=" + vh::num(gap) + " norm=" + vh::num(ev.cwiseAbs().maxCoeff()) + " neg=" + vh::num(ev(0)) +
                 " lamd=" + vh::num(d <= nn ? ev(nn - d) : 0.0);
        }
    }
    if (method == "lisomap" || method == "isomap")
    {
        // the geodesic stage repeated with the same arguments (its correctness is C04's; C11 needs its output to
        // state what the centring / squaring / post-processing glue must produce)
        matrix_distance cb{&dist};
        PlainDistance<std::vector<IndexType>::iterator, matrix_distance> pd(cb);
        Neighbors nb = find_neighbors(Brute, data.begin(), data.end(), pd, k, true);
        DenseMatrix G = (method == "lisomap")
                            ? compute_shortest_distances_matrix(data.begin(), data.end(), lm, nb, cb)
                            : DenseMatrix(compute_shortest_distances_matrix(data.begin(), data.end(), nb, cb));
        s += " G=" + show_mat(G);
    }
    if (f.count("pts"))
        s += " D=" + show_mat(dist);
    s += " Y=" + show_mat(out.embedding);
    return s;
}

static std::string cmd_sweep(std::map<std::string, std::string>& f)
{
    long num = std::stol(f["num"]);
    long lo = std::stol(f["lo"]), hi = std::stol(f["hi"]);
    std::string s = "sweep bad=";
    bool first = true;
    for (long N = lo; N <= hi; N++)
    {
        std::vector<IndexType>::size_type size = (std::vector<IndexType>::size_type)N;
        ScalarType ratio = (double)num / N;
        IndexType count = static_cast<IndexType>(size * ratio); // the expression in select_landmarks_random
        if (count != num)
        {
            s += (first ? "" : ",") + std::to_string(N) + ":" + std::to_string(count);
            first = false;
        }
    }
    if (first)
        s += "-";
    return s;
}

int main()
{
    verif_eigen_observer::get() = observer;
    tapkee::Logging::instance().disable_info();
    std::string line;
    while (std::getline(std::cin, line))
    {
        if (line.empty())
            continue;
        vh::case_alarm(300); // a hang is an observation (abort:timeout) for exactly this case
        auto f = vh::fields(line);
        std::string out;
        if (line.rfind("sel ", 0) == 0)
            out = cmd_sel(f);
        else if (line.rfind("tri ", 0) == 0)
            out = cmd_tri(f);
        else if (line.rfind("api ", 0) == 0)
            out = cmd_api(f);
        else if (line.rfind("sweep ", 0) == 0)
            out = cmd_sweep(f);
        else
            out = "bad-case";
        std::cout << out << std::endl;
    }
    return 0;
}
