// C11 correspondence harness: landmark selection, triangulation and the landmark methods through the public API.
//
// One input line -> one output line (DESIGN §11).  Numbers cross the boundary as exact dyadics (vh::num).
//
//   sel n=16 ratio=3/16 seed=5
//     -> sel r=<ratio as exact dyadic> count=<size> lm=<a,b,..> perm=<what tapkee::random_shuffle does to 0..n-1 under
//        that seed> replay=<1 iff a second call under the same seed returns the same landmarks>
//   tri n=6 d=2 lm=4,1,3 dist=<n x n> V=<n_l x d> lam=<d> mu=<n_l>
//     -> tri Y=<n x d>            tapkee_internal::triangulate called directly
//   api method=lmds|lisomap|mds|isomap n=8 d=2 [ratio=1/2] [k=4] [eig=dense|randomized] (seed=7 | lmwant=3,0,5)
//       (pts=<n x D integers> | dist=<n x n>)
//     -> api seed=<s> lm=<..> nobs=<#eigendecompositions> B=<matrix handed to the solver> V=<n x d> lam=<d> s=<sqrt lam>
//        Y=<embedding>      or   api seed=<s> lm=<..> exc=<exception text>
//     lm is what select_landmarks_random returns under the seed that the public call then runs under.
//   every one of the three commands above accepts  sel=<n ids> [alldata=<all rows>|nan]  (the protocol fields of the
//     spectral harnesses): the library is then handed the NON-IDENTITY range `sel` (a shuffled subset of a larger id
//     space, decoy ids in between) instead of 0..n-1; the callbacks are defined on ids.  `dist=`/`pts=` stay the data
//     of the selected samples in range order (what the model sees): callback(sel[a], sel[b]) = dist(a, b).  `alldata`
//     = the callback matrix (with dist=) / the points (with pts=) of ALL ids, `nan` = every non-sample entry is NaN.
//     Every callback evaluation on an id that is not an element of the range is counted: the output line then ends
//     in  foreign=<count>:<smallest such id>  (a position used as an element, or the other way round).
//   sweep num=3 lo=1 hi=1000000
//     -> sweep bad=<N:count,...>   every N in [lo,hi] for which static_cast<IndexType>(size_t(N) * (num / N)) != num
//        (the expression of select_landmarks_random; `real=` re-checks each listed N and a stride sample on the real
//        function)
// Compile-time note: `tapkee::embed` instantiates all 20 methods (2 min under ASan+UBSan).  By default this harness
// therefore repeats the body of tapkee::embed / DynamicImplementation::embedUsing for the four methods it needs
// (parameters.check, merge(defaults), base constructor, validate(), embed()); with -DC11_FULL_API the very same cases go
// through tapkee::with(..).withDistance(..).embedRange(..) (a sample of every family in quick, 250 cases in thorough: both builds must print identical lines).
#ifdef C11_FULL_API
#include <tapkee/tapkee.hpp>
#else
#include <tapkee/defines.hpp>
#include <tapkee/callbacks/dummy_callbacks.hpp>
#include <tapkee/methods/base.hpp>
#include <tapkee/routines/eigendecomposition.hpp> // (methods/all.hpp gets these two through locally_linear.hpp)
#include <tapkee/utils/matrix.hpp>
#include <tapkee/methods/isomap.hpp>
#include <tapkee/methods/landmark_isomap.hpp>
#include <tapkee/methods/landmark_multidimensional_scaling.hpp>
#include <tapkee/methods/multidimensional_scaling.hpp>
#include <tapkee/parameters/context.hpp>
#include <tapkee/parameters/defaults.hpp>
#endif

#include <atomic>
#include <limits>
#include <numeric>
#include <set>

#include "vcommon.hpp"

using namespace tapkee;
using namespace tapkee::tapkee_internal;

static std::string show_ints(const std::vector<IndexType>& v)
{
    std::string s;
    for (size_t i = 0; i < v.size(); i++)
        s += (i ? "," : "") + std::to_string(v[i]);
    return s.empty() ? "-" : s;
}

static std::string show_mat(const DenseMatrix& m)
{
    std::string s;
    for (IndexType i = 0; i < m.rows(); i++)
    {
        if (i)
            s += ";";
        for (IndexType j = 0; j < m.cols(); j++)
            s += (j ? "," : "") + vh::num(m(i, j));
    }
    return s.empty() ? "-" : s;
}

static std::string show_vec(const DenseVector& v)
{
    std::string s;
    for (IndexType i = 0; i < v.size(); i++)
        s += (i ? "," : "") + vh::num(v(i));
    return s.empty() ? "-" : s;
}

static DenseMatrix parse_mat(const std::string& s)
{
    auto rows = vh::split(s, ';');
    std::vector<std::vector<double>> r;
    for (auto& row : rows)
    {
        std::vector<double> v;
        for (auto& t : vh::split(row, ','))
            v.push_back(t == "nan" ? std::numeric_limits<double>::quiet_NaN() : vh::parse_num(t)); // decoy entries
        r.push_back(v);
    }
    DenseMatrix m(r.size(), r.empty() ? 0 : r[0].size());
    for (size_t i = 0; i < r.size(); i++)
        for (size_t j = 0; j < r[i].size(); j++)
            m(i, j) = r[i][j];
    return m;
}

static std::vector<IndexType> to_index(const std::vector<long>& v)
{
    return std::vector<IndexType>(v.begin(), v.end());
}

// ------------------------------------------------------------------ seeds
static std::vector<IndexType> shuffled(IndexType n, unsigned seed)
{
    std::vector<IndexType> v(n);
    std::iota(v.begin(), v.end(), 0);
    tapkee::verif_shuffle_generator().seed(seed);
    tapkee::random_shuffle(v.begin(), v.end());
    return v;
}

// first seed under which tapkee::random_shuffle(0..n-1) starts with `want`; found by scanning seeds 0,1,2,..
static long find_seed(IndexType n, const std::vector<IndexType>& want)
{
    static std::map<std::pair<IndexType, size_t>, std::pair<unsigned, std::map<std::vector<IndexType>, unsigned>>> cache;
    auto& c = cache[std::make_pair(n, want.size())];
    auto it = c.second.find(want);
    if (it != c.second.end())
        return it->second;
    const unsigned cap = 3000000;
    while (c.first < cap)
    {
        unsigned s = c.first++;
        std::vector<IndexType> p = shuffled(n, s);
        p.resize(want.size());
        c.second.emplace(p, s);
        if (p == want)
            return s;
    }
    return -1;
}

// ------------------------------------------------------------------ eigen observer
struct Observed
{
    DenseMatrix lhs;
    DenseMatrix V;
    DenseVector lam;
    IndexType d;
    unsigned skip;
    bool smallest;
};
static std::vector<Observed> g_obs;
static void observer(const DenseMatrix& lhs, const DenseMatrix&, const EigendecompositionResult& res, IndexType d,
                     unsigned int skip, bool smallest, bool)
{
    g_obs.push_back(Observed{lhs, res.first, res.second, d, skip, smallest});
}

// callback evaluations on ids that are not elements of the range handed to the library (count, smallest such id)
static std::atomic<long> g_foreign{0};
static std::atomic<long> g_foreign_min{-1};
static void note_foreign(long id)
{
    g_foreign++;
    long cur = g_foreign_min.load();
    while ((cur < 0 || id < cur) && !g_foreign_min.compare_exchange_weak(cur, id))
    {
    }
}
static std::string foreign_token()
{
    return g_foreign.load() ? " foreign=" + std::to_string(g_foreign.load()) + ":" + std::to_string(g_foreign_min.load())
                            : "";
}

struct matrix_distance
{
    const DenseMatrix* m;
    const std::vector<char>* member; // which ids are elements of the range (null: every id of the matrix)
    bool sample(IndexType a) const
    {
        return a >= 0 && a < m->rows() && (!member || (*member)[a]);
    }
    ScalarType distance(IndexType a, IndexType b) const
    {
        if (!sample(a))
            note_foreign(a);
        if (!sample(b))
            note_foreign(b);
        if (a < 0 || b < 0 || a >= m->rows() || b >= m->cols())
            return std::numeric_limits<ScalarType>::quiet_NaN();
        return (*m)(a, b);
    }
};

// the range handed to the library and the callback matrix over ALL ids: 0..n-1 and `dist` itself, or `sel=` and a matrix
// that holds dist(a, b) at (sel[a], sel[b]) and the decoys of `alldata=` everywhere else
struct IdRange
{
    std::vector<IndexType> ids;
    std::vector<char> member;
    DenseMatrix all;
    bool identity;
    matrix_distance callback() const
    {
        return matrix_distance{&all, identity ? nullptr : &member};
    }
};
static DenseMatrix euclid(const DenseMatrix& P)
{
    DenseMatrix dist(P.rows(), P.rows());
    for (IndexType i = 0; i < P.rows(); i++)
        for (IndexType j = 0; j < P.rows(); j++)
            dist(i, j) = std::sqrt((P.row(i) - P.row(j)).squaredNorm());
    return dist;
}
static IdRange id_range(std::map<std::string, std::string>& f, IndexType n, const DenseMatrix* dist, bool points)
{
    IdRange r;
    r.identity = !f.count("sel");
    g_foreign = 0;
    g_foreign_min = -1;
    if (r.identity)
    {
        r.ids.resize(n);
        std::iota(r.ids.begin(), r.ids.end(), 0);
        if (dist)
            r.all = *dist;
        return r;
    }
    r.ids = to_index(vh::parse_ints(f["sel"]));
    IndexType total = *std::max_element(r.ids.begin(), r.ids.end()) + 1;
    std::string a = f.count("alldata") ? f["alldata"] : "nan";
    DenseMatrix A;
    if (a != "nan")
    {
        A = parse_mat(a);
        if (points)
            A = euclid(A);
        total = std::max<IndexType>(total, A.rows());
    }
    r.all = DenseMatrix::Constant(total, total, std::numeric_limits<double>::quiet_NaN());
    if (A.size())
        r.all.topLeftCorner(A.rows(), A.cols()) = A;
    r.member.assign(total, 0);
    for (IndexType id : r.ids)
        r.member[id] = 1;
    if (dist) // the samples' own values, bit for bit what the identity run of the same case uses
        for (size_t x = 0; x < r.ids.size(); x++)
            for (size_t y = 0; y < r.ids.size(); y++)
                r.all(r.ids[x], r.ids[y]) = (*dist)(x, y);
    return r;
}

template <class It, class D> static TapkeeOutput run_embed(It begin, It end, D dcb, stichwort::ParametersSet parameters)
{
#ifdef C11_FULL_API
    return tapkee::with(parameters).withDistance(dcb).embedRange(begin, end);
#else
    typedef dummy_kernel_callback<IndexType> K;
    typedef dummy_features_callback<IndexType> F;
    parameters.check();
    parameters.merge(tapkee_internal::defaults);
    DimensionReductionMethod selected = parameters[method];
    void (*progress_function_ptr)(double) = parameters[progress_function];
    bool (*cancel_function_ptr)() = parameters[cancel_function];
    Context context(progress_function_ptr, cancel_function_ptr);
    ImplementationBase<It, K, D, F> base(begin, end, K(), dcb, F(), parameters, context);
#define c11_method_handle(X)                                                                                           \
    if (selected == X)                                                                                                 \
    {                                                                                                                  \
        auto implementation = X##Implementation<It, K, D, F>(base);                                                    \
        implementation.validate();                                                                                     \
        return implementation.embed();                                                                                 \
    }
    c11_method_handle(MultidimensionalScaling);
    c11_method_handle(LandmarkMultidimensionalScaling);
    c11_method_handle(Isomap);
    c11_method_handle(LandmarkIsomap);
#undef c11_method_handle
    return TapkeeOutput();
#endif
}

static std::string clean(std::string s)
{
    for (auto& c : s)
        if (c == ' ' || c == '\n' || c == '=')
            c = '_';
    return s;
}

// ------------------------------------------------------------------ commands
static std::string cmd_sel(std::map<std::string, std::string>& f)
{
    IndexType n = std::stoi(f["n"]);
    double ratio = vh::parse_num(f["ratio"]);
    unsigned seed = std::stoul(f["seed"]);
    std::vector<IndexType> data = id_range(f, n, nullptr, false).ids;
    tapkee::verif_shuffle_generator().seed(seed);
    Landmarks lm = select_landmarks_random(data.begin(), data.end(), ratio);
    tapkee::verif_shuffle_generator().seed(seed);
    Landmarks lm2 = select_landmarks_random(data.begin(), data.end(), ratio);
    std::vector<IndexType> perm = shuffled(n, seed);
    return "sel r=" + vh::num(ratio) + " count=" + std::to_string(lm.size()) + " lm=" + show_ints(lm) +
           " perm=" + show_ints(perm) + " replay=" + (lm == lm2 ? "1" : "0");
}

static std::string cmd_tri(std::map<std::string, std::string>& f)
{
    IndexType n = std::stoi(f["n"]);
    IndexType d = std::stoi(f["d"]);
    Landmarks lm = to_index(vh::parse_ints(f["lm"]));
    DenseMatrix dist = parse_mat(f["dist"]);
    DenseMatrix V = parse_mat(f["V"]);
    std::vector<double> lam = vh::parse_nums(f["lam"]);
    std::vector<double> mu = vh::parse_nums(f["mu"]);
    DenseVector lamv(lam.size()), muv(mu.size());
    for (size_t i = 0; i < lam.size(); i++)
        lamv(i) = lam[i];
    for (size_t i = 0; i < mu.size(); i++)
        muv(i) = mu[i];
    IdRange range = id_range(f, n, &dist, false);
    std::vector<IndexType>& data = range.ids;
    EigendecompositionResult emb(V, lamv);
    matrix_distance cb = range.callback();
    DenseMatrix Y = triangulate(data.begin(), data.end(), cb, lm, muv, emb, d);
    return "tri Y=" + show_mat(Y) + foreign_token();
}

static std::string cmd_api(std::map<std::string, std::string>& f)
{
    std::string method = f["method"];
    IndexType n = std::stoi(f["n"]);
    IndexType d = std::stoi(f["d"]);
    double ratio = f.count("ratio") ? vh::parse_num(f["ratio"]) : 0.5;
    IndexType k = f.count("k") ? std::stoi(f["k"]) : 5;
    bool randomized = f.count("eig") && f["eig"] == "randomized";
    DenseMatrix dist;
    if (f.count("pts"))
        dist = euclid(parse_mat(f["pts"]));
    else
        dist = parse_mat(f["dist"]);
    IdRange range = id_range(f, n, &dist, f.count("pts") > 0);
    std::vector<IndexType>& data = range.ids;
    bool landmark = (method == "lmds" || method == "lisomap");
    long seed = f.count("seed") ? std::stol(f["seed"]) : 0;
    Landmarks lm;
    if (landmark)
    {
        if (f.count("lmwant"))
        {
            seed = find_seed(n, to_index(vh::parse_ints(f["lmwant"])));
            if (seed < 0)
                return "api noseed";
        }
        tapkee::verif_shuffle_generator().seed((unsigned)seed);
        lm = select_landmarks_random(data.begin(), data.end(), ratio);
    }
    DimensionReductionMethod m = method == "lmds"      ? LandmarkMultidimensionalScaling
                                 : method == "lisomap" ? LandmarkIsomap
                                 : method == "mds"     ? MultidimensionalScaling
                                                       : Isomap;
    std::string head = "api seed=" + std::to_string(seed) + " lm=" + show_ints(lm);
    g_obs.clear();
    std::srand(12345u + (unsigned)seed);
    tapkee::verif_shuffle_generator().seed((unsigned)seed);
    TapkeeOutput out;
    try
    {
        matrix_distance cb = range.callback();
        out = run_embed(data.begin(), data.end(), cb,
                        (tapkee::method = m, tapkee::target_dimension = d, tapkee::landmark_ratio = ratio,
                         tapkee::num_neighbors = k, tapkee::neighbors_method = Brute,
                         tapkee::eigen_method = (randomized ? Randomized : Dense)));
    }
    catch (const std::exception& e)
    {
        return head + " nobs=" + std::to_string(g_obs.size()) + " exc=" + clean(e.what()) + foreign_token();
    }
    std::string s = head + " nobs=" + std::to_string(g_obs.size());
    if (!g_obs.empty())
    {
        const Observed& o = g_obs.back();
        DenseVector sq(o.lam.size()), qq(o.lam.size());
        for (IndexType i = 0; i < o.lam.size(); i++)
        {
            sq(i) = std::sqrt(std::max<ScalarType>(o.lam(i), 0.0)); // what the methods multiply by (F-SQRT-NEG)
            qq(i) = std::sqrt(std::sqrt(o.lam(i)));
        }
        s += " B=" + show_mat(o.lhs) + " V=" + show_mat(o.V) + " lam=" + show_vec(o.lam) + " s=" + show_vec(sq) +
             " q=" + show_vec(qq);
        // diagnostic (hypothesis screening only): the full spectrum of the symmetric part of a square solver input,
        // gap = lambda_d - lambda_{d+1} (largest first), norm = max |lambda|, neg = most negative eigenvalue
        if (o.lhs.rows() == o.lhs.cols() && o.lhs.rows() > 0 && o.lhs.allFinite())
        {
            DenseMatrix sym = (o.lhs + o.lhs.transpose()) / 2.0;
            Eigen::SelfAdjointEigenSolver<DenseMatrix> es(sym, Eigen::EigenvaluesOnly);
            DenseVector ev = es.eigenvalues();
            IndexType nn = ev.size();
            double gap = (d < nn) ? ev(nn - d) - ev(nn - d - 1) : (d == nn ? std::fabs(ev(0)) : 0.0);
            s += " gap=" + vh::num(gap) + " norm=" + vh::num(ev.cwiseAbs().maxCoeff()) + " neg=" + vh::num(ev(0)) +
                 " lamd=" + vh::num(d <= nn ? ev(nn - d) : 0.0);
        }
    }
    if (method == "lisomap" || method == "isomap")
    {
        // the geodesic stage repeated with the same arguments (its correctness is C04's; C11 needs its output to
        // state what the centring / squaring / post-processing glue must produce)
        matrix_distance cb = range.callback();
        PlainDistance<std::vector<IndexType>::iterator, matrix_distance> pd(cb);
        Neighbors nb = find_neighbors(Brute, data.begin(), data.end(), pd, k, true);
        DenseMatrix full = compute_shortest_distances_matrix(data.begin(), data.end(), nb, cb);
        DenseMatrix G = (method == "lisomap")
                            ? compute_shortest_distances_matrix(data.begin(), data.end(), lm, nb, cb)
                            : full;
        s += " G=" + show_mat(G);
        if (method == "lisomap")
        {
            // reference for the landmark overload: row lm[a] of what the non-landmark overload computes from the same graph
            DenseMatrix ref(lm.size(), full.cols());
            for (size_t a = 0; a < lm.size(); a++)
                ref.row(a) = full.row(lm[a]);
            s += " Gref=" + (ref == G ? std::string("same") : show_mat(ref));
        }
    }
    if (f.count("pts"))
        s += " D=" + show_mat(dist);
    s += " Y=" + show_mat(out.embedding) + foreign_token();
    return s;
}

static std::string cmd_sweep(std::map<std::string, std::string>& f)
{
    long num = std::stol(f["num"]);
    long lo = std::stol(f["lo"]), hi = std::stol(f["hi"]);
    std::string s = "sweep bad=";
    bool first = true;
    for (long N = lo; N <= hi; N++)
    {
        std::vector<IndexType>::size_type size = (std::vector<IndexType>::size_type)N;
        ScalarType ratio = (double)num / N;
        IndexType count = static_cast<IndexType>(size * ratio); // the expression in select_landmarks_random
        if (count != num)
        {
            s += (first ? "" : ",") + std::to_string(N) + ":" + std::to_string(count);
            first = false;
        }
    }
    if (first)
        s += "-";
    return s;
}

int main()
{
    verif_eigen_observer::get() = observer;
    tapkee::Logging::instance().disable_info();
    std::string line;
    while (std::getline(std::cin, line))
    {
        if (line.empty())
            continue;
        vh::case_alarm(300); // a hang is an observation (abort:timeout) for exactly this case
        auto f = vh::fields(line);
        std::string out;
        if (line.rfind("sel ", 0) == 0)
            out = cmd_sel(f);
        else if (line.rfind("tri ", 0) == 0)
            out = cmd_tri(f);
        else if (line.rfind("api ", 0) == 0)
            out = cmd_api(f);
        else if (line.rfind("sweep ", 0) == 0)
            out = cmd_sweep(f);
        else
            out = "bad-case";
        std::cout << out << std::endl;
    }
    return 0;
}
