// C15 differential harness: every OpenMP-parallel routine of tapkee, run in-process with a chosen thread count.
//
// in : omp r=<routine> T=<threads, 0 = as OMP_NUM_THREADS says> N=<n> D=<dim> k=<neighbours> d=<target dim> seed=<s> reps=<R> [L=<landmarks>]
//          [dump=1] [trace=1] [asym=1: asymmetric distance callback] [m=<method>] [w=<kernel width num>]
//      routines: dist | distl | geo | geol | wlin | wtan | whes | diff | tri | cli | emb
// out: ok thr=<threads that ran iterations> h=<hash of the result bits, one per repetition>
//          [V=<hash>@<values>|...]   full result for every distinct hash (dense: rows `a,b;c,d`, sparse: `r:c:v;...`;
//                                    emb: embedding rows) -- exact dyadics (vh::num)
//          [P=<hash>@<values>|...]   emb only: the matrix handed to the eigensolver (observer hook)
//          [W=r:c:a;...]             trace=1: which worksharing iteration `a` produced entry (r,c) (decoded from coded
//                                    callback values; geo/geol: from the position of the zero in the row), c = * for a row
//          [nb=a,b;c,d;...]          trace=1, weight matrices: the neighbour lists (the stored pattern of V must be the
//                                    union of the triplet blocks of the iterations the table lists)
//          [calls=a:b;...]           trace=1: the (first, second) argument pairs the callback was invoked with
//      or  exc:<what>
// The input data are derived from `seed` by SplitMix64 (coordinates k/1024 in [-4,4)), so a case is its parameters.
// Two binaries are built from this file: the routine harness (default; ASan+UBSan) and, with -DC15_EMB, the public-API
// harness (routine `emb` only; instantiating every method through tapkee::embed takes 45 s even unsanitised).
#ifdef C15_EMB
#include <tapkee/tapkee.hpp>
#else
#include <tapkee/defines.hpp>
#include <tapkee/utils/logging.hpp>
#include <tapkee/utils/naming.hpp>
#endif

#include <tapkee/routines/diffusion_maps.hpp>
#include <tapkee/routines/isomap.hpp>
#include <tapkee/routines/landmarks.hpp>
#include <tapkee/routines/locally_linear.hpp>
#include <tapkee/routines/multidimensional_scaling.hpp>

#include <cli/util.hpp>

#include <omp.h>

#include <algorithm>
#include <set>

#include "vcommon.hpp"

using namespace tapkee;
using namespace tapkee::tapkee_internal;

namespace
{
struct Rng
{
    uint64_t s;
    uint64_t next()
    {
        s += 0x9E3779B97F4A7C15ull;
        uint64_t z = s;
        z = (z ^ (z >> 30)) * 0xBF58476D1CE4E5B9ull;
        z = (z ^ (z >> 27)) * 0x94D049BB133111EBull;
        return z ^ (z >> 31);
    }
    double coord()
    {
        return ((double)(long)(next() % 8192) - 4096.0) / 1024.0;
    }
};

const int MAXT = 64;
struct ThreadSeen
{
    char seen[MAXT * 64];
    void reset() { std::fill(seen, seen + MAXT * 64, 0); }
    void mark()
    {
        int t = omp_get_thread_num();
        if (t >= 0 && t < MAXT)
            seen[t * 64] = 1; // one cache line per thread, distinct bytes: no sharing between threads
    }
    int count() const
    {
        int n = 0;
        for (int t = 0; t < MAXT; t++)
            n += seen[t * 64];
        return n;
    }
} g_seen;

// per-thread call logs (trace mode)
struct CallLog
{
    std::vector<std::pair<int, int>> v[MAXT];
    bool on = false;
    void reset()
    {
        for (auto& x : v)
            x.clear();
    }
    void add(int a, int b)
    {
        if (!on)
            return;
        int t = omp_get_thread_num();
        if (t >= 0 && t < MAXT)
            v[t].push_back({a, b});
    }
} g_calls;

struct kernel_cb
{
    const DenseMatrix* X;
    inline ScalarType kernel(IndexType a, IndexType b) const
    {
        g_seen.mark();
        return X->col(a).dot(X->col(b));
    }
};
struct distance_cb
{
    const DenseMatrix* X;
    int coded; // 0: Euclidean; 1: 1 + a*N + b (identifies the call); 2: a + 1 (identifies the first argument)
               // 3: asymmetric (Euclidean + 1/8 when a < b): the order of the arguments is visible in the result
    int N;
    inline ScalarType distance(IndexType a, IndexType b) const
    {
        g_seen.mark();
        g_calls.add(a, b);
        if (coded == 1)
            return 1.0 + (double)a * N + b;
        if (coded == 2)
            return a + 1.0;
        if (coded == 3)
            return (X->col(a) - X->col(b)).norm() + (a < b ? 0.125 : 0.0);
        return (X->col(a) - X->col(b)).norm();
    }
};
struct features_cb
{
    const DenseMatrix* X;
    inline IndexType dimension() const { return static_cast<IndexType>(X->rows()); }
    inline void vector(IndexType i, DenseVector& v) const { v = X->col(i); }
};
struct cli_cb
{
    const DenseMatrix* X;
    int coded, N;
    inline ScalarType operator()(IndexType a, IndexType b) const
    {
        g_seen.mark();
        g_calls.add(a, b);
        if (coded == 1)
            return 1.0 + (double)a * N + b;
        if (coded == 3)
            return (X->col(a) - X->col(b)).norm() + (a < b ? 0.125 : 0.0);
        return (X->col(a) - X->col(b)).norm();
    }
};

uint64_t fnv(const double* p, size_t n, uint64_t h = 1469598103934665603ull)
{
    const unsigned char* b = reinterpret_cast<const unsigned char*>(p);
    for (size_t i = 0; i < n * sizeof(double); i++)
    {
        h ^= b[i];
        h *= 1099511628211ull;
    }
    return h;
}
uint64_t fnv_int(long v, uint64_t h)
{
    for (int i = 0; i < 8; i++)
    {
        h ^= (unsigned char)(v >> (8 * i));
        h *= 1099511628211ull;
    }
    return h;
}

struct Result
{
    uint64_t h;
    std::string text;
};

Result of_dense(const DenseMatrix& M, bool want)
{
    DenseMatrix R = M; // column-major contiguous
    Result r;
    r.h = fnv(R.data(), (size_t)R.size());
    r.h = fnv_int(R.rows(), fnv_int(R.cols(), r.h));
    if (want)
    {
        std::string& out = r.text;
        for (Eigen::Index i = 0; i < M.rows(); i++)
        {
            if (i)
                out += ";";
            for (Eigen::Index j = 0; j < M.cols(); j++)
            {
                if (j)
                    out += ",";
                out += vh::num(M(i, j));
            }
        }
        if (out.empty())
            out = "-";
    }
    return r;
}

Result of_sparse(const SparseWeightMatrix& S, bool want)
{
    Result r;
    r.h = 1469598103934665603ull;
    for (int o = 0; o < S.outerSize(); ++o)
        for (SparseWeightMatrix::InnerIterator it(S, o); it; ++it)
        {
            double v = it.value();
            r.h = fnv(&v, 1, fnv_int(it.row(), fnv_int(it.col(), r.h)));
            if (want)
            {
                if (!r.text.empty())
                    r.text += ";";
                r.text += std::to_string(it.row()) + ":" + std::to_string(it.col()) + ":" + vh::num(v);
            }
        }
    if (want && r.text.empty())
        r.text = "-";
    return r;
}

Neighbors brute_neighbors(const DenseMatrix& X, int k)
{
    int N = (int)X.cols();
    Neighbors nb;
    for (int i = 0; i < N; i++)
    {
        std::vector<std::pair<double, int>> d;
        for (int j = 0; j < N; j++)
            if (j != i)
                d.push_back({(X.col(i) - X.col(j)).squaredNorm(), j});
        std::sort(d.begin(), d.end());
        LocalNeighbors l;
        for (int t = 0; t < k && t < (int)d.size(); t++)
            l.push_back(d[t].second);
        nb.push_back(l);
    }
    return nb;
}

#ifdef C15_EMB
const DimensionReductionMethod* method_of(const std::string& m)
{
    static const std::map<std::string, const DimensionReductionMethod*> table = {
        {"klle", &KernelLocallyLinearEmbedding},
        {"npe", &NeighborhoodPreservingEmbedding},
        {"kltsa", &KernelLocalTangentSpaceAlignment},
        {"lltsa", &LinearLocalTangentSpaceAlignment},
        {"hlle", &HessianLocallyLinearEmbedding},
        {"le", &LaplacianEigenmaps},
        {"lpp", &LocalityPreservingProjections},
        {"dm", &DiffusionMap},
        {"isomap", &Isomap},
        {"lisomap", &LandmarkIsomap},
        {"mds", &MultidimensionalScaling},
        {"lmds", &LandmarkMultidimensionalScaling},
        {"kpca", &KernelPrincipalComponentAnalysis},
        {"pca", &PrincipalComponentAnalysis},
        {"spe", &StochasticProximityEmbedding},
        {"rp", &RandomProjection},
        {"fa", &FactorAnalysis},
        {"tsne", &tDistributedStochasticNeighborEmbedding},
        {"ms", &ManifoldSculpting},
        {"passthru", &PassThru},
    };
    auto it = table.find(m);
    return it == table.end() ? nullptr : it->second;
}

DenseMatrix g_pre;
int g_nobs = 0;
void observer(const DenseMatrix& lhs, const DenseMatrix&, const EigendecompositionResult&, IndexType, unsigned int, bool,
              bool)
{
    g_nobs++;
    g_pre = lhs;
}
#endif

struct null_logger : public LoggerImplementation
{
    void message_info(const std::string&) override {}
    void message_warning(const std::string&) override {}
    void message_debug(const std::string&) override {}
    void message_error(const std::string&) override {}
    void message_benchmark(const std::string&) override {}
};

std::string run_case(std::map<std::string, std::string>& f)
{
    auto geti = [&](const char* k, int dflt) { return f.count(k) ? std::stoi(f[k]) : dflt; };
    std::string r = f["r"];
    int T = geti("T", 1), N = geti("N", 8), D = geti("D", 3), k = geti("k", 4), d = geti("d", 2), reps = geti("reps", 1);
    int L = geti("L", std::max(3, N / 2));
    bool dump = geti("dump", 0) != 0, trace = geti("trace", 0) != 0;
    uint64_t seed = f.count("seed") ? std::stoull(f["seed"]) : 1;
    double width = f.count("w") ? vh::parse_num(f["w"]) : 4.0;

    Rng rng{seed};
    DenseMatrix X(D, N);
    for (int j = 0; j < N; j++)
        for (int i = 0; i < D; i++)
            X(i, j) = rng.coord();
    std::vector<IndexType> idx(N);
    for (int i = 0; i < N; i++)
        idx[i] = i;
    // landmarks: a seed-determined subset in seed-determined order
    Landmarks landmarks;
    {
        std::vector<IndexType> perm = idx;
        for (int i = N - 1; i > 0; i--)
            std::swap(perm[i], perm[rng.next() % (i + 1)]);
        L = std::min(L, N);
        landmarks.assign(perm.begin(), perm.begin() + L);
    }
    kernel_cb kcb{&X};
    distance_cb dcb{&X, 0, N};
    features_cb fcb{&X};
    cli_cb ccb{&X, 0, N};
    bool sparse_out = (r == "wlin" || r == "wtan" || r == "whes");
    bool approx = sparse_out || r == "emb";
    Neighbors nb;
    if (r == "geo" || r == "geol" || sparse_out)
        nb = brute_neighbors(X, k);

    // triangulation inputs (synthetic but fixed by the seed)
    DenseVector lds(L);
    DenseMatrix lemb(L, d);
    DenseVector lev(d);
    for (int i = 0; i < L; i++)
        lds(i) = std::fabs(rng.coord()) + 0.5;
    for (int i = 0; i < L; i++)
        for (int j = 0; j < d; j++)
            lemb(i, j) = rng.coord();
    for (int j = 0; j < d; j++)
        lev(j) = 1.0 + j;

    if (geti("asym", 0))
    {
        dcb.coded = 3;
        ccb.coded = 3;
    }
    if (trace)
    {
        if (r == "dist" || r == "distl" || r == "diff")
            dcb.coded = 1;
        if (r == "cli")
            ccb.coded = 1;
        if (r == "tri")
        {
            dcb.coded = 2;
            lds.setZero();
            lemb.setOnes();
        }
    }

    omp_set_dynamic(0);
    if (T > 0) // T=0: leave the team size to the OMP_NUM_THREADS environment variable
        omp_set_num_threads(T);
    g_seen.reset();
    g_calls.reset();
    g_calls.on = trace;

    std::vector<uint64_t> hashes;
    std::map<uint64_t, std::string> values, pres;
    std::string wtrace;
    for (int rep = 0; rep < reps; rep++)
    {
        Result res;
        bool want = dump || approx;
        DenseMatrix M;
        if (r == "dist")
            M = compute_distance_matrix(idx.begin(), idx.end(), dcb);
        else if (r == "distl")
            M = compute_distance_matrix(idx.begin(), idx.end(), landmarks, dcb);
        else if (r == "geo")
            M = compute_shortest_distances_matrix(idx.begin(), idx.end(), nb, dcb);
        else if (r == "geol")
            M = compute_shortest_distances_matrix(idx.begin(), idx.end(), landmarks, nb, dcb);
        else if (r == "diff")
            M = compute_diffusion_matrix(idx.begin(), idx.end(), dcb, width);
        else if (r == "cli")
            M = matrix_from_callback((IndexType)N, ccb);
        else if (r == "tri")
        {
            EigendecompositionResult le(lemb, lev);
            DenseVector l2 = lds;
            M = triangulate(idx.begin(), idx.end(), dcb, landmarks, l2, le, (IndexType)d);
        }
        else if (r == "wlin")
            res = of_sparse(linear_weight_matrix(idx.begin(), idx.end(), nb, kcb, 1e-3, 1e-3), want);
        else if (r == "wtan")
            res = of_sparse(tangent_weight_matrix(idx.begin(), idx.end(), nb, kcb, (IndexType)d, 1e-3), want);
        else if (r == "whes")
            res = of_sparse(hessian_weight_matrix(idx.begin(), idx.end(), nb, kcb, (IndexType)d), want);
#ifdef C15_EMB
        else if (r == "emb")
        {
            const DimensionReductionMethod* m = method_of(f["m"]);
            if (!m)
                return "bad-method";
            verif_shuffle_generator().seed((unsigned)seed);
            std::srand((unsigned)seed);
            ParametersSet params = (method = *m, neighbors_method = Brute, eigen_method = Dense,
                                    num_neighbors = (IndexType)k, target_dimension = (IndexType)d,
                                    check_connectivity = true, gaussian_kernel_width = (ScalarType)width,
                                    diffusion_map_timesteps = (IndexType)2,
                                    landmark_ratio = (ScalarType)((double)L / N), max_iteration = (IndexType)geti("it", 20),
                                    sne_perplexity = (ScalarType)std::min(3.0, (N - 1) / 3.0 - 0.01),
                                    sne_theta = (ScalarType)0.5);
            g_pre = DenseMatrix();
            g_nobs = 0;
            verif_eigen_observer::get() = observer;
            TapkeeOutput out = tapkee::embed(idx.begin(), idx.end(), kcb, dcb, fcb, params);
            verif_eigen_observer::get() = nullptr;
            res = of_dense(out.embedding, true);
            Result p = of_dense(g_pre, dump);
            res.h = fnv_int((long)(p.h & 0x7fffffffffffffffull), res.h);
            if (dump && !pres.count(res.h))
                pres[res.h] = p.text;
        }
#endif
        else
            return "bad-routine";
        if (!sparse_out && r != "emb")
            res = of_dense(M, want);
        hashes.push_back(res.h);
        if (want && !values.count(res.h))
            values[res.h] = res.text;

        if (trace && rep == 0 && !sparse_out && r != "emb")
        {
            // decode which call produced each entry
            if (r == "dist" || r == "cli" || r == "distl")
            {
                for (Eigen::Index i = 0; i < M.rows(); i++)
                    for (Eigen::Index j = 0; j < M.cols(); j++)
                    {
                        double v = M(i, j);
                        double code = (r == "cli") ? v : std::sqrt(v);
                        long c = (long)std::llround(code) - 1;
                        long a = c / N, b = c % N;
                        bool okc = (r == "cli") ? (code == (double)(c + 1)) : (code * code == v);
                        if (r == "distl")
                        {
                            // arguments are landmark ids: map back to positions in the landmark list
                            long pa = std::find(landmarks.begin(), landmarks.end(), (IndexType)a) - landmarks.begin();
                            long pb = std::find(landmarks.begin(), landmarks.end(), (IndexType)b) - landmarks.begin();
                            a = pa;
                            b = pb;
                        }
                        if (!wtrace.empty())
                            wtrace += ";";
                        wtrace += std::to_string(i) + ":" + std::to_string(j) + ":" + (okc ? std::to_string(a) : "?");
                        (void)b;
                    }
            }
            else if (r == "geo" || r == "geol")
            {
                // row k of the result is the Dijkstra run from the k-th source: its only zero sits in the column of that
                // source (distinct points), which identifies the iteration that produced the row
                for (Eigen::Index i = 0; i < M.rows(); i++)
                {
                    long src = -1, zeros = 0;
                    for (Eigen::Index j = 0; j < M.cols(); j++)
                        if (M(i, j) == 0.0)
                        {
                            src = j;
                            zeros++;
                        }
                    long a = -1;
                    if (zeros == 1)
                        a = (r == "geo") ? src
                                         : (long)(std::find(landmarks.begin(), landmarks.end(), (IndexType)src) - landmarks.begin());
                    if (!wtrace.empty())
                        wtrace += ";";
                    wtrace += std::to_string(i) + ":*:" + (zeros == 1 ? std::to_string(a) : "?");
                }
            }
            else if (r == "tri")
            {
                std::set<IndexType> lm(landmarks.begin(), landmarks.end());
                for (Eigen::Index i = 0; i < M.rows(); i++)
                {
                    if (lm.count((IndexType)i))
                        continue; // rows of landmarks are written before the region
                    // row = -0.5 * L^T * ((a+1)^2 * ones) with L = ones/ev  ->  entry 0 = -0.5 * L * (a+1)^2 / ev(0)
                    double v = M(i, 0);
                    double q = -2.0 * v * lev(0) / (double)L;
                    long a = (long)std::llround(std::sqrt(q)) - 1;
                    if (!wtrace.empty())
                        wtrace += ";";
                    wtrace += std::to_string(i) + ":*:" + std::to_string(a);
                }
            }
        }
    }
    std::ostringstream out;
    out << "ok thr=" << g_seen.count();
#ifdef C15_EMB
    if (r == "emb")
        out << " nobs=" << g_nobs; // eigenproblems seen by the observer hook in the last repetition
#endif
    out << " h=";
    for (size_t i = 0; i < hashes.size(); i++)
        out << (i ? "," : "") << std::hex << hashes[i] << std::dec;
    if (!values.empty())
    {
        out << " V=";
        bool first = true;
        for (auto& kv : values)
        {
            out << (first ? "" : "|") << std::hex << kv.first << std::dec << "@" << kv.second;
            first = false;
        }
    }
    if (!pres.empty())
    {
        out << " P=";
        bool first = true;
        for (auto& kv : pres)
        {
            out << (first ? "" : "|") << std::hex << kv.first << std::dec << "@" << kv.second;
            first = false;
        }
    }
    if (trace && sparse_out)
    {
        // the neighbour lists the routine was given: python predicts from them the block of triplets of every iteration
        out << " nb=";
        for (size_t i = 0; i < nb.size(); i++)
        {
            out << (i ? ";" : "");
            for (size_t j = 0; j < nb[i].size(); j++)
                out << (j ? "," : "") << nb[i][j];
        }
    }
    if (trace)
    {
        if (!wtrace.empty())
            out << " W=" << wtrace;
        std::set<std::pair<int, int>> calls;
        // an iteration (first argument) must be executed by one thread only
        std::map<int, int> owner;
        bool split = false;
        for (int t = 0; t < MAXT; t++)
            for (auto& c : g_calls.v[t])
            {
                calls.insert(c);
                if (owner.count(c.first) && owner[c.first] != t)
                    split = true;
                owner[c.first] = t;
            }
        out << " calls=";
        bool first = true;
        for (auto& c : calls)
        {
            out << (first ? "" : ";") << c.first << ":" << c.second;
            first = false;
        }
        out << " split=" << (split ? 1 : 0);
    }
    return out.str();
}
} // namespace

int main()
{
    Logging::instance().set_logger_impl(new null_logger); // (the singleton deletes its implementation)
    std::string line;
    while (std::getline(std::cin, line))
    {
        if (line.empty())
            continue;
        auto f = vh::fields(line);
        std::string ans;
        try
        {
            ans = run_case(f);
        }
        catch (const std::exception& e)
        {
            ans = std::string("exc:") + typeid(e).name() + ":" + e.what();
            for (auto& c : ans)
                if (c == ' ' || c == '\n')
                    c = '_';
        }
        std::cout << ans << std::endl;
    }
    return 0;
}
