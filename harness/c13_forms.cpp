// C13 correspondence harness: one data set, one parameter list, the embedding computed through every call form.
// in : forms N=12 D=3 seed=5 [off=67108864] kw=method:meth:Isomap,num_neighbors:int:6
// out: <form>=ok:<rows>x<cols>:<v>,<v>,...   |  <form>=throw:<class>      (values as exact dyadics, row-major)
//   -DPART=1  (eigen_kernel_callback, eigen_distance_callback, eigen_features_callback over std::vector<int>):
//             matrix   with(kw).embedUsing(X)
//             kdf … fdk   with(kw).withKernel/withDistance/withFeatures in that order, .embedRange(begin, end)
//             using    … .embedUsing(container)        direct   tapkee::embed(begin, end, k, d, f, kw)
//             matrixrev embedUsing(X with reversed columns)   rangerev  embedRange over the indices N-1..0 into X
//   -DPART=2  precomputed_kernel_callback / precomputed_distance_callback (+ eigen features):
//             pre      matrices filled with the values the eigen callbacks return
//             pregram  kernel matrix = X^T X by a matrix product, distances from it (Gram-level comparison only)
//   -DPART=3  obj      a std::vector of non-index objects (name + own copy of the vector) with hand-written callbacks;
//             cbeq_k / cbeq_d = 1 iff those (textbook) callbacks return bit-identical doubles to the eigen callbacks on every pair
// Before every form: std::srand(seed), verif_shuffle_generator().seed(seed).  Built without -fopenmp (summation
// order must not depend on scheduling; thread-count independence is property C15).
#include <tapkee/tapkee.hpp>
#include <tapkee/callbacks/precomputed_callbacks.hpp>
#include <tapkee/chain_interface.hpp>

#include <cstring>
#include <unistd.h>

#include "front_common.hpp"

#ifndef PART
#define PART 1
#endif

using namespace tapkee;

static std::string matrix_text(const DenseMatrix& m)
{
    std::ostringstream o;
    o << "ok:" << m.rows() << "x" << m.cols() << ":";
    for (IndexType i = 0; i < m.rows(); i++)
        for (IndexType j = 0; j < m.cols(); j++)
            o << ((i || j) ? "," : "") << vh::num(m(i, j));
    return o.str();
}

template <class Fn> static std::string run_form(unsigned seed, Fn fn)
{
    std::srand(seed);
    tapkee::verif_shuffle_generator().seed(seed);
    try
    {
        TapkeeOutput out = fn();
        return matrix_text(out.embedding);
    }
    catch (const tapkee::eigendecomposition_error&)
    {
        return "throw:tapkee::eigendecomposition_error";
    }
    catch (const tapkee::unsupported_method_error&)
    {
        return "throw:tapkee::unsupported_method_error";
    }
    catch (const tapkee::wrong_parameter_error&)
    {
        return "throw:tapkee::wrong_parameter_error";
    }
    catch (const std::exception& e)
    {
        std::string w = e.what();
        for (auto& c : w)
            if (c == ' ')
                c = '_';
        return "throw:other:" + w;
    }
}

struct silent_logger : public LoggerImplementation
{
    void message_info(const std::string&) override {}
    void message_warning(const std::string&) override {}
    void message_error(const std::string&) override {}
    void message_benchmark(const std::string&) override {}
    void message_debug(const std::string&) override {}
};

#if PART == 3
struct Obj
{
    std::string name;
    DenseVector x;
};
// hand-written callbacks on objects: the textbook formulas, written out
struct obj_kernel
{
    ScalarType kernel(const Obj& a, const Obj& b) const
    {
        ScalarType s = 0.0;
        for (IndexType r = 0; r < a.x.size(); ++r)
            s += a.x(r) * b.x(r);
        return s;
    }
};
struct obj_distance
{
    ScalarType distance(const Obj& a, const Obj& b) const
    {
        ScalarType s = 0.0;
        for (IndexType r = 0; r < a.x.size(); ++r)
        {
            ScalarType diff = a.x(r) - b.x(r);
            s += diff * diff;
        }
        return std::sqrt(s);
    }
};
struct obj_features
{
    IndexType dim;
    IndexType dimension() const
    {
        return dim;
    }
    // like a user's callback that fills the vector it is handed element by element: the library must pass a vector
    // of size dimension() ("the callback should put the feature vector ... to the provided vector")
    void vector(const Obj& a, DenseVector& v) const
    {
        if (v.size() != dim)
            throw std::logic_error("features callback was handed a vector of size " + std::to_string(v.size()) +
                                   ", dimension() is " + std::to_string(dim));
        for (IndexType r = 0; r < dim; ++r)
            v(r) = a.x(r);
    }
};
#endif

int main()
{
    int proto = dup(1);
    FILE* out = fdopen(proto, "w");
    if (!freopen("/dev/null", "w", stdout))
        return 3;
    Logging::instance().set_logger_impl(new silent_logger);
    std::string line;
    while (std::getline(std::cin, line))
    {
        if (line.empty())
            continue;
        vh::case_alarm(120); // a hang is an observation (`abort:timeout`), not a blocked run
        auto f = vh::fields(line);
        int N = std::stoi(f["N"]);
        int D = std::stoi(f["D"]);
        unsigned seed = static_cast<unsigned>(std::stoul(f["seed"]));
        const double off = f.count("off") ? vh::parse_num(f["off"]) : 0.0; // common offset of all coordinates
        DenseMatrix X(D, N);
        unsigned s = seed * 2654435761u + 12345u;
        for (int j = 0; j < N; j++)
            for (int i = 0; i < D; i++)
            {
                s = s * 1103515245u + 12345u;
                X(i, j) = off + (static_cast<double>((s >> 16) % 1024) - 512.0) / 8.0;
            }
        std::vector<IndexType> idx(N);
        for (int i = 0; i < N; i++)
            idx[i] = i;
        const std::string kw = f.count("kw") ? f["kw"] : "";
        std::ostringstream o;
        eigen_kernel_callback ek(X);
        eigen_distance_callback ed(X);
        eigen_features_callback ef(X);
#if PART == 1
        o << "matrix=" << run_form(seed, [&] { return tapkee::with(vfront::make_set(kw)).embedUsing(X); });
        o << " kdf=" << run_form(seed, [&] { return tapkee::with(vfront::make_set(kw)).withKernel(ek).withDistance(ed).withFeatures(ef).embedRange(idx.begin(), idx.end()); });
        o << " kfd=" << run_form(seed, [&] { return tapkee::with(vfront::make_set(kw)).withKernel(ek).withFeatures(ef).withDistance(ed).embedRange(idx.begin(), idx.end()); });
        o << " dkf=" << run_form(seed, [&] { return tapkee::with(vfront::make_set(kw)).withDistance(ed).withKernel(ek).withFeatures(ef).embedRange(idx.begin(), idx.end()); });
        o << " dfk=" << run_form(seed, [&] { return tapkee::with(vfront::make_set(kw)).withDistance(ed).withFeatures(ef).withKernel(ek).embedRange(idx.begin(), idx.end()); });
        o << " fkd=" << run_form(seed, [&] { return tapkee::with(vfront::make_set(kw)).withFeatures(ef).withKernel(ek).withDistance(ed).embedRange(idx.begin(), idx.end()); });
        o << " fdk=" << run_form(seed, [&] { return tapkee::with(vfront::make_set(kw)).withFeatures(ef).withDistance(ed).withKernel(ek).embedRange(idx.begin(), idx.end()); });
        o << " using=" << run_form(seed, [&] { return tapkee::with(vfront::make_set(kw)).withKernel(ek).withDistance(ed).withFeatures(ef).embedUsing(idx); });
        o << " direct=" << run_form(seed, [&] { return tapkee::embed(idx.begin(), idx.end(), ek, ed, ef, vfront::make_set(kw)); });
        // a range that is not the identity map: the samples in reverse order, as a range of indices into X and as
        // the matrix with reversed columns - the same callback values at the same positions, hence the same result
        std::vector<IndexType> rev(N);
        DenseMatrix Xrev(D, N);
        for (int i = 0; i < N; i++)
        {
            rev[i] = N - 1 - i;
            Xrev.col(i) = X.col(N - 1 - i);
        }
        o << " matrixrev=" << run_form(seed, [&] { return tapkee::with(vfront::make_set(kw)).embedUsing(Xrev); });
        o << " rangerev=" << run_form(seed, [&] { return tapkee::with(vfront::make_set(kw)).withKernel(ek).withDistance(ed).withFeatures(ef).embedRange(rev.begin(), rev.end()); });
#elif PART == 2
        DenseMatrix Kp(N, N), Dp(N, N);
        for (int i = 0; i < N; i++)
            for (int j = 0; j < N; j++)
            {
                Kp(i, j) = ek.kernel(i, j);
                Dp(i, j) = ed.distance(i, j);
            }
        precomputed_kernel_callback pk(Kp);
        precomputed_distance_callback pd(Dp);
        o << "pre=" << run_form(seed, [&] { return tapkee::with(vfront::make_set(kw)).withKernel(pk).withDistance(pd).withFeatures(ef).embedRange(idx.begin(), idx.end()); });
        DenseMatrix Kg = X.transpose() * X, Dg(N, N);
        for (int i = 0; i < N; i++)
            for (int j = 0; j < N; j++)
            {
                double q = Kg(i, i) - 2 * Kg(i, j) + Kg(j, j);
                Dg(i, j) = q > 0 ? std::sqrt(q) : 0.0;
            }
        precomputed_kernel_callback gk(Kg);
        precomputed_distance_callback gd(Dg);
        o << " pregram=" << run_form(seed, [&] { return tapkee::with(vfront::make_set(kw)).withDistance(gd).withKernel(gk).withFeatures(ef).embedRange(idx.begin(), idx.end()); });
#elif PART == 3
        std::vector<Obj> objs;
        for (int i = 0; i < N; i++)
            objs.push_back(Obj{"sample-" + std::to_string(1000 - 7 * i), DenseVector(X.col(i))});
        obj_kernel okc;
        obj_distance odc;
        obj_features ofc{static_cast<IndexType>(D)};
        bool same_k = true, same_d = true;
        for (int i = 0; i < N; i++)
            for (int j = 0; j < N; j++)
            {
                double a = okc.kernel(objs[i], objs[j]), b = ek.kernel(i, j);
                double c = odc.distance(objs[i], objs[j]), d = ed.distance(i, j);
                same_k = same_k && std::memcmp(&a, &b, sizeof a) == 0;
                same_d = same_d && std::memcmp(&c, &d, sizeof c) == 0;
            }
        o << "cbeq_k=" << (same_k ? 1 : 0) << " cbeq_d=" << (same_d ? 1 : 0);
        o << " obj=" << run_form(seed, [&] { return tapkee::with(vfront::make_set(kw)).withFeatures(ofc).withDistance(odc).withKernel(okc).embedRange(objs.begin(), objs.end()); });
        o << " objusing=" << run_form(seed, [&] { return tapkee::with(vfront::make_set(kw)).withKernel(okc).withDistance(odc).withFeatures(ofc).embedUsing(objs); });
#endif
        fprintf(out, "%s\n", o.str().c_str());
        fflush(out);
    }
    return 0;
}
