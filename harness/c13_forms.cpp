// C13 correspondence harness: one data set, one parameter list, the embedding computed through every call form.
// in : forms N=12 D=3 seed=5 [off=67108864] kw=method:meth:Isomap,num_neighbors:int:6
// out: <form>=ok:<rows>x<cols>:<v>,<v>,...   |  <form>=throw:<class>      (values as exact dyadics, row-major)
//   -DPART=1  (eigen_kernel_callback, eigen_distance_callback, eigen_features_callback over std::vector<int>):
//             matrix   with(kw).embedUsing(X)
//             kdf … fdk   with(kw).withKernel/withDistance/withFeatures in that order, .embedRange(begin, end)
//             using    … .embedUsing(container)        direct   tapkee::embed(begin, end, k, d, f, kw)
//             matrixrev embedUsing(X with reversed columns)   rangerev  embedRange over the indices N-1..0 into X
//   -DPART=2  precomputed_kernel_callback / precomputed_distance_callback (+ eigen features):
//             pre      matrices filled with the values the eigen callbacks return
//             pregram  kernel matrix = X^T X by a matrix product, distances from it (Gram-level comparison only)
//   -DPART=3  obj      a std::vector of non-index objects (name + own copy of the vector) with hand-written callbacks;
//             cbeq_k / cbeq_d = 1 iff those (textbook) callbacks return bit-identical doubles to the eigen callbacks on every pair
//             pst pst2 pfn pcp   the ParametersInitializedState kept in a variable (built from a temporary ParametersSet:
//             in place / by a helper function that has returned / heap original copied and deleted), the stack scribbled
//             over, then .embedUsing(X) in a later statement (pst2: the same state finished a second time)
//   -DPART=4 -DCB_MASK=m  stored-state forms (bit0 kernel, bit1 distance, bit2 features; callbacks = owning_cb, a callback
//             that owns a copy of the data, is created as a TEMPORARY in the argument expression, poisons itself on
//             destruction and records which of its members is invoked on which object id).  For every attachment
//             order <o> of the subset (field orders3=kdf,fdk restricts those of three callbacks), names prefixed S<m>_:
//             one_<o>   the chain as one expression
//             st_<o> st2_<o> st3_<o>  every intermediate state (with(..) included) in an `auto` variable, the stack
//                       scribbled over between the statements; the final state finished by embedRange, finished AGAIN by
//                       embedUsing(container); a second final state attached to the same stored predecessor and finished
//             fn_<o>    every state returned by a helper function that has returned (its temporaries' frames are reused)
//             cp_<o>    every state created on the heap, copied, the original deleted, the chain continued from the copy
//             <name>.r=k1,d2,f3   which member was invoked on which callback id (ids = position in the chain, 1-based)
// Before every form: std::srand(seed), verif_shuffle_generator().seed(seed).  Built without -fopenmp (summation
// order must not depend on scheduling; thread-count independence is property C15).
#include <tapkee/tapkee.hpp>
#include <tapkee/callbacks/precomputed_callbacks.hpp>
#include <tapkee/chain_interface.hpp>

#include <algorithm>
#include <cstring>
#include <unistd.h>

#include "front_common.hpp"

#ifndef PART
#define PART 1
#endif

using namespace tapkee;

static std::string matrix_text(const DenseMatrix& m)
{
    std::ostringstream o;
    o << "ok:" << m.rows() << "x" << m.cols() << ":";
    for (IndexType i = 0; i < m.rows(); i++)
        for (IndexType j = 0; j < m.cols(); j++)
            o << ((i || j) ? "," : "") << vh::num(m(i, j));
    return o.str();
}

template <class Fn> static std::string run_form(unsigned seed, Fn fn)
{
    std::srand(seed);
    tapkee::verif_shuffle_generator().seed(seed);
    try
    {
        TapkeeOutput out = fn();
        return matrix_text(out.embedding);
    }
    catch (const tapkee::eigendecomposition_error&)
    {
        return "throw:tapkee::eigendecomposition_error";
    }
    catch (const tapkee::unsupported_method_error&)
    {
        return "throw:tapkee::unsupported_method_error";
    }
    catch (const tapkee::wrong_parameter_error&)
    {
        return "throw:tapkee::wrong_parameter_error";
    }
    catch (const std::exception& e)
    {
        std::string w = e.what();
        for (auto& c : w)
            if (c == ' ')
                c = '_';
        return "throw:other:" + w;
    }
}

struct silent_logger : public LoggerImplementation
{
    void message_info(const std::string&) override {}
    void message_warning(const std::string&) override {}
    void message_error(const std::string&) override {}
    void message_benchmark(const std::string&) override {}
    void message_debug(const std::string&) override {}
};

// unrelated code that reuses the stack below the caller's frame (what a helper function's temporaries lived in)
__attribute__((noinline)) static void scribble_stack()
{
    volatile unsigned char pad[49152];
    for (size_t i = 0; i < sizeof pad; i++)
        pad[i] = static_cast<unsigned char>(0xA5 ^ (i * 31));
    volatile unsigned sink = pad[4711];
    (void)sink;
}

static std::string what_text(const std::exception& e)
{
    std::string w = e.what();
    for (auto& c : w)
        if (c == ' ')
            c = '_';
    return w;
}

// statements that build chain states may themselves throw (a poisoned callback being copied): reported under the form's name
template <class Fn> static void guarded(std::ostringstream& o, const std::string& name, Fn body)
{
    try
    {
        body();
    }
    catch (const std::exception& e)
    {
        o << " " << name << "=throw:other:" << what_text(e);
    }
}

__attribute__((noinline)) static auto fn_start(const std::string& kw)
{
    return tapkee::with(vfront::make_set(kw));
}

#if PART == 4
#ifndef CB_MASK
#define CB_MASK 7
#endif
static unsigned char g_route[3][8];
static void routes_clear()
{
    std::memset(g_route, 0, sizeof g_route);
}
static std::string routes_text()
{
    std::string r;
    for (int s = 0; s < 3; s++)
        for (int id = 0; id < 8; id++)
            if (g_route[s][id])
                r += std::string(r.empty() ? "" : ",") + "kdf"[s] + std::to_string(id);
    return r.empty() ? "-" : r;
}
// A callback that OWNS its data (a copy of the matrix) - it is handed to the chain as a temporary, so whatever keeps it
// must keep a copy.  Same expressions as the library's eigen callbacks (bit-identical values); each object answers only in
// the role it was handed over for.  Destruction poisons the
// object: the data is overwritten and `mark` cleared, so a use through a dangling reference is an observation even
// where the sanitizer does not see it (stack-use-after-return).
struct owning_cb
{
    static constexpr unsigned ALIVE = 0x600DCB01u, DEAD = 0xDEADCB02u;
    owning_cb(const DenseMatrix& m, int id_, int role_) : X(m), id(id_), role(role_), mark(ALIVE) {}
    owning_cb(const owning_cb& other) : X(), id(other.id), role(other.role), mark(ALIVE)
    {
        if (other.mark != ALIVE)
            throw std::logic_error("a callback object was copied after its destruction (something kept a reference to a temporary)");
        X = other.X;
    }
    owning_cb& operator=(const owning_cb&) = delete;
    ~owning_cb()
    {
        volatile double* p = X.data();
        for (IndexType i = 0; i < X.size(); i++)
            p[i] = 1e300 * static_cast<double>(i + 1);
        mark = DEAD;
        id = 7;
        role = 3;
    }
    void touch(int slot) const
    {
        if (mark != ALIVE)
            throw std::logic_error("a callback object was used after its destruction (something kept a reference to a temporary)");
        // each object is handed over for ONE role (0 kernel, 1 distance, 2 features); being invoked in another one means
        // a state answered with a different object than the one it was given (e.g. whatever now lives at a dangling address)
        if (slot != role)
            throw std::logic_error(std::string("a callback object handed over as ") + "kdf"[role] + " was invoked as " + "kdf"[slot]);
        g_route[slot][id & 7] = 1;
    }
    ScalarType kernel(IndexType a, IndexType b) const
    {
        touch(0);
        return X.col(a).dot(X.col(b));
    }
    ScalarType distance(IndexType a, IndexType b) const
    {
        touch(1);
        return (X.col(a) - X.col(b)).norm();
    }
    IndexType dimension() const
    {
        touch(2);
        return static_cast<IndexType>(X.rows());
    }
    void vector(IndexType i, DenseVector& v) const
    {
        touch(2);
        v = X.col(i);
    }
    DenseMatrix X;
    volatile int id;
    volatile int role;
    volatile unsigned mark;
};

template <class Fn> static void fin(std::ostringstream& o, const std::string& name, unsigned seed, Fn fn)
{
    routes_clear();
    std::string res = run_form(seed, fn);
    o << " " << name << "=" << res << " " << name << ".r=" << routes_text();
}

// helper functions that build the next state from a temporary callback and RETURN before the chain goes on
template <class S> __attribute__((noinline)) static auto fn_k(const S& s, const DenseMatrix& X, int id)
{
    return s.withKernel(owning_cb(X, id, 0));
}
template <class S> __attribute__((noinline)) static auto fn_d(const S& s, const DenseMatrix& X, int id)
{
    return s.withDistance(owning_cb(X, id, 1));
}
template <class S> __attribute__((noinline)) static auto fn_f(const S& s, const DenseMatrix& X, int id)
{
    return s.withFeatures(owning_cb(X, id, 2));
}

#define STR2(x) #x
#define STR(x) STR2(x)
#define PFX "S" STR(CB_MASK) "_"
#define W_k withKernel
#define W_d withDistance
#define W_f withFeatures
#define PSET tapkee::with(vfront::make_set(kw))
#define R_k 0
#define R_d 1
#define R_f 2
#define CB(i, R) owning_cb(X, i, R_##R)
#define RANGE(s) [&] { return (s).embedRange(cb, ce); }
#define USING(s) [&] { return (s).embedUsing(idx); }

// ---- one callback
#define FORMS1(TAG, A)                                                                                                 \
    if (want(TAG))                                                                                                     \
    {                                                                                                                  \
        fin(o, PFX "one_" TAG, seed, [&] { return PSET.W_##A(CB(1, A)).embedRange(cb, ce); });                            \
        guarded(o, PFX "st_" TAG, [&] {                                                                                \
            auto s0 = PSET;                                                                                            \
            scribble_stack();                                                                                          \
            auto s1 = s0.W_##A(CB(1, A));                                                                                 \
            auto s1b = s0.W_##A(CB(2, A));                                                                                \
            scribble_stack();                                                                                          \
            fin(o, PFX "st_" TAG, seed, RANGE(s1));                                                                    \
            fin(o, PFX "st2_" TAG, seed, USING(s1));                                                                   \
            fin(o, PFX "st3_" TAG, seed, RANGE(s1b));                                                                  \
        });                                                                                                            \
        guarded(o, PFX "fn_" TAG, [&] {                                                                                \
            auto s0 = fn_start(kw);                                                                                    \
            scribble_stack();                                                                                          \
            auto s1 = fn_##A(s0, X, 1);                                                                                \
            scribble_stack();                                                                                          \
            fin(o, PFX "fn_" TAG, seed, RANGE(s1));                                                                    \
        });                                                                                                            \
        guarded(o, PFX "cp_" TAG, [&] {                                                                                \
            auto* h0 = new auto(PSET);                                                                                 \
            auto c0 = *h0;                                                                                             \
            delete h0;                                                                                                 \
            scribble_stack();                                                                                          \
            auto* h1 = new auto(c0.W_##A(CB(1, A)));                                                                      \
            auto c1 = *h1;                                                                                             \
            delete h1;                                                                                                 \
            scribble_stack();                                                                                          \
            fin(o, PFX "cp_" TAG, seed, USING(c1));                                                                    \
        });                                                                                                            \
    }

// ---- two callbacks
#define FORMS2(TAG, A, B)                                                                                              \
    if (want(TAG))                                                                                                     \
    {                                                                                                                  \
        fin(o, PFX "one_" TAG, seed, [&] { return PSET.W_##A(CB(1, A)).W_##B(CB(2, B)).embedRange(cb, ce); });               \
        guarded(o, PFX "st_" TAG, [&] {                                                                                \
            auto s0 = PSET;                                                                                            \
            scribble_stack();                                                                                          \
            auto s1 = s0.W_##A(CB(1, A));                                                                                 \
            scribble_stack();                                                                                          \
            auto s2 = s1.W_##B(CB(2, B));                                                                                 \
            auto s2b = s1.W_##B(CB(3, B));                                                                                \
            scribble_stack();                                                                                          \
            fin(o, PFX "st_" TAG, seed, RANGE(s2));                                                                    \
            fin(o, PFX "st2_" TAG, seed, USING(s2));                                                                   \
            fin(o, PFX "st3_" TAG, seed, RANGE(s2b));                                                                  \
        });                                                                                                            \
        guarded(o, PFX "fn_" TAG, [&] {                                                                                \
            auto s0 = fn_start(kw);                                                                                    \
            scribble_stack();                                                                                          \
            auto s1 = fn_##A(s0, X, 1);                                                                                \
            scribble_stack();                                                                                          \
            auto s2 = fn_##B(s1, X, 2);                                                                                \
            scribble_stack();                                                                                          \
            fin(o, PFX "fn_" TAG, seed, RANGE(s2));                                                                    \
        });                                                                                                            \
        guarded(o, PFX "cp_" TAG, [&] {                                                                                \
            auto* h0 = new auto(PSET);                                                                                 \
            auto c0 = *h0;                                                                                             \
            delete h0;                                                                                                 \
            scribble_stack();                                                                                          \
            auto* h1 = new auto(c0.W_##A(CB(1, A)));                                                                      \
            auto c1 = *h1;                                                                                             \
            delete h1;                                                                                                 \
            scribble_stack();                                                                                          \
            auto* h2 = new auto(c1.W_##B(CB(2, B)));                                                                      \
            auto c2 = *h2;                                                                                             \
            delete h2;                                                                                                 \
            scribble_stack();                                                                                          \
            fin(o, PFX "cp_" TAG, seed, USING(c2));                                                                    \
        });                                                                                                            \
    }

// ---- three callbacks
#define FORMS3(TAG, A, B, C)                                                                                           \
    if (want(TAG))                                                                                                     \
    {                                                                                                                  \
        fin(o, PFX "one_" TAG, seed,                                                                                   \
            [&] { return PSET.W_##A(CB(1, A)).W_##B(CB(2, B)).W_##C(CB(3, C)).embedRange(cb, ce); });                           \
        guarded(o, PFX "st_" TAG, [&] {                                                                                \
            auto s0 = PSET;                                                                                            \
            scribble_stack();                                                                                          \
            auto s1 = s0.W_##A(CB(1, A));                                                                                 \
            scribble_stack();                                                                                          \
            auto s2 = s1.W_##B(CB(2, B));                                                                                 \
            scribble_stack();                                                                                          \
            auto s3 = s2.W_##C(CB(3, C));                                                                                 \
            auto s3b = s2.W_##C(CB(4, C));                                                                                \
            scribble_stack();                                                                                          \
            fin(o, PFX "st_" TAG, seed, RANGE(s3));                                                                    \
            fin(o, PFX "st2_" TAG, seed, USING(s3));                                                                   \
            fin(o, PFX "st3_" TAG, seed, RANGE(s3b));                                                                  \
        });                                                                                                            \
        guarded(o, PFX "fn_" TAG, [&] {                                                                                \
            auto s0 = fn_start(kw);                                                                                    \
            scribble_stack();                                                                                          \
            auto s1 = fn_##A(s0, X, 1);                                                                                \
            scribble_stack();                                                                                          \
            auto s2 = fn_##B(s1, X, 2);                                                                                \
            scribble_stack();                                                                                          \
            auto s3 = fn_##C(s2, X, 3);                                                                                \
            scribble_stack();                                                                                          \
            fin(o, PFX "fn_" TAG, seed, RANGE(s3));                                                                    \
        });                                                                                                            \
        guarded(o, PFX "cp_" TAG, [&] {                                                                                \
            auto* h0 = new auto(PSET);                                                                                 \
            auto c0 = *h0;                                                                                             \
            delete h0;                                                                                                 \
            scribble_stack();                                                                                          \
            auto* h1 = new auto(c0.W_##A(CB(1, A)));                                                                      \
            auto c1 = *h1;                                                                                             \
            delete h1;                                                                                                 \
            scribble_stack();                                                                                          \
            auto* h2 = new auto(c1.W_##B(CB(2, B)));                                                                      \
            auto c2 = *h2;                                                                                             \
            delete h2;                                                                                                 \
            scribble_stack();                                                                                          \
            auto* h3 = new auto(c2.W_##C(CB(3, C)));                                                                      \
            auto c3 = *h3;                                                                                             \
            delete h3;                                                                                                 \
            scribble_stack();                                                                                          \
            fin(o, PFX "cp_" TAG, seed, USING(c3));                                                                    \
        });                                                                                                            \
    }
#endif

#if PART == 3
struct Obj
{
    std::string name;
    DenseVector x;
};
// hand-written callbacks on objects: the textbook formulas, written out
struct obj_kernel
{
    ScalarType kernel(const Obj& a, const Obj& b) const
    {
        ScalarType s = 0.0;
        for (IndexType r = 0; r < a.x.size(); ++r)
            s += a.x(r) * b.x(r);
        return s;
    }
};
struct obj_distance
{
    ScalarType distance(const Obj& a, const Obj& b) const
    {
        ScalarType s = 0.0;
        for (IndexType r = 0; r < a.x.size(); ++r)
        {
            ScalarType diff = a.x(r) - b.x(r);
            s += diff * diff;
        }
        return std::sqrt(s);
    }
};
struct obj_features
{
    IndexType dim;
    IndexType dimension() const
    {
        return dim;
    }
    // like a user's callback that fills the vector it is handed element by element: the library must pass a vector
    // of size dimension() ("the callback should put the feature vector ... to the provided vector")
    void vector(const Obj& a, DenseVector& v) const
    {
        if (v.size() != dim)
            throw std::logic_error("features callback was handed a vector of size " + std::to_string(v.size()) +
                                   ", dimension() is " + std::to_string(dim));
        for (IndexType r = 0; r < dim; ++r)
            v(r) = a.x(r);
    }
};
#endif

int main()
{
    int proto = dup(1);
    FILE* out = fdopen(proto, "w");
    if (!freopen("/dev/null", "w", stdout))
        return 3;
    Logging::instance().set_logger_impl(new silent_logger);
    std::string line;
    while (std::getline(std::cin, line))
    {
        if (line.empty())
            continue;
        vh::case_alarm(120); // a hang is an observation (`abort:timeout`), not a blocked run
        auto f = vh::fields(line);
        int N = std::stoi(f["N"]);
        int D = std::stoi(f["D"]);
        unsigned seed = static_cast<unsigned>(std::stoul(f["seed"]));
        const double off = f.count("off") ? vh::parse_num(f["off"]) : 0.0; // common offset of all coordinates
        DenseMatrix X(D, N);
        unsigned s = seed * 2654435761u + 12345u;
        for (int j = 0; j < N; j++)
            for (int i = 0; i < D; i++)
            {
                s = s * 1103515245u + 12345u;
                X(i, j) = off + (static_cast<double>((s >> 16) % 1024) - 512.0) / 8.0;
            }
        std::vector<IndexType> idx(N);
        for (int i = 0; i < N; i++)
            idx[i] = i;
        const std::string kw = f.count("kw") ? f["kw"] : "";
        std::ostringstream o;
#if PART != 4
        eigen_kernel_callback ek(X);
        eigen_distance_callback ed(X);
        eigen_features_callback ef(X);
#endif
#if PART == 1
        o << "matrix=" << run_form(seed, [&] { return tapkee::with(vfront::make_set(kw)).embedUsing(X); });
        o << " kdf=" << run_form(seed, [&] { return tapkee::with(vfront::make_set(kw)).withKernel(ek).withDistance(ed).withFeatures(ef).embedRange(idx.begin(), idx.end()); });
        o << " kfd=" << run_form(seed, [&] { return tapkee::with(vfront::make_set(kw)).withKernel(ek).withFeatures(ef).withDistance(ed).embedRange(idx.begin(), idx.end()); });
        o << " dkf=" << run_form(seed, [&] { return tapkee::with(vfront::make_set(kw)).withDistance(ed).withKernel(ek).withFeatures(ef).embedRange(idx.begin(), idx.end()); });
        o << " dfk=" << run_form(seed, [&] { return tapkee::with(vfront::make_set(kw)).withDistance(ed).withFeatures(ef).withKernel(ek).embedRange(idx.begin(), idx.end()); });
        o << " fkd=" << run_form(seed, [&] { return tapkee::with(vfront::make_set(kw)).withFeatures(ef).withKernel(ek).withDistance(ed).embedRange(idx.begin(), idx.end()); });
        o << " fdk=" << run_form(seed, [&] { return tapkee::with(vfront::make_set(kw)).withFeatures(ef).withDistance(ed).withKernel(ek).embedRange(idx.begin(), idx.end()); });
        o << " using=" << run_form(seed, [&] { return tapkee::with(vfront::make_set(kw)).withKernel(ek).withDistance(ed).withFeatures(ef).embedUsing(idx); });
        o << " direct=" << run_form(seed, [&] { return tapkee::embed(idx.begin(), idx.end(), ek, ed, ef, vfront::make_set(kw)); });
        // a range that is not the identity map: the samples in reverse order, as a range of indices into X and as
        // the matrix with reversed columns - the same callback values at the same positions, hence the same result
        std::vector<IndexType> rev(N);
        DenseMatrix Xrev(D, N);
        for (int i = 0; i < N; i++)
        {
            rev[i] = N - 1 - i;
            Xrev.col(i) = X.col(N - 1 - i);
        }
        o << " matrixrev=" << run_form(seed, [&] { return tapkee::with(vfront::make_set(kw)).embedUsing(Xrev); });
        o << " rangerev=" << run_form(seed, [&] { return tapkee::with(vfront::make_set(kw)).withKernel(ek).withDistance(ed).withFeatures(ef).embedRange(rev.begin(), rev.end()); });
        // the ParametersInitializedState itself kept in a variable: built from a temporary ParametersSet, finished later
        guarded(o, "pst", [&] {
            auto s0 = tapkee::with(vfront::make_set(kw));
            scribble_stack();
            o << " pst=" << run_form(seed, [&] { return s0.embedUsing(X); });
            o << " pst2=" << run_form(seed, [&] { return s0.embedUsing(X); });
        });
        guarded(o, "pfn", [&] {
            auto s0 = fn_start(kw);
            scribble_stack();
            o << " pfn=" << run_form(seed, [&] { return s0.embedUsing(X); });
        });
        guarded(o, "pcp", [&] {
            auto* h0 = new auto(tapkee::with(vfront::make_set(kw)));
            auto c0 = *h0;
            delete h0;
            scribble_stack();
            o << " pcp=" << run_form(seed, [&] { return c0.embedUsing(X); });
        });
#elif PART == 2
        DenseMatrix Kp(N, N), Dp(N, N);
        for (int i = 0; i < N; i++)
            for (int j = 0; j < N; j++)
            {
                Kp(i, j) = ek.kernel(i, j);
                Dp(i, j) = ed.distance(i, j);
            }
        precomputed_kernel_callback pk(Kp);
        precomputed_distance_callback pd(Dp);
        o << "pre=" << run_form(seed, [&] { return tapkee::with(vfront::make_set(kw)).withKernel(pk).withDistance(pd).withFeatures(ef).embedRange(idx.begin(), idx.end()); });
        DenseMatrix Kg = X.transpose() * X, Dg(N, N);
        for (int i = 0; i < N; i++)
            for (int j = 0; j < N; j++)
            {
                double q = Kg(i, i) - 2 * Kg(i, j) + Kg(j, j);
                Dg(i, j) = q > 0 ? std::sqrt(q) : 0.0;
            }
        precomputed_kernel_callback gk(Kg);
        precomputed_distance_callback gd(Dg);
        o << " pregram=" << run_form(seed, [&] { return tapkee::with(vfront::make_set(kw)).withDistance(gd).withKernel(gk).withFeatures(ef).embedRange(idx.begin(), idx.end()); });
#elif PART == 3
        std::vector<Obj> objs;
        for (int i = 0; i < N; i++)
            objs.push_back(Obj{"sample-" + std::to_string(1000 - 7 * i), DenseVector(X.col(i))});
        obj_kernel okc;
        obj_distance odc;
        obj_features ofc{static_cast<IndexType>(D)};
        bool same_k = true, same_d = true;
        for (int i = 0; i < N; i++)
            for (int j = 0; j < N; j++)
            {
                double a = okc.kernel(objs[i], objs[j]), b = ek.kernel(i, j);
                double c = odc.distance(objs[i], objs[j]), d = ed.distance(i, j);
                same_k = same_k && std::memcmp(&a, &b, sizeof a) == 0;
                same_d = same_d && std::memcmp(&c, &d, sizeof c) == 0;
            }
        o << "cbeq_k=" << (same_k ? 1 : 0) << " cbeq_d=" << (same_d ? 1 : 0);
        o << " obj=" << run_form(seed, [&] { return tapkee::with(vfront::make_set(kw)).withFeatures(ofc).withDistance(odc).withKernel(okc).embedRange(objs.begin(), objs.end()); });
        o << " objusing=" << run_form(seed, [&] { return tapkee::with(vfront::make_set(kw)).withKernel(okc).withDistance(odc).withFeatures(ofc).embedUsing(objs); });
#elif PART == 4
        const std::vector<IndexType>& cidx = idx;
        auto cb = cidx.begin(), ce = cidx.end();
        std::vector<std::string> only = f.count("orders3") ? vh::split(f["orders3"], ',') : std::vector<std::string>();
        auto want = [&](const char* tag) {
            return std::strlen(tag) < 3 || only.empty() || std::find(only.begin(), only.end(), tag) != only.end();
        };
#if CB_MASK == 1
        FORMS1("k", k)
#elif CB_MASK == 2
        FORMS1("d", d)
#elif CB_MASK == 4
        FORMS1("f", f)
#elif CB_MASK == 3
        FORMS2("kd", k, d) FORMS2("dk", d, k)
#elif CB_MASK == 5
        FORMS2("kf", k, f) FORMS2("fk", f, k)
#elif CB_MASK == 6
        FORMS2("df", d, f) FORMS2("fd", f, d)
#else
        FORMS3("kdf", k, d, f) FORMS3("kfd", k, f, d) FORMS3("dkf", d, k, f)
        FORMS3("dfk", d, f, k) FORMS3("fkd", f, k, d) FORMS3("fdk", f, d, k)
#endif
#endif
        fprintf(out, "%s\n", o.str().c_str());
        fflush(out);
    }
    return 0;
}
