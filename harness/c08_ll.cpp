// C08 correspondence harness: the real linear_/tangent_/hessian_weight_matrix and the public API for
// KLLE / KLTSA / HLLE, with the external numerical kernels (LDLT solve, local eigensolver) mirrored so that
// their values can be handed to the Lean model as contract-checked oracle values (DESIGN §3).
//
// in : op=lle   N= k= shift= tshift= nb=<lists> kern=<NxN>
//      op=ltsa  N= k= d= shift= nb= kern=
//      op=hlle  N= k= d= nb= kern=
//      op=embed method=klle|kltsa|hlle N= k= d= nm=brute|vptree|covertree shift= tshift= cc=0|1 seed= kern=
// out: one line of key=value tokens (matrices row-major, rows ';', samples '|', numbers exact dyadics)
#include "v0810.hpp"

#include <tapkee/routines/locally_linear.hpp>

using namespace tapkee;
using namespace tapkee::tapkee_internal;
using v8::show_matrix;
using v8::show_vector;
using v8::print_lle_oracles;
using v8::print_eig_oracles;
using v8::uniform;

typedef std::vector<IndexType> Idx;

int main()
{
    std::string line;
    while (std::getline(std::cin, line))
    {
        if (line.empty())
            continue;
        vh::case_alarm(120);
        auto f = vh::fields(line);
        const std::string op = f["op"];
        const IndexType N = std::stoi(f["N"]);
        DenseMatrix Kbig = v8::parse_matrix(f["kern"]);
        v8::matrix_kernel_callback kcb{&Kbig};          // the library sees the full matrix through the callback ...
        Idx idx = v8::parse_range(f, N);                 // ... and this range of sample indices
        DenseMatrix K = v8::restrict_square(Kbig, idx);  // mirrored kernels work by position in the range
        std::ostringstream out;
        std::cerr << "case " << op << " N=" << N << " k=" << f["k"] << " d=" << f["d"] << " " << f["method"] << "\n";
#ifndef V8_NO_ROUTINES
        if (op == "lle")
        {
            Neighbors nb = v8::parse_neighbors(f["nb"]);
            ScalarType shift = vh::parse_num(f["shift"]), tshift = vh::parse_num(f["tshift"]);
            out << "ok=1";
            print_lle_oracles(out, K, nb, tshift);
            SparseWeightMatrix M = linear_weight_matrix(idx.begin(), idx.end(), nb, kcb, shift, tshift);
            out << " nnz=" << M.nonZeros() << " M=" << show_matrix(DenseMatrix(M));
        }
        else if (op == "ltsa")
        {
            Neighbors nb = v8::parse_neighbors(f["nb"]);
            IndexType d = std::stoi(f["d"]);
            ScalarType shift = vh::parse_num(f["shift"]);
            out << "ok=1";
            print_eig_oracles(out, K, nb, d);
            SparseWeightMatrix M = tangent_weight_matrix(idx.begin(), idx.end(), nb, kcb, d, shift);
            out << " nnz=" << M.nonZeros() << " M=" << show_matrix(DenseMatrix(M));
        }
        else if (op == "hlle")
        {
            Neighbors nb = v8::parse_neighbors(f["nb"]);
            IndexType d = std::stoi(f["d"]);
            out << "ok=1";
            print_eig_oracles(out, K, nb, d);
            SparseWeightMatrix M = hessian_weight_matrix(idx.begin(), idx.end(), nb, kcb, d);
            out << " nnz=" << M.nonZeros() << " M=" << show_matrix(DenseMatrix(M));
        }
        else
#else
        // fallback build (the internal routines no longer have the signatures this harness calls): public API only
        if (op == "lle" || op == "ltsa" || op == "hlle")
            out << "unavailable=1";
        else
#endif
        if (op == "embed")
        {
            const std::string method = f["method"];
            IndexType k = std::stoi(f["k"]), d = std::stoi(f["d"]);
            ScalarType shift = vh::parse_num(f["shift"]), tshift = vh::parse_num(f["tshift"]);
            bool cc = f["cc"] == "1";
            unsigned seed = (unsigned)std::stoul(f["seed"]);
            NeighborsMethod nm = v8::neighbors_method_of(f["nm"]);
            DimensionReductionMethod m = method == "klle"    ? KernelLocallyLinearEmbedding
                                         : method == "kltsa" ? KernelLocalTangentSpaceAlignment
                                                             : HessianLocallyLinearEmbedding;
            // mirrored neighbour search (same method, same generator state) and oracle values first:
            // a sanitizer abort inside embed() must not lose them for the replay
            std::srand(seed);
            tapkee::verif_shuffle_generator().seed(seed);
            KernelDistance<Idx::iterator, v8::matrix_kernel_callback> kd(kcb);
            Neighbors nb;
            std::string nberr;
            try
            {
                nb = find_neighbors(nm, idx.begin(), idx.end(), kd, k, cc);
            }
            catch (const std::exception& e)
            {
                nberr = e.what();
            }
            out << "ok=1 nb=" << v8::show_neighbors(nb) << " uniform=" << (nb.empty() || uniform(nb) ? 1 : 0);
            if (!nb.empty() && uniform(nb))
            {
                if (method == "klle")
                    print_lle_oracles(out, K, nb, tshift);
                else
                    print_eig_oracles(out, K, nb, d);
            }
            std::srand(seed);
            tapkee::verif_shuffle_generator().seed(seed);
            v8::install_observer();
            try
            {
                TapkeeOutput res = tapkee::embed(idx.begin(), idx.end(), kcb, dummy_distance_callback<IndexType>(),
                                                 dummy_features_callback<IndexType>(),
                                                 (tapkee::method = m, tapkee::target_dimension = d,
                                                  tapkee::num_neighbors = k, tapkee::neighbors_method = nm,
                                                  tapkee::nullspace_shift = shift, tapkee::klle_shift = tshift,
                                                  tapkee::check_connectivity = cc, tapkee::eigen_method = Dense));
                v8::observed& o = v8::obs();
                out << " threw=- calls=" << o.calls << " skip=" << o.skip << " smallest=" << o.smallest
                    << " gen=" << o.generalized << " td=" << o.target_dimension << " lhs=" << show_matrix(o.lhs)
                    << " vals=" << show_vector(o.values) << " vecs=" << show_matrix(o.vectors)
                    << " Y=" << show_matrix(res.embedding);
            }
            catch (const std::exception& e)
            {
                std::string w = e.what();
                for (auto& c : w)
                    if (c == ' ' || c == '=')
                        c = '_';
                out << " threw=" << w;
            }
        }
        else
            out << "bad-op";
        std::cout << out.str() << std::endl;
    }
    return 0;
}
