// C08 correspondence harness: the real linear_/tangent_/hessian_weight_matrix and the public API for
// KLLE / KLTSA / HLLE, with the external numerical kernels (LDLT solve, local eigensolver) mirrored so that
// their values can be handed to the Lean model as contract-checked oracle values (DESIGN §3).
//
// in : op=lle   N= k= shift= tshift= nb=<lists> kern=<NxN>
//      op=ltsa  N= k= d= shift= nb= kern=
//      op=hlle  N= k= d= nb= kern=
//      op=embed method=klle|kltsa|hlle N= k= d= nm=brute|vptree|covertree shift= tshift= cc=0|1 seed= kern=
// out: one line of key=value tokens (matrices row-major, rows ';', samples '|', numbers exact dyadics)
#include "v0810.hpp"

#include <tapkee/routines/locally_linear.hpp>

using namespace tapkee;
using namespace tapkee::tapkee_internal;
using v8::show_matrix;
using v8::show_vector;

typedef std::vector<IndexType> Idx;

// mirrored: the system linear_weight_matrix hands to ldlt(), and the raw solve result
static DenseVector mirror_lle_solve(const DenseMatrix& K, IndexType i, const LocalNeighbors& nb, ScalarType tshift)
{
    const IndexType k = nb.size();
    DenseMatrix gram = DenseMatrix::Zero(k, k);
    DenseVector dots(k);
    for (IndexType a = 0; a < k; ++a)
        dots[a] = K(i, nb[a]);
    for (IndexType a = 0; a < k; ++a)
        for (IndexType b = a; b < k; ++b)
            gram(a, b) = K(i, i) - dots(a) - dots(b) + K(nb[a], nb[b]);
    ScalarType trace = gram.trace();
    gram.diagonal().array() += tshift * trace;
    DenseVector rhs = DenseVector::Ones(k);
    DenseVector w = gram.selfadjointView<Eigen::Upper>().ldlt().solve(rhs);
    return w;
}

// mirrored: eigen-decomposition of the centred local Gram matrix (all eigenvalues ascending, eigenvectors)
static void mirror_local_eig(const DenseMatrix& K, const LocalNeighbors& nb, DenseVector& values, DenseMatrix& vectors)
{
    const IndexType k = nb.size();
    DenseMatrix gram = DenseMatrix::Zero(k, k);
    for (IndexType a = 0; a < k; ++a)
        for (IndexType b = a; b < k; ++b)
        {
            gram(a, b) = K(nb[a], nb[b]);
            gram(b, a) = gram(a, b);
        }
    centerMatrix(gram);
    DenseSelfAdjointEigenSolver solver;
    solver.compute(gram);
    values = solver.eigenvalues();
    vectors = solver.eigenvectors();
}

static void print_lle_oracles(std::ostream& out, const DenseMatrix& K, const Neighbors& nb, ScalarType tshift)
{
    out << " wraw=";
    for (size_t i = 0; i < nb.size(); ++i)
        out << (i ? "|" : "") << show_vector(mirror_lle_solve(K, (IndexType)i, nb[i], tshift));
}

static void print_eig_oracles(std::ostream& out, const DenseMatrix& K, const Neighbors& nb, IndexType d)
{
    std::ostringstream ev, U;
    for (size_t i = 0; i < nb.size(); ++i)
    {
        DenseVector values;
        DenseMatrix vectors;
        mirror_local_eig(K, nb[i], values, vectors);
        const IndexType k = nb[i].size();
        ev << (i ? "|" : "") << show_vector(values);
        if (d <= k)
            U << (i ? "|" : "") << show_matrix(vectors.rightCols(d));
        else
            U << (i ? "|" : "") << "-";
    }
    const IndexType k = nb.empty() ? 0 : nb[0].size();
    out << " rsk=" << vh::num(1 / sqrt(static_cast<ScalarType>(k))) << " ev=" << ev.str() << " U=" << U.str();
}

static bool uniform(const Neighbors& nb)
{
    for (auto& l : nb)
        if (l.size() != nb[0].size())
            return false;
    return true;
}

int main()
{
    std::string line;
    while (std::getline(std::cin, line))
    {
        if (line.empty())
            continue;
        auto f = vh::fields(line);
        const std::string op = f["op"];
        const IndexType N = std::stoi(f["N"]);
        DenseMatrix K = v8::parse_matrix(f["kern"]);
        v8::matrix_kernel_callback kcb{&K};
        Idx idx(N);
        for (IndexType i = 0; i < N; ++i)
            idx[i] = i;
        std::ostringstream out;
        std::cerr << "case " << op << " N=" << N << " k=" << f["k"] << " d=" << f["d"] << " " << f["method"] << "\n";
        if (op == "lle")
        {
            Neighbors nb = v8::parse_neighbors(f["nb"]);
            ScalarType shift = vh::parse_num(f["shift"]), tshift = vh::parse_num(f["tshift"]);
            out << "ok=1";
            print_lle_oracles(out, K, nb, tshift);
            SparseWeightMatrix M = linear_weight_matrix(idx.begin(), idx.end(), nb, kcb, shift, tshift);
            out << " nnz=" << M.nonZeros() << " M=" << show_matrix(DenseMatrix(M));
        }
        else if (op == "ltsa")
        {
            Neighbors nb = v8::parse_neighbors(f["nb"]);
            IndexType d = std::stoi(f["d"]);
            ScalarType shift = vh::parse_num(f["shift"]);
            out << "ok=1";
            print_eig_oracles(out, K, nb, d);
            SparseWeightMatrix M = tangent_weight_matrix(idx.begin(), idx.end(), nb, kcb, d, shift);
            out << " nnz=" << M.nonZeros() << " M=" << show_matrix(DenseMatrix(M));
        }
        else if (op == "hlle")
        {
            Neighbors nb = v8::parse_neighbors(f["nb"]);
            IndexType d = std::stoi(f["d"]);
            out << "ok=1";
            print_eig_oracles(out, K, nb, d);
            SparseWeightMatrix M = hessian_weight_matrix(idx.begin(), idx.end(), nb, kcb, d);
            out << " nnz=" << M.nonZeros() << " M=" << show_matrix(DenseMatrix(M));
        }
        else if (op == "embed")
        {
            const std::string method = f["method"];
            IndexType k = std::stoi(f["k"]), d = std::stoi(f["d"]);
            ScalarType shift = vh::parse_num(f["shift"]), tshift = vh::parse_num(f["tshift"]);
            bool cc = f["cc"] == "1";
            unsigned seed = (unsigned)std::stoul(f["seed"]);
            NeighborsMethod nm = v8::neighbors_method_of(f["nm"]);
            DimensionReductionMethod m = method == "klle"    ? KernelLocallyLinearEmbedding
                                         : method == "kltsa" ? KernelLocalTangentSpaceAlignment
                                                             : HessianLocallyLinearEmbedding;
            // mirrored neighbour search (same method, same generator state) and oracle values first:
            // a sanitizer abort inside embed() must not lose them for the replay
            std::srand(seed);
            tapkee::verif_shuffle_generator().seed(seed);
            KernelDistance<Idx::iterator, v8::matrix_kernel_callback> kd(kcb);
            Neighbors nb;
            std::string nberr;
            try
            {
                nb = find_neighbors(nm, idx.begin(), idx.end(), kd, k, cc);
            }
            catch (const std::exception& e)
            {
                nberr = e.what();
            }
            out << "ok=1 nb=" << v8::show_neighbors(nb) << " uniform=" << (nb.empty() || uniform(nb) ? 1 : 0);
            if (!nb.empty() && uniform(nb))
            {
                if (method == "klle")
                    print_lle_oracles(out, K, nb, tshift);
                else
                    print_eig_oracles(out, K, nb, d);
            }
            std::srand(seed);
            tapkee::verif_shuffle_generator().seed(seed);
            v8::install_observer();
            try
            {
                TapkeeOutput res = tapkee::embed(idx.begin(), idx.end(), kcb, dummy_distance_callback<IndexType>(),
                                                 dummy_features_callback<IndexType>(),
                                                 (tapkee::method = m, tapkee::target_dimension = d,
                                                  tapkee::num_neighbors = k, tapkee::neighbors_method = nm,
                                                  tapkee::nullspace_shift = shift, tapkee::klle_shift = tshift,
                                                  tapkee::check_connectivity = cc, tapkee::eigen_method = Dense));
                v8::observed& o = v8::obs();
                out << " threw=- calls=" << o.calls << " skip=" << o.skip << " smallest=" << o.smallest
                    << " gen=" << o.generalized << " td=" << o.target_dimension << " lhs=" << show_matrix(o.lhs)
                    << " vals=" << show_vector(o.values) << " vecs=" << show_matrix(o.vectors)
                    << " Y=" << show_matrix(res.embedding);
            }
            catch (const std::exception& e)
            {
                std::string w = e.what();
                for (auto& c : w)
                    if (c == ' ' || c == '=')
                        c = '_';
                out << " threw=" << w;
            }
        }
        else
            out << "bad-op";
        std::cout << out.str() << std::endl;
    }
    return 0;
}
