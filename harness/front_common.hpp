// Shared by the C13 / C14 harnesses: keyword items of a case line -> stichwort::Parameter / ParametersSet.
// item = <keyword identifier>:<type tag>:<value>; the identifier tables come from the generated front_tables.inc.
#pragma once
#include <tapkee/tapkee.hpp>

#include <limits>

#include "front_tables.inc"
#include "vcommon.hpp"

namespace vfront
{
using namespace tapkee;

inline bool cancel_true()
{
    return true;
}
inline bool cancel_false()
{
    return false;
}
inline void progress_fn(double)
{
}

inline std::string keyword_name(const std::string& ident)
{
#define X(k, ty)                                                                                                       \
    if (ident == #k)                                                                                                   \
        return std::string(tapkee::k);
    VERIF_KEYWORDS(X)
#undef X
    throw std::runtime_error("unknown keyword " + ident);
}

inline std::string keyword_ident(const std::string& name)
{
#define X(k, ty)                                                                                                       \
    if (name == std::string(tapkee::k))                                                                                \
        return #k;
    VERIF_KEYWORDS(X)
#undef X
    return "?" + name;
}

inline stichwort::Parameter make_param(const std::string& item)
{
    auto c1 = item.find(':');
    auto c2 = item.find(':', c1 + 1);
    std::string ident = item.substr(0, c1), ty = item.substr(c1 + 1, c2 - c1 - 1), v = item.substr(c2 + 1);
    std::string name = keyword_name(ident);
    using stichwort::Parameter;
    if (ty == "default")
    {
#define X(k, t)                                                                                                        \
    if (ident == #k)                                                                                                   \
        return (tapkee::k = stichwort::by_default);
        VERIF_KEYWORDS(X)
#undef X
    }
    if (ty == "int")
        return Parameter::create(name, static_cast<IndexType>(std::stol(v)));
    if (ty == "real")
    {
        if (v == "nan")
            return Parameter::create(name, std::numeric_limits<ScalarType>::quiet_NaN());
        if (v == "inf")
            return Parameter::create(name, std::numeric_limits<ScalarType>::infinity());
        if (v == "-inf")
            return Parameter::create(name, -std::numeric_limits<ScalarType>::infinity());
        return Parameter::create(name, static_cast<ScalarType>(vh::parse_num(v)));
    }
    if (ty == "bool")
        return Parameter::create(name, v == "1");
    if (ty == "meth")
    {
#define X(m)                                                                                                           \
    if (v == #m)                                                                                                       \
        return Parameter::create(name, DimensionReductionMethod(tapkee::m));
        VERIF_METHODS(X)
#undef X
    }
    if (ty == "nbrs")
    {
#define X(m)                                                                                                           \
    if (v == #m)                                                                                                       \
        return Parameter::create(name, NeighborsMethod(tapkee::m));
        VERIF_NEIGHBORS_METHODS(X)
#undef X
    }
    if (ty == "eig")
    {
#define X(m)                                                                                                           \
    if (v == #m)                                                                                                       \
        return Parameter::create(name, EigenMethod(tapkee::m));
        VERIF_EIGEN_METHODS(X)
#undef X
    }
    if (ty == "strat")
    {
#define X(m)                                                                                                           \
    if (v == #m)                                                                                                       \
        return Parameter::create(name, ComputationStrategy(tapkee::m));
        VERIF_STRATEGIES(X)
#undef X
    }
    if (ty == "cancel")
    {
        bool (*fn)() = v == "true" ? cancel_true : v == "false" ? cancel_false : nullptr;
        return Parameter::create(name, fn);
    }
    if (ty == "progress")
    {
        void (*fn)(double) = v == "fn" ? progress_fn : nullptr;
        return Parameter::create(name, fn);
    }
    if (ty == "other")
    {
        if (v == "long")
            return Parameter::create(name, 2L);
        if (v == "float")
            return Parameter::create(name, 0.5f);
        if (v == "uint")
            return Parameter::create(name, 2u);
        if (v == "cstr")
            return Parameter::create(name, static_cast<const char*>("x"));
    }
    throw std::runtime_error("bad item " + item);
}


// the keyword expression (p1, p2, ..., pn): Parameter::operator, then ParametersSet::operator,
inline stichwort::ParametersSet make_set(const std::string& kwfield)
{
    std::vector<stichwort::Parameter> ps;
    for (auto& item : vh::split(kwfield, ','))
        ps.push_back(make_param(item));
    stichwort::ParametersSet set;
    if (ps.size() == 1)
        set = ps[0];
    else if (ps.size() >= 2)
    {
        set = (ps[0], ps[1]);
        for (size_t i = 2; i < ps.size(); i++)
            (set, ps[i]);
    }
    return set;
}
} // namespace vfront
