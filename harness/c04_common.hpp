// shared by c04_geo.cpp and c04_iso.cpp (include after the tapkee headers)
#pragma once
#include <omp.h>

#include "vcommon.hpp"

using namespace tapkee;
using namespace tapkee::tapkee_internal;

#ifdef TAPKEE_USE_FIBONACCI_HEAP
static const char* BUILD = "fib";
#else
static const char* BUILD = "pq";
#endif

// the caller's index range need not be 0..N-1: the case may carry `idx=` (distinct non-negative values, any order);
// the weight the model uses for positions (u, x) is then what the callback returns for the VALUES (idx[u], idx[x]),
// so `callback.distance(begin[u], begin[x])` and a (wrong) `callback.distance(u, x)` are distinguishable
struct matrix_distance
{
    const DenseMatrix* W;
    inline ScalarType distance(IndexType a, IndexType b) const
    {
        return (*W)(a, b);
    }
};

static std::vector<IndexType> parse_idx(std::map<std::string, std::string>& f, IndexType N)
{
    std::vector<IndexType> idx(N);
    for (IndexType i = 0; i < N; i++)
        idx[i] = i;
    if (f.count("idx"))
    {
        auto v = vh::parse_ints(f["idx"]);
        for (IndexType i = 0; i < N && i < (IndexType)v.size(); i++)
            idx[i] = (IndexType)v[i];
    }
    return idx;
}

// value-indexed copy of the position-indexed weight matrix; entries never addressed by a correct run are poisoned
// (12345: a query by position instead of by value then changes the result)
static DenseMatrix by_value(const DenseMatrix& W, const std::vector<IndexType>& idx)
{
    IndexType m = 0;
    for (IndexType v : idx)
        m = std::max(m, v + 1);
    m = std::max<IndexType>(m, W.rows());
    DenseMatrix V = DenseMatrix::Constant(m, m, 12345.0);
    for (IndexType u = 0; u < (IndexType)idx.size() && u < W.rows(); u++)
        for (IndexType x = 0; x < (IndexType)idx.size() && x < W.cols(); x++)
            V(idx[u], idx[x]) = W(u, x);
    return V;
}

static DenseMatrix parse_matrix(const std::string& s)
{
    auto rows = vh::split(s, ';');
    DenseMatrix M(rows.size(), rows.empty() ? 0 : vh::split(rows[0], ',').size());
    for (size_t i = 0; i < rows.size(); i++)
    {
        auto v = vh::parse_nums(rows[i]);
        for (size_t j = 0; j < v.size() && j < (size_t)M.cols(); j++)
            M(i, j) = v[j];
    }
    return M;
}

static Neighbors parse_lists(const std::string& s)
{
    Neighbors nb;
    for (auto& r : vh::split(s, ';'))
    {
        LocalNeighbors l;
        if (r != "-")
            for (long x : vh::parse_ints(r))
                l.push_back((IndexType)x);
        nb.push_back(l);
    }
    return nb;
}

template <class M> static std::string show_matrix(const M& A)
{
    std::ostringstream o;
    for (IndexType i = 0; i < A.rows(); i++)
    {
        if (i)
            o << ";";
        for (IndexType j = 0; j < A.cols(); j++)
        {
            if (j)
                o << ",";
            o << vh::num(A(i, j));
        }
    }
    return o.str();
}

static std::string show_lists(const Neighbors& nb)
{
    std::ostringstream o;
    for (size_t i = 0; i < nb.size(); i++)
    {
        if (i)
            o << ";";
        if (nb[i].empty())
            o << "-";
        for (size_t j = 0; j < nb[i].size(); j++)
        {
            if (j)
                o << ",";
            o << nb[i][j];
        }
    }
    return o.str();
}

