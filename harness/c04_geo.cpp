// C04 correspondence harness (1/2): the real compute_shortest_distances_matrix, both overloads, built twice
// (default TAPKEE_USE_PRIORITY_QUEUE and -DTAPKEE_USE_FIBONACCI_HEAP), run under several OMP_NUM_THREADS.
//
// in : geo [heap=pq|fib] N=4 lists=1,2;2,3;3,0;0,1 w=0,1,4,2;... [lm=2,0] [idx=7,3,9,5  (values of the index vector)]
// out: F=<N rows> L=<rows>          (rows ';'-separated, entries ','-separated exact numbers, dblmax = not reached)
#include <tapkee/defines.hpp>
#include <tapkee/utils/logging.hpp>
#include <tapkee/routines/isomap.hpp>

#include "c04_common.hpp"

static std::string run_geo(std::map<std::string, std::string>& f)
{
    if (f.count("heap") && f["heap"] != BUILD)
        return std::string("wrong-build:") + BUILD;
    IndexType N = std::stoi(f["N"]);
    Neighbors nb = parse_lists(f["lists"]);
    DenseMatrix Wpos = parse_matrix(f["w"]);
    std::vector<IndexType> idx = parse_idx(f, N);
    DenseMatrix W = by_value(Wpos, idx);
    matrix_distance cb{&W};
    std::ostringstream o;
    DenseSymmetricMatrix F = compute_shortest_distances_matrix(idx.begin(), idx.end(), nb, cb);
    o << "F=" << show_matrix(F) << " L=";
    if (f.count("lm"))
    {
        Landmarks lm;
        for (long x : vh::parse_ints(f["lm"]))
            lm.push_back((IndexType)x);
        DenseMatrix L = compute_shortest_distances_matrix(idx.begin(), idx.end(), lm, nb, cb);
        o << show_matrix(L);
    }
    return o.str();
}

int main()
{
    tapkee::Logging::instance().disable_info();
    tapkee::Logging::instance().disable_warning();
    const char* alarm_env = std::getenv("C04_CASE_ALARM");
    unsigned alarm_s = alarm_env ? (unsigned)std::atoi(alarm_env) : 60;
    std::string line;
    while (std::getline(std::cin, line))
    {
        if (line.empty())
            continue;
        vh::case_alarm(alarm_s); // a hang is an observation (abort:timeout), not a stalled check
        auto f = vh::fields(line);
        std::cout << (line.rfind("geo ", 0) == 0 ? run_geo(f) : std::string("bad-topic")) << std::endl;
    }
    return 0;
}
