// C16 correspondence harness: drives the real tapkee_internal::fibonacci_heap.
// in : heap cap=7 ops=i:3:5,i:1:5,d:3:2,x,c,g:3 [trace=1] [dump=1]
// out: dn=3 | s1 s2 s2 x1:5:1 s0 g- | r=0 n=0 m=0 t=0 [| idx:parent:rank:marked:key ...]
//   r = max rank over the stored nodes, n = stored nodes (nodes[i]->index != -1), m = marked stored nodes,
//   t = get_num_trees(); all read from the protected members through a derived class (no change to /repo).
//   trace=1 : every output token gets the suffix /r:n:m (structure after that operation)
//   dump=1  : every stored node, in index order, with the index of its parent (-1 = root)
//   ks=<e>  : key scale.  The key handed to the real heap is ldexp(K, e) for the integer K on the line (exact for
//             |K| < 2^53 and the scales used, e in {-60,-40,-20,0,20,40,900}); keys are printed back exactly
//             (vh::num) and checks/c16.py divides by 2^e again before comparing with the model / the specification.
//             K -> ldexp(K, e) is an order isomorphism, so the model stays on Int keys.
//   alarm=<s>: per-case watchdog in seconds (default 4)
// in : more ops=... [trace=1] [dump=1]     continue on the heap of the previous line (used by the guided search,
//                                          which talks to one long-lived process); the dn= field is repeated
#include <tapkee/defines.hpp>
#include <tapkee/utils/fibonacci_heap.hpp>

#include <memory>

#include "vcommon.hpp"

using tapkee::ScalarType;
using tapkee::tapkee_internal::fibonacci_heap;

struct open_heap : fibonacci_heap
{
    open_heap(int c) : fibonacci_heap(c) {}
    int dn() const { return Dn; }
    void structure(int& r, int& n, int& m) const
    {
        r = n = m = 0;
        for (int i = 0; i < max_num_nodes; i++)
            if (nodes[i]->index != -1)
            {
                n++;
                if (nodes[i]->rank > r)
                    r = nodes[i]->rank;
                if (nodes[i]->marked)
                    m++;
            }
    }
    std::string summary()
    {
        int r, n, m;
        structure(r, n, m);
        std::ostringstream o;
        o << "r=" << r << " n=" << n << " m=" << m << " t=" << get_num_trees();
        return o.str();
    }
    std::string short_summary() const
    {
        int r, n, m;
        structure(r, n, m);
        std::ostringstream o;
        o << "/" << r << ":" << n << ":" << m;
        return o.str();
    }
    std::string dump() const
    {
        std::ostringstream o;
        for (int i = 0; i < max_num_nodes; i++)
            if (nodes[i]->index != -1)
                o << " " << i << ":" << (nodes[i]->parent ? nodes[i]->parent->index : -1) << ":" << nodes[i]->rank << ":"
                  << (nodes[i]->marked ? 1 : 0) << ":" << vh::num(nodes[i]->key);
        return o.str();
    }
};

int main()
{
    std::string line;
    std::unique_ptr<open_heap> heap;
    while (std::getline(std::cin, line))
    {
        if (line.empty())
            continue;
        auto f = vh::fields(line);
        vh::case_alarm(f.count("alarm") ? std::stoi(f["alarm"]) : 4); // alarm=<s>: the 10^5-operation histories
        if (line.rfind("more", 0) != 0 || !heap)
            heap.reset(new open_heap(std::stoi(f["cap"])));
        open_heap& h = *heap;
        bool trace = f.count("trace") && f["trace"] == "1";
        bool dump = f.count("dump") && f["dump"] == "1";
        int ks = f.count("ks") ? std::stoi(f["ks"]) : 0;
        auto key_of = [ks](const std::string& t) { return (ScalarType)std::ldexp((double)std::stol(t), ks); };
        std::ostringstream out;
        out << "dn=" << h.dn() << " |";
        for (auto& op : vh::split(f["ops"], ','))
        {
            auto p = vh::split(op, ':');
            if (p[0] == "i")
            {
                h.insert(std::stoi(p[1]), key_of(p[2]));
                out << " s" << h.get_num_nodes();
            }
            else if (p[0] == "d")
            {
                ScalarType k = key_of(p[2]);
                h.decrease_key(std::stoi(p[1]), k);
                out << " s" << h.get_num_nodes();
            }
            else if (p[0] == "x")
            {
                ScalarType k = -12345;
                int r = h.extract_min(k);
                if (r == -1)
                    out << " x-1:" << h.get_num_nodes();
                else
                    out << " x" << r << ":" << vh::num(k) << ":" << h.get_num_nodes();
            }
            else if (p[0] == "c")
            {
                h.clear();
                out << " s" << h.get_num_nodes();
            }
            else if (p[0] == "g")
            {
                ScalarType k = -12345;
                int r = h.get_key(std::stoi(p[1]), k);
                if (r == -1)
                    out << " g-";
                else
                    out << " g" << vh::num(k);
            }
            if (trace)
                out << h.short_summary();
            // progress marker so that a sanitizer abort can be attributed to an operation
            std::cerr << "op " << op << "\n";
        }
        out << " | " << h.summary();
        if (dump)
            out << " |" << h.dump();
        std::cout << out.str() << std::endl;
        vh::case_alarm(0); // the watchdog is per case: a session may idle between lines
    }
    return 0;
}
