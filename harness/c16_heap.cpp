// C16 correspondence harness: drives the real tapkee_internal::fibonacci_heap.
// in : heap cap=7 ops=i:3:5,i:1:5,d:3:2,x,c,g:3
// out: dn=3 | s1 s2 s2 x1:5:1 s0 g-
#include <tapkee/defines.hpp>
#include <tapkee/utils/fibonacci_heap.hpp>

#include "vcommon.hpp"

using tapkee::ScalarType;
using tapkee::tapkee_internal::fibonacci_heap;

struct open_heap : fibonacci_heap
{
    open_heap(int c) : fibonacci_heap(c) {}
    int dn() const { return Dn; }
};

int main()
{
    std::string line;
    while (std::getline(std::cin, line))
    {
        if (line.empty())
            continue;
        vh::case_alarm(4);
        auto f = vh::fields(line);
        int cap = std::stoi(f["cap"]);
        open_heap h(cap);
        std::ostringstream out;
        out << "dn=" << h.dn() << " |";
        for (auto& op : vh::split(f["ops"], ','))
        {
            auto p = vh::split(op, ':');
            if (p[0] == "i")
            {
                h.insert(std::stoi(p[1]), (ScalarType)std::stol(p[2]));
                out << " s" << h.get_num_nodes();
            }
            else if (p[0] == "d")
            {
                ScalarType k = (ScalarType)std::stol(p[2]);
                h.decrease_key(std::stoi(p[1]), k);
                out << " s" << h.get_num_nodes();
            }
            else if (p[0] == "x")
            {
                ScalarType k = -12345;
                int r = h.extract_min(k);
                if (r == -1)
                    out << " x-1:" << h.get_num_nodes();
                else
                    out << " x" << r << ":" << vh::num(k) << ":" << h.get_num_nodes();
            }
            else if (p[0] == "c")
            {
                h.clear();
                out << " s" << h.get_num_nodes();
            }
            else if (p[0] == "g")
            {
                ScalarType k = -12345;
                int r = h.get_key(std::stoi(p[1]), k);
                if (r == -1)
                    out << " g-";
                else
                    out << " g" << vh::num(k);
            }
            // progress marker so that a sanitizer abort can be attributed to an operation
            std::cerr << "op " << op << "\n";
        }
        std::cout << out.str() << std::endl;
    }
    return 0;
}
