// C03: every caller of ImplementationBase::find_neighbors_with (11 methods: KLLE, KLTSA, HLLE, NPE, LLTSA, LPP, Laplacian
// Eigenmaps, Isomap, Landmark Isomap, SPE, Manifold Sculpting) through the PUBLIC API
//   tapkee::with((method = .., num_neighbors = k, neighbors_method = Brute, check_connectivity = cc, ..))
//       .withKernel(kernel).withDistance(distance).withFeatures(features).embedRange(begin, end)
// on data whose k-NN graph is not strongly connected at the requested k.  Observation that does not depend on what the
// method computes afterwards: the number of callback evaluations.  A method that really searches with the check performs
// at least the evaluations of find_neighbors(Brute, .., k, true) on the same callback (a deterministic search), which is
// several times N^2; a method that bypasses the check (calls the search with `false`) performs one round only.
// Build with -O0 -g1.
// in : callers meth=<name> k=3 cc=1|0|default [nm=brute|vptree|covertree] [lr=<landmark ratio, default 1/2>] [d=<target
//      dimension, default 1>] cb=plain metric=L1|Linf pts=x,y;..      (integer points)
// out: obs=ok|throw:<text> fin=<embedding finite> gfin=<last matrix handed to an eigensolver finite> calls=<eigenproblems>
//      minnz=<least number of off-diagonal non-zeros in a row of that matrix> evals=<kernel+distance evaluations made by
//      embed> need1=<evaluations of find_neighbors(nm, .., k, true)> need0=<evaluations of find_neighbors(nm, .., k, false)>
//      kcc=<k returned with the check> callback=kernel|distance lists0=<lists of find_neighbors(nm, plain distance, k, false)>
#include "knn_common.hpp"

#include <tapkee/tapkee.hpp>

using namespace tapkee;
using namespace tapkee::tapkee_internal;

static bool g_gfin = true;
static long g_minnz = -1;
static int g_calls = 0;

static void observer(const DenseMatrix& lhs, const DenseMatrix&, const EigendecompositionResult&, IndexType, unsigned int,
                     bool, bool)
{
    g_calls++;
    g_gfin = true;
    g_minnz = -1;
    for (IndexType i = 0; i < lhs.rows(); i++)
    {
        long nz = 0;
        for (IndexType j = 0; j < lhs.cols(); j++)
        {
            if (!std::isfinite(lhs(i, j)))
                g_gfin = false;
            if (i != j && lhs(i, j) != 0.0)
                nz++;
        }
        if (g_minnz < 0 || nz < g_minnz)
            g_minnz = nz;
    }
}

struct FeatCb
{
    const vk::Space* s;
    IndexType dimension() const
    {
        return (IndexType)s->pts[0].size();
    }
    void vector(int i, DenseVector& v) const
    {
        int x = s->sample(i); // element -> sample (rng=); not an element of the range: foreign
        if (x < 0)
        {
            s->foreign++;
            for (size_t t = 0; t < s->pts[0].size(); t++)
                v[t] = 1e30;
            return;
        }
        for (size_t t = 0; t < s->pts[x].size(); t++)
            v[t] = s->pts[x][t];
    }
};

struct Spec
{
    const char* name;
    DimensionReductionMethod m;
    bool kernel_search;
};

int main()
{
    Logging::instance().disable_warning();
    Logging::instance().disable_info();
    verif_eigen_observer::get() = observer;
    const Spec specs[] = {{"klle", KernelLocallyLinearEmbedding, true},
                          {"kltsa", KernelLocalTangentSpaceAlignment, true},
                          {"hlle", HessianLocallyLinearEmbedding, true},
                          {"npe", NeighborhoodPreservingEmbedding, true},
                          {"lltsa", LinearLocalTangentSpaceAlignment, true},
                          {"lpp", LocalityPreservingProjections, false},
                          {"le", LaplacianEigenmaps, false},
                          {"isomap", Isomap, false},
                          {"lisomap", LandmarkIsomap, false},
                          {"spe", StochasticProximityEmbedding, false},
                          {"ms", ManifoldSculpting, false}};
    std::string line;
    while (std::getline(std::cin, line))
    {
        if (line.empty())
            continue;
        vh::case_alarm(120);
        auto f = vh::fields(line);
        vk::Space sp = vk::parse_space(f);
        sp.kern = "lin";
        std::vector<int> data = sp.range(); // identity, or the elements given by rng=
        int k = std::stoi(f["k"]);
        const Spec* spec = nullptr;
        for (auto& s : specs)
            if (f["meth"] == s.name)
                spec = &s;
        if (!spec)
        {
            std::cout << "bad-method" << std::endl;
            continue;
        }
        vk::DistCb dcb{&sp};
        vk::KernCb kcb{&sp};
        FeatCb fcb{&sp};
        NeighborsMethod nm = f.count("nm") ? vk::method_of(f["nm"]) : Brute;
        double lr = f.count("lr") ? vh::parse_num(f["lr"]) : 0.5;
        int d = f.count("d") ? std::stoi(f["d"]) : 1;
        g_calls = 0;
        g_gfin = true;
        g_minnz = -1;
        bool fin = false;
        std::string obs = "ok";
        vk::stream().pos = 0;
        long e0 = sp.ndist + sp.nkern;
        try
        {
            stichwort::ParametersSet parameters =
                (method = spec->m, num_neighbors = k, target_dimension = d, neighbors_method = nm, eigen_method = Dense,
                 gaussian_kernel_width = 1e18, landmark_ratio = lr, max_iteration = 1, spe_num_updates = 1,
                 spe_global_strategy = false);
            if (f["cc"] == "1")
                parameters.add(check_connectivity = true);
            else if (f["cc"] == "0")
                parameters.add(check_connectivity = false);
            TapkeeOutput out = tapkee::with(parameters).withKernel(kcb).withDistance(dcb).withFeatures(fcb).embedRange(
                data.begin(), data.end());
            fin = true;
            for (IndexType i = 0; i < out.embedding.rows(); i++)
                for (IndexType j = 0; j < out.embedding.cols(); j++)
                    if (!std::isfinite(out.embedding(i, j)))
                        fin = false;
        }
        catch (const std::exception& e)
        {
            obs = std::string("throw:") + e.what();
            for (auto& c : obs)
                if (c == ' ')
                    c = '_';
            obs = obs.substr(0, 80);
        }
        long evals = sp.ndist + sp.nkern - e0;
        long need1, need0;
        size_t kcc;
        if (spec->kernel_search)
        {
            vk::KernelD kd(kcb);
            vk::stream().pos = 0;
            long a = sp.ndist + sp.nkern;
            Neighbors w = find_neighbors(nm, data.begin(), data.end(), kd, k, true);
            need1 = sp.ndist + sp.nkern - a;
            vk::stream().pos = 0;
            a = sp.ndist + sp.nkern;
            find_neighbors(nm, data.begin(), data.end(), kd, k, false);
            need0 = sp.ndist + sp.nkern - a;
            kcc = w.empty() ? 0 : w[0].size();
        }
        else
        {
            vk::PlainD pd(dcb);
            vk::stream().pos = 0;
            long a = sp.ndist + sp.nkern;
            Neighbors w = find_neighbors(nm, data.begin(), data.end(), pd, k, true);
            need1 = sp.ndist + sp.nkern - a;
            vk::stream().pos = 0;
            a = sp.ndist + sp.nkern;
            find_neighbors(nm, data.begin(), data.end(), pd, k, false);
            need0 = sp.ndist + sp.nkern - a;
            kcc = w.empty() ? 0 : w[0].size();
        }
        vk::stream().pos = 0;
        vk::PlainD pd0(dcb);
        Neighbors no_check = find_neighbors(nm, data.begin(), data.end(), pd0, k, false);
        std::cout << "obs=" << obs << " fin=" << (fin ? 1 : 0) << " gfin=" << (g_gfin ? 1 : 0) << " calls=" << g_calls
                  << " minnz=" << g_minnz << " evals=" << evals << " need1=" << need1 << " need0=" << need0 << " kcc=" << kcc
                  << " callback=" << (spec->kernel_search ? "kernel" : "distance") << " lists0=" << vk::show_lists(no_check)
                  << sp.foreign_suffix() << std::endl;
    }
    return 0;
}
