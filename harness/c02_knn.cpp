// C02 correspondence harness: the three neighbour searches of tapkee through the internal entry point
//   tapkee::tapkee_internal::find_neighbors(method, begin, end, callback, k, false)
// in : knn method=brute|vptree|covertree k=3 cb=plain|kernel metric=L1|Linf|matrix pts=..|m=.. [kern=lin|matrix km=..] [vs=..] [rng=..]
// out: ids=1,2,3;0,2,3;...  [raw=q,c1,c2,..;..]  ev=<distance evals>,<kernel evals>,<uniform_random draws> [foreign=<n>]
//   foreign : number of callback arguments that were not elements of the range (only with rng=, only when > 0)
//   ids : the neighbour list of every sample, exactly as returned
//   raw : cover tree only — the candidate sets returned by CoverTreeWrapper::k_nearest_neighbor (entry 0 = the
//         query point), obtained by repeating the first half of find_neighbors_covertree_impl on the same inputs;
//         optional `tree=` dump of the cover tree for the well-formedness certificate (dump=1), followed by the values
//         of the two floating-point scale functions the construction is scheduled by (parameters of the Lean model
//         of batch_create): `gs=<d>/<get_scale(d)>,..` for every distinct positive distance between two samples (the
//         only arguments batch_insert can pass) and `ds=<s>/<dist_of_scale(s)>,..` for every scale from three below
//         the smallest to one above the largest of them
#include "knn_common.hpp"

using namespace tapkee;
using namespace tapkee::tapkee_internal;

template <class P> static void dump_node(const node<P>& n, vk::It begin, std::string& out)
{
    // preorder: id/scale/nchildren/maxdist/parentdist
    out += std::to_string((int)(n.p.iter_ - begin)) + "/" + std::to_string((int)n.scale) + "/" +
           std::to_string((int)n.num_children) + "/" + vh::num(n.max_dist) + "/" + vh::num(n.parent_dist) + ",";
    for (int i = 0; i < n.num_children; i++)
        dump_node(n.children[i], begin, out);
}

template <class Callback>
static std::string cover_raw(vk::It begin, vk::It end, Callback callback, IndexType k, bool dump)
{
    typedef CoverTreePoint<vk::It> TreePoint;
    v_array<TreePoint> points;
    for (vk::It iter = begin; iter != end; ++iter)
        push(points, TreePoint(iter, callback(iter, iter)));
    CoverTreeWrapper<TreePoint, Callback> cover_tree;
    node<TreePoint> ct = cover_tree.batch_create(callback, points);
    v_array<v_array<TreePoint>> res;
    ++k;
    cover_tree.k_nearest_neighbor(callback, ct, ct, res, k);
    std::string out = " raw=";
    for (int i = 0; i < res.index; ++i)
    {
        if (i)
            out += ";";
        for (int j = 0; j < res[i].index; ++j)
        {
            if (j)
                out += ",";
            out += std::to_string((int)(res[i][j].iter_ - begin));
        }
    }
    if (dump)
    {
        out += " tree=";
        dump_node(ct, begin, out);
        std::vector<ScalarType> ds;
        for (int i = 0; i < points.index; ++i)
            for (int j = 0; j < points.index; ++j)
                if (i != j)
                {
                    ScalarType d = distance(callback, points[i], points[j], std::numeric_limits<ScalarType>::max());
                    if (d > 0)
                        ds.push_back(d);
                }
        std::sort(ds.begin(), ds.end());
        ds.erase(std::unique(ds.begin(), ds.end()), ds.end());
        out += " gs=";
        int lo = 0, hi = -1;
        for (size_t i = 0; i < ds.size(); ++i)
        {
            int s = cover_tree.get_scale(ds[i]);
            if (i == 0 || s < lo)
                lo = s;
            if (i == 0 || s > hi)
                hi = s;
            out += vh::num(ds[i]) + "/" + std::to_string(s) + ",";
        }
        out += " ds=";
        if (!ds.empty())
            for (int s = lo - 3; s <= hi + 1; ++s)
                out += std::to_string(s) + "/" + vh::num(cover_tree.dist_of_scale(s)) + ",";
    }
    return out;
}

template <class Callback>
static std::string run(const std::string& method, vk::It begin, vk::It end, Callback cb, IndexType k, bool dump)
{
    Neighbors nb = find_neighbors(vk::method_of(method), begin, end, cb, k, false);
    std::string out = "ids=" + vk::show_lists(nb);
    if (method == "covertree")
        out += cover_raw(begin, end, cb, k, dump);
    return out;
}

int main()
{
    Logging::instance().disable_warning();
    std::string line;
    while (std::getline(std::cin, line))
    {
        if (line.empty())
            continue;
        vh::case_alarm(120);
        auto f = vh::fields(line);
        vk::Space sp = vk::parse_space(f);
        std::vector<int> data = sp.range(); // identity, or the elements given by rng=
        IndexType k = std::stoi(f["k"]);
        bool dump = f.count("dump") && f["dump"] == "1";
        std::string out;
        if (f["cb"] == "kernel")
            out = run(f["method"], data.begin(), data.end(), vk::KernelD(vk::KernCb{&sp}), k, dump);
        else
            out = run(f["method"], data.begin(), data.end(), vk::PlainD(vk::DistCb{&sp}), k, dump);
        std::cout << out << " ev=" << sp.ndist << "," << sp.nkern << "," << vk::stream().draws << sp.foreign_suffix() << std::endl;
    }
    return 0;
}
