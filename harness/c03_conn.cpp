// C03 correspondence harness: tapkee_internal::is_connected and find_neighbors(..., check_connectivity = true).
// in : conn N=5 lists=1,2;2,0;0,1;0,4;3,0
// out: c=<0|1> fin=<0|1|->          is_connected; "every entry of compute_shortest_distances_matrix is finite"
//                                   (unit edge weights; `-` when the lists are not uniform/in range and the Dijkstra
//                                   would read outside them)
// in : fn method=brute|vptree|covertree k=3 check=1 cb=plain|kernel <space fields of knn_common.hpp> [vs=..]
// out: ids=<final lists> kfinal=<length of the returned lists> rounds=<searches performed, counted through d(x,x)> c=<is_connected(final)> fin=<0|1> levels=<k:lists|..>
//      levels = the lists find_neighbors(.., k_j, false) returns for k_j = k, 2k, 4k, .. (clamped to N-1, up to N-1),
//      recomputed with the vantage stream replayed from the start, i.e. the graphs a doubling recursion can see.
//      Nothing is derived from log messages.
#include "knn_common.hpp"

using namespace tapkee;
using namespace tapkee::tapkee_internal;

struct UnitCb
{
    ScalarType distance(int a, int b) const
    {
        return a == b ? 0.0 : 1.0;
    }
};

static bool uniform_in_range(const Neighbors& nb, int N)
{
    if (nb.empty() || (int)nb.size() != N)
        return false;
    size_t k = nb[0].size();
    for (auto& l : nb)
    {
        if (l.size() < k)
            return false;
        for (size_t j = 0; j < k; j++)
            if (l[j] < 0 || l[j] >= N)
                return false;
    }
    return true;
}

static std::string finite_geodesics(std::vector<int>& data, Neighbors& nb)
{
    int N = (int)data.size();
    if (!uniform_in_range(nb, N))
        return "-";
    DenseSymmetricMatrix sd = compute_shortest_distances_matrix(data.begin(), data.end(), nb, UnitCb());
    for (int i = 0; i < N; i++)
        for (int j = 0; j < N; j++)
            if (!(sd(i, j) < 1e300))
                return "0";
    return "1";
}

template <class Callback>
static std::string run_fn(const std::string& method, std::vector<int>& data, Callback cb, IndexType k, bool check,
                          const vk::Space& sp)
{
    int N = (int)data.size();
    vk::stream().pos = 0;
    long self0 = sp.nself;
    Neighbors nb = find_neighbors(vk::method_of(method), data.begin(), data.end(), cb, k, check);
    long nself = sp.nself - self0;
    // the k of the returned graph is read off the lists themselves (never from log text)
    std::string out = "ids=" + vk::show_lists(nb) + " kfinal=" + std::to_string(nb.empty() ? 0 : (int)nb[0].size());
    // the number of searches the real recursion performed, observed through the distance callback (not assumed): every
    // search of each of the three methods evaluates d(x, x) exactly once per sample (plain callbacks), so the run made
    // nself / N searches; `-` when the count is not a multiple of N or the callback is a kernel (diagnostic unavailable)
    if (sp.metric.empty() || N == 0 || nself % N != 0 || nself == 0)
        out += " rounds=-";
    else
        out += " rounds=" + std::to_string(nself / N);
    bool uni = uniform_in_range(nb, N);
    out += std::string(" c=") + (uni ? (is_connected(data.begin(), data.end(), nb) ? "1" : "0") : "-");
    out += " fin=" + finite_geodesics(data, nb);
    // the searches a doubling recursion can perform from this k: k, 2k, 4k, ... each clamped to N-1, until N-1 is
    // reached (only the first one without the check); the vantage stream is replayed from the start, so level j sees
    // the draws the j-th search of the real recursion saw
    vk::stream().pos = 0;
    out += " levels=";
    IndexType kk = k;
    for (int j = 0; j < 64; j++)
    {
        if (kk > N - 1)
            kk = N - 1;
        Neighbors lv = find_neighbors(vk::method_of(method), data.begin(), data.end(), cb, kk, false);
        out += (j ? "|" : "") + std::to_string(kk) + ":" + vk::show_lists(lv);
        if (!check || kk >= N - 1 || kk <= 0)
            break;
        kk = 2 * kk;
    }
    return out;
}

int main()
{
    Logging::instance().disable_warning();
    Logging::instance().disable_info();
    std::string line;
    while (std::getline(std::cin, line))
    {
        if (line.empty())
            continue;
        vh::case_alarm(30);
        auto f = vh::fields(line);
        std::string out;
        if (line.rfind("conn ", 0) == 0)
        {
            int N = std::stoi(f["N"]);
            Neighbors nb;
            for (auto& l : vh::split(f["lists"], ';', true))
            {
                LocalNeighbors ln;
                for (auto& t : vh::split(l, ','))
                    ln.push_back(std::stoi(t));
                nb.push_back(ln);
            }
            std::vector<int> data(N);
            for (int i = 0; i < N; i++)
                data[i] = i;
            bool c = is_connected(data.begin(), data.end(), nb);
            out = std::string("c=") + (c ? "1" : "0") + " fin=" + finite_geodesics(data, nb);
        }
        else
        {
            vk::Space sp = vk::parse_space(f);
            std::vector<int> data = sp.range(); // identity, or the elements given by rng=
            IndexType k = std::stoi(f["k"]);
            bool check = !f.count("check") || f["check"] == "1";
            if (f["cb"] == "kernel")
                out = run_fn(f["method"], data, vk::KernelD(vk::KernCb{&sp}), k, check, sp);
            else
                out = run_fn(f["method"], data, vk::PlainD(vk::DistCb{&sp}), k, check, sp);
            out += sp.foreign_suffix();
        }
        std::cout << out << std::endl;
    }
    return 0;
}
