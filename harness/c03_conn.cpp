// C03 correspondence harness: tapkee_internal::is_connected and find_neighbors(..., check_connectivity = true).
// in : conn N=5 lists=1,2;2,0;0,1;0,4;3,0
// out: c=<0|1> fin=<0|1|->          is_connected; "every entry of compute_shortest_distances_matrix is finite"
//                                   (unit edge weights; `-` when the lists are not uniform/in range and the Dijkstra
//                                   would read outside them)
// in : fn method=brute|vptree|covertree k=3 check=1 cb=plain|kernel <space fields of knn_common.hpp> [vs=..]
// out: ids=<final lists> tried=<every k searched> c=<is_connected(final)> fin=<0|1> levels=<k:lists|k:lists|..>
//      levels = the lists find_neighbors(.., k_j, false) returns for every k_j that was tried, recomputed with the
//      vantage stream replayed from the start, i.e. exactly the graphs the connectivity test saw
#include "knn_common.hpp"

using namespace tapkee;
using namespace tapkee::tapkee_internal;

struct UnitCb
{
    ScalarType distance(int a, int b) const
    {
        return a == b ? 0.0 : 1.0;
    }
};

static bool uniform_in_range(const Neighbors& nb, int N)
{
    if (nb.empty() || (int)nb.size() != N)
        return false;
    size_t k = nb[0].size();
    for (auto& l : nb)
    {
        if (l.size() < k)
            return false;
        for (size_t j = 0; j < k; j++)
            if (l[j] < 0 || l[j] >= N)
                return false;
    }
    return true;
}

static std::string finite_geodesics(std::vector<int>& data, Neighbors& nb)
{
    int N = (int)data.size();
    if (!uniform_in_range(nb, N))
        return "-";
    DenseSymmetricMatrix sd = compute_shortest_distances_matrix(data.begin(), data.end(), nb, UnitCb());
    for (int i = 0; i < N; i++)
        for (int j = 0; j < N; j++)
            if (!(sd(i, j) < 1e300))
                return "0";
    return "1";
}

template <class Callback>
static std::string run_fn(const std::string& method, std::vector<int>& data, Callback cb, IndexType k, bool check,
                          vk::CaptureLogger* logger)
{
    int N = (int)data.size();
    logger->warnings.clear();
    vk::stream().pos = 0;
    Neighbors nb = find_neighbors(vk::method_of(method), data.begin(), data.end(), cb, k, check);
    // every k that was searched, as announced by the library's own log messages
    // ("The neighborhood graph with {k} neighbors is [not] connected")
    std::vector<IndexType> tried;
    for (auto& w : logger->warnings)
    {
        const std::string key = "The neighborhood graph with ";
        auto p = w.find(key);
        if (p != std::string::npos)
            tried.push_back(std::stoi(w.substr(p + key.size())));
    }
    (void)N;
    std::string out = "ids=" + vk::show_lists(nb) + " tried=";
    for (size_t j = 0; j < tried.size(); j++)
        out += (j ? "," : "") + std::to_string(tried[j]);
    bool uni = uniform_in_range(nb, N);
    out += std::string(" c=") + (uni ? (is_connected(data.begin(), data.end(), nb) ? "1" : "0") : "-");
    out += " fin=" + finite_geodesics(data, nb);
    // replay the searches the recursion performed
    vk::stream().pos = 0;
    out += " levels=";
    for (size_t j = 0; j < tried.size(); j++)
    {
        Neighbors lv = find_neighbors(vk::method_of(method), data.begin(), data.end(), cb, tried[j], false);
        out += (j ? "|" : "") + std::to_string(tried[j]) + ":" + vk::show_lists(lv);
    }
    return out;
}

int main()
{
    vk::CaptureLogger* logger = new vk::CaptureLogger();
    Logging::instance().set_logger_impl(logger);
    Logging::instance().enable_info();
    std::string line;
    while (std::getline(std::cin, line))
    {
        if (line.empty())
            continue;
        vh::case_alarm(10);
        auto f = vh::fields(line);
        std::string out;
        if (line.rfind("conn ", 0) == 0)
        {
            int N = std::stoi(f["N"]);
            Neighbors nb;
            for (auto& l : vh::split(f["lists"], ';', true))
            {
                LocalNeighbors ln;
                for (auto& t : vh::split(l, ','))
                    ln.push_back(std::stoi(t));
                nb.push_back(ln);
            }
            std::vector<int> data(N);
            for (int i = 0; i < N; i++)
                data[i] = i;
            bool c = is_connected(data.begin(), data.end(), nb);
            out = std::string("c=") + (c ? "1" : "0") + " fin=" + finite_geodesics(data, nb);
        }
        else
        {
            vk::Space sp = vk::parse_space(f);
            std::vector<int> data(sp.N);
            for (int i = 0; i < sp.N; i++)
                data[i] = i;
            IndexType k = std::stoi(f["k"]);
            bool check = !f.count("check") || f["check"] == "1";
            if (f["cb"] == "kernel")
                out = run_fn(f["method"], data, vk::KernelD(vk::KernCb{&sp}), k, check, logger);
            else
                out = run_fn(f["method"], data, vk::PlainD(vk::DistCb{&sp}), k, check, logger);
        }
        std::cout << out << std::endl;
    }
    return 0;
}
