// C12, the neighbour search alone on clouds of realistic size (N = 100..300); a separate small harness so that it
// can be built with the standard flags (-O1, ASan+UBSan) in seconds — the all-methods harness c12_meta.cpp is built at -O0.
//   knn nm=brute|vptree|covertree k=12 sh=e [us=e'] [seed=n] X=x,y;x,y;...
//     -> per sample the ascending list of the distances to the neighbours tapkee_internal::find_neighbors returns
//        (check_connectivity off), each divided by 2^us (exact), as one 16-hex-digit FNV hash of the bit patterns
//        per sample plus the list length:  `k:hash;k:hash;...`
// The sorted neighbour distances are determined by the pairwise distances alone (also under ties): they must be
// permuted by a permutation of the samples, unchanged by a rigid motion, scaled by a scale, and the same for all
// three search methods.  Integer coordinates: squared distances are exact, sqrt is correctly rounded, so equal
// distances have equal bit patterns.
#include <tapkee/defines.hpp>
#include <tapkee/neighbors/neighbors.hpp>

#include "vcommon.hpp"

#include <cstring>

using namespace tapkee;

struct cloud_distance
{
    const std::vector<double>* X;
    int D;
    inline ScalarType distance(IndexType a, IndexType b) const
    {
        double s = 0;
        for (int t = 0; t < D; t++)
        {
            double d = (*X)[(size_t)a * D + t] - (*X)[(size_t)b * D + t];
            s += d * d;
        }
        return std::sqrt(s);
    }
};

int main()
{
    Logging::instance().disable_warning();
    std::string line;
    while (std::getline(std::cin, line))
    {
        if (line.empty())
            continue;
        auto f = vh::fields(line);
        vh::case_alarm(40);
        std::string out;
        try
        {
            int sh = f.count("sh") ? std::stoi(f["sh"]) : 0;
            int us = f.count("us") ? std::stoi(f["us"]) : 0;
            auto rows = vh::split(f["X"], ';');
            int N = (int)rows.size(), D = 0;
            std::vector<double> X;
            for (auto& r : rows)
            {
                auto v = vh::parse_ints(r);
                D = (int)v.size();
                for (long c : v)
                    X.push_back(std::ldexp((double)c, -sh));
            }
            std::vector<IndexType> idx(N);
            for (int i = 0; i < N; i++)
                idx[i] = i;
            NeighborsMethod nm = Brute;
            if (f["nm"] == "vptree")
                nm = VpTree;
            else if (f["nm"] == "covertree")
                nm = CoverTree;
            if (f.count("seed"))
                std::srand((unsigned)std::stoul(f["seed"]));
            cloud_distance dcb{&X, D};
            typedef std::vector<IndexType>::iterator It;
            tapkee_internal::PlainDistance<It, cloud_distance> pd(dcb);
            tapkee_internal::Neighbors nb =
                tapkee_internal::find_neighbors(nm, idx.begin(), idx.end(), pd, (IndexType)std::stoi(f["k"]), false);
            for (size_t i = 0; i < nb.size(); i++)
            {
                std::vector<double> ds;
                for (auto j : nb[i])
                    ds.push_back(std::ldexp(dcb.distance((IndexType)i, j), -us));
                std::sort(ds.begin(), ds.end());
                uint64_t h = 1469598103934665603ULL;
                for (double d : ds)
                {
                    uint64_t bits;
                    std::memcpy(&bits, &d, 8);
                    for (int b = 0; b < 8; b++)
                    {
                        h ^= (bits >> (8 * b)) & 0xff;
                        h *= 1099511628211ULL;
                    }
                }
                char buf[40];
                snprintf(buf, sizeof buf, "%zu:%016llx", ds.size(), (unsigned long long)h);
                if (i)
                    out += ";";
                out += buf;
            }
        }
        catch (const std::exception& e)
        {
            out = std::string("harness-error:") + e.what();
        }
        vh::case_alarm(0);
        std::cout << out << std::endl;
    }
    return 0;
}
