#!/usr/bin/env python3
"""Self-test of tools/translate_index.py against behaviour-preserving rewrites applied mechanically to EVERY header of a
scratch copy of the repository: the generated definitions (doc comments aside) must not change and no anchor may fail.

    python3 tools/test_translate_robust.py            # uses TAPKEE_REPO or /repo, prints one line per rewrite"""
import os, re, shutil, subprocess, sys, tempfile
sys.path.insert(0, os.path.dirname(os.path.abspath(__file__)))
sys.path.insert(0, os.path.dirname(os.path.dirname(os.path.abspath(__file__))))
import translate_index as T


def defs(text):
    return [l for l in text.split("\n") if l and not l.startswith(("/--", "--", "    ")) and not l.startswith("/-")]


def strip_single_braces(s):
    prev = None
    while prev != s:
        prev = s
        s = re.sub(r"(\b(?:for|while|if)\s*\((?:[^(){};]|;|\((?:[^(){}]|\([^(){}]*\))*\))*\)|\belse)(\s*)\{\s*([^{};#]+;)\s*\}", r"\1\2\3", s)
    return s


REWRITES = {
    "post-increment in for headers": lambda s: re.sub(r"; \+\+(\w+)\)", r"; \1++)", s),
    "pre-increment everywhere": lambda s: re.sub(r"\b(\w+)\+\+(\s*[);])", r"++\1\2", s),
    "i += 1 in for headers": lambda s: re.sub(r"; (?:\+\+(\w+)|(\w+)\+\+)\)", lambda m: "; %s += 1)" % (m.group(1) or m.group(2)), s),
    "drop .noalias()": lambda s: s.replace(".noalias()", ""),
    "NULL -> nullptr": lambda s: re.sub(r"\bNULL\b", "nullptr", s),
    "typedef -> using": lambda s: re.sub(r"\btypedef ([^;{}]+?) (\w+);", r"using \2 = \1;", s),
    "no braces around single statements": strip_single_braces,
    "flipped loop conditions": lambda s: re.sub(r"(for \([^;()]*?\b(\w+) = [^;]*; )\2 (<=|<) ([^;]+);",
                                                 lambda m: "%s%s %s %s;" % (m.group(1), m.group(4), ">" if m.group(3) == "<" else ">=", m.group(2)), s),
    "joined lines / other indentation": lambda s: re.sub(r"\n[ \t]+(?!#)", "\n  ", re.sub(r",\n\s+", ", ", s)),
    "int loop counters": lambda s: re.sub(r"for \(IndexType (\w+) = 0;", r"for (int \1 = 0;", s),
    "comments added": lambda s: re.sub(r";\n", "; // touched\n", s),
    "while (c) -> for (; c;)": lambda s: re.sub(r"\bwhile \(((?:[^()]|\([^()]*\))+)\)(\s*\{)", r"for (; \1;)\2", s),
    "TAPKEE_VERIF hook blocks added": lambda s: re.sub(r"(\n[ \t]*zeroMean\(Y, N, no_dims\);\n)", r"\1#ifdef TAPKEE_VERIF\n    if (extra_observer()) extra_observer()(iter);\n#endif\n", s),
    "x == false -> !x": lambda s: re.sub(r"\((\w+(?:\[\w+\])?) == false\)", r"(!\1)", s),
}


def main():
    repo = os.environ.get("TAPKEE_REPO", "/repo")
    ref = defs(T.render(repo))
    bad = 0
    for name, fn in REWRITES.items():
        scratch = tempfile.mkdtemp(prefix="c01-robust-", dir="/var/tmp")
        try:
            shutil.copytree(os.path.join(repo, "include"), os.path.join(scratch, "include"))
            changed = 0
            for d, _, files in os.walk(os.path.join(scratch, "include")):
                for f in files:
                    if f.endswith(".hpp"):
                        p = os.path.join(d, f)
                        s = open(p).read()
                        s2 = fn(s)
                        if s2 != s:
                            changed += 1
                            open(p, "w").write(s2)
            try:
                got = defs(T.render(scratch))
                diff = [(a, b) for a, b in zip(ref, got) if a != b]
                if diff or len(ref) != len(got):
                    bad += 1
                    print("DIFFERS  %-40s (%d files touched): %s" % (name, changed, diff[:2]))
                else:
                    print("same     %-40s (%d files touched)" % (name, changed))
            except T.TranslateError as ex:
                bad += 1
                print("RAISES   %-40s (%d files touched): %s" % (name, changed, str(ex)[:200]))
        finally:
            shutil.rmtree(scratch, ignore_errors=True)
    return 1 if bad else 0


if __name__ == "__main__":
    sys.exit(main())
