#!/usr/bin/env python3
"""Self-test of tools/translate_index.py against behaviour-preserving rewrites applied mechanically to EVERY header of a
scratch copy of the repository: the generated definitions (doc comments aside) must not change and no anchor may fail; the site inventory of
tools/translate_sites.py must raise no alarm on them (no sweep-only row beyond Props/C01Sites.accepted), nor on any of the
committed behaviour-preserving refactorings under /verif/harmless.

    python3 tools/test_translate_robust.py            # uses TAPKEE_REPO or /repo, prints one line per rewrite"""
import os, re, shutil, subprocess, sys, tempfile
sys.path.insert(0, os.path.dirname(os.path.abspath(__file__)))
sys.path.insert(0, os.path.dirname(os.path.dirname(os.path.abspath(__file__))))
import translate_index as T
import translate_sites as S

ROOT = os.path.dirname(os.path.dirname(os.path.abspath(__file__)))


def accepted_sites():
    """the pinned sweep-only rows of lean/TapkeeVerif/Props/C01Sites.lean"""
    src = open(os.path.join(ROOT, "lean", "TapkeeVerif", "Props", "C01Sites.lean")).read()
    i = src.index("def accepted : List Key := [")
    j = src.index("\n]", i)
    row = re.compile(r'^\s*\("((?:[^"\\]|\\.)*)", "((?:[^"\\]|\\.)*)", "((?:[^"\\]|\\.)*)", (\d+)\),?', re.M)
    un = lambda t: t.replace('\\"', '"').replace("\\\\", "\\")
    return {(un(m.group(1)), un(m.group(2)), un(m.group(3))): int(m.group(4)) for m in row.finditer(src[i:j])}


def sites_verdict(repo, label, acc):
    """the site inventory of a rewritten tree must raise no alarm: no sweep-only row beyond the accepted ones"""
    try:
        _, _, sites, mg = S.render(repo)
    except T.TranslateError as ex:
        print("RAISES   sites: %-33s %s" % (label, str(ex)[:200]))
        return 1
    cur = S.sweep_only_keys(mg)
    bad = [(k, cur[k], acc.get(k, 0)) for k in sorted(cur) if cur[k] > acc.get(k, 0)]
    if bad:
        print("ALARM    sites: %-33s %d unaccepted sweep-only row(s): %s" % (label, len(bad), bad[:3]))
        return 1
    sm = S.summary(sites)
    print("same     sites: %-33s (%d sites: %d theorem, %d loopvar, %d sweep-only)" % (label, sm["sites"], sm["theorem"], sm["loopvar"], sm["sweep_only"]))
    return 0


def harmless_patches(repo, acc):
    """every committed behaviour-preserving refactoring under /verif/harmless that touches include/tapkee"""
    bad = 0
    H = os.path.join(ROOT, "harmless")
    for hid in sorted(os.listdir(H)) if os.path.isdir(H) else []:
        patch = os.path.join(H, hid, "patch.diff")
        if not os.path.exists(patch) or "include/tapkee" not in open(patch).read():
            continue
        scratch = tempfile.mkdtemp(prefix="c01-robust-", dir="/var/tmp")
        try:
            shutil.copytree(os.path.join(repo, "include"), os.path.join(scratch, "include"))
            r = subprocess.run(["patch", "-p1", "--fuzz=3", "-s", "-i", patch], cwd=scratch, capture_output=True, text=True)
            if r.returncode:
                print("same     sites: %-33s (patch does not apply to this tree: skipped)" % ("harmless/" + hid))
                continue
            bad += sites_verdict(scratch, "harmless/" + hid, acc)
        finally:
            shutil.rmtree(scratch, ignore_errors=True)
    return bad


def defs(text):
    return [l for l in text.split("\n") if l and not l.startswith(("/--", "--", "    ")) and not l.startswith("/-")]


def strip_single_braces(s):
    prev = None
    while prev != s:
        prev = s
        s = re.sub(r"(\b(?:for|while|if)\s*\((?:[^(){};]|;|\((?:[^(){}]|\([^(){}]*\))*\))*\)|\belse)(\s*)\{\s*([^{};#]+;)\s*\}", r"\1\2\3", s)
    return s


REWRITES = {
    "post-increment in for headers": lambda s: re.sub(r"; \+\+(\w+)\)", r"; \1++)", s),
    "pre-increment everywhere": lambda s: re.sub(r"\b(\w+)\+\+(\s*[);])", r"++\1\2", s),
    "i += 1 in for headers": lambda s: re.sub(r"; (?:\+\+(\w+)|(\w+)\+\+)\)", lambda m: "; %s += 1)" % (m.group(1) or m.group(2)), s),
    "drop .noalias()": lambda s: s.replace(".noalias()", ""),
    "NULL -> nullptr": lambda s: re.sub(r"\bNULL\b", "nullptr", s),
    "typedef -> using": lambda s: re.sub(r"\btypedef ([^;{}]+?) (\w+);", r"using \2 = \1;", s),
    "no braces around single statements": strip_single_braces,
    "flipped loop conditions": lambda s: re.sub(r"(for \([^;()]*?\b(\w+) = [^;]*; )\2 (<=|<) ([^;]+);",
                                                 lambda m: "%s%s %s %s;" % (m.group(1), m.group(4), ">" if m.group(3) == "<" else ">=", m.group(2)), s),
    "joined lines / other indentation": lambda s: re.sub(r"\n[ \t]+(?!#)", "\n  ", re.sub(r",\n\s+", ", ", s)),
    "int loop counters": lambda s: re.sub(r"for \(IndexType (\w+) = 0;", r"for (int \1 = 0;", s),
    "comments added": lambda s: re.sub(r";\n", "; // touched\n", s),
    "while (c) -> for (; c;)": lambda s: re.sub(r"\bwhile \(((?:[^()]|\([^()]*\))+)\)(\s*\{)", r"for (; \1;)\2", s),
    "TAPKEE_VERIF hook blocks added": lambda s: re.sub(r"(\n[ \t]*zeroMean\(Y, N, no_dims\);\n)", r"\1#ifdef TAPKEE_VERIF\n    if (extra_observer()) extra_observer()(iter);\n#endif\n", s),
    "x == false -> !x": lambda s: re.sub(r"\((\w+(?:\[\w+\])?) == false\)", r"(!\1)", s),
}


def main():
    repo = os.environ.get("TAPKEE_REPO", "/repo")
    ref = defs(T.render(repo))
    acc = accepted_sites()
    bad = sites_verdict(repo, "unchanged tree", acc)
    for name, fn in REWRITES.items():
        scratch = tempfile.mkdtemp(prefix="c01-robust-", dir="/var/tmp")
        try:
            shutil.copytree(os.path.join(repo, "include"), os.path.join(scratch, "include"))
            changed = 0
            for d, _, files in os.walk(os.path.join(scratch, "include")):
                for f in files:
                    if f.endswith(".hpp"):
                        p = os.path.join(d, f)
                        s = open(p).read()
                        s2 = fn(s)
                        if s2 != s:
                            changed += 1
                            open(p, "w").write(s2)
            try:
                got = defs(T.render(scratch))
                diff = [(a, b) for a, b in zip(ref, got) if a != b]
                if diff or len(ref) != len(got):
                    bad += 1
                    print("DIFFERS  %-40s (%d files touched): %s" % (name, changed, diff[:2]))
                else:
                    print("same     %-40s (%d files touched)" % (name, changed))
            except T.TranslateError as ex:
                bad += 1
                print("RAISES   %-40s (%d files touched): %s" % (name, changed, str(ex)[:200]))
            bad += sites_verdict(scratch, name, acc)
        finally:
            shutil.rmtree(scratch, ignore_errors=True)
    bad += harmless_patches(repo, acc)
    return 1 if bad else 0


if __name__ == "__main__":
    sys.exit(main())
