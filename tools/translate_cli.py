#!/usr/bin/env python3
"""C20 translator (DESIGN §2.2 (T)):  /repo/src/cli/{main.cpp,util.hpp} + defines/{keywords,methods}.hpp +
parameters/defaults.hpp   ->   lean/TapkeeVerif/Gen/Cli.lean   (Lean DATA only, types in Model/CliSyntax.lean).

A tokenizer + a small recursive-descent parser for the C++ subset that `run()` and `main()` are written in, followed
by a symbolic execution of `run()` in which every local variable is replaced by its definition, so that the tables
speak about *options* only (renaming a local or reordering independent statements leaves them unchanged up to row
order).  Anything the parser or the executor does not understand raises `TranslateError` — nothing is skipped.

Emitted tables
  cliOptions    option rows  (names, type, default literal, has-value, help pieces)
  cliWiring     `tapkee::kw = expr` rows of `tapkee::kwargs[( … )]`
  cliSteps      the file / data statements, guards (`if (c) { …; return n; }`, `catch { …; return n; }`) and effects of
                run(), in source order, each with its path condition
  cliMainCatch  exit codes of the catch clauses of main()
  nameMaps      the std::map tables of util.hpp (with the #ifdef branches the harness flags select)
  libConsts / libTraits / libKeywords / libDefaults   method constants, traits, ParameterKeyword rows, `defaults` set
"""
import os
import re
import sys

sys.path.insert(0, os.path.dirname(os.path.dirname(os.path.abspath(__file__))))
import vlib  # noqa: E402


class TranslateError(Exception):
    pass


# --------------------------------------------------------------------------------------------- tokenizer
PUNCT3 = ["...", "<<=", ">>=", "->*"]
PUNCT2 = ["::", "->", "<<", ">>", "<=", ">=", "==", "!=", "&&", "||", "++", "--", "+=", "-=", "*=", "/=", "|=", "&="]
PUNCT1 = list("{}[]()<>;:,.?~!+-*/%^&|=#")


class Tok:
    __slots__ = ("kind", "text", "line", "sfx")

    def __init__(self, kind, text, line, sfx=""):
        self.kind, self.text, self.line, self.sfx = kind, text, line, sfx

    def __repr__(self):
        return "%s:%r@%d" % (self.kind, self.text, self.line)


def defines_from_flags():
    ds = {}
    for f in vlib.HARNESS_FLAGS:
        if f.startswith("-D"):
            k, _, v = f[2:].partition("=")
            ds[k] = v or "1"
    return ds


def preprocess(src, path, defines):
    """evaluate #ifdef/#ifndef/#else/#endif against `defines`; keep line numbers; other directives: #include, #pragma and
    object-like #define are dropped (the #define is recorded); anything else raises"""
    out = []
    stack = []  # (active_before, taken, in_else)
    active = True
    macros = {}
    lines = src.split("\n")
    i = 0
    while i < len(lines):
        line = lines[i]
        s = line.strip()
        if s.startswith("#"):
            while s.endswith("\\"):
                i += 1
                out.append("")
                s = s[:-1] + " " + lines[i].strip()
            d = re.match(r"#\s*(\w+)\s*(.*)", s)
            if not d:
                raise TranslateError("%s:%d: bad directive %r" % (path, i + 1, s))
            name, rest = d.group(1), d.group(2).strip()
            if name in ("ifdef", "ifndef"):
                m = re.fullmatch(r"(\w+)", rest)
                if not m:
                    raise TranslateError("%s:%d: unsupported #%s %r" % (path, i + 1, name, rest))
                c = (m.group(1) in defines) ^ (name == "ifndef")
                stack.append((active, c))
                active = active and c
            elif name == "else":
                if not stack:
                    raise TranslateError("%s:%d: stray #else" % (path, i + 1))
                prev, c = stack[-1]
                stack[-1] = (prev, not c)
                active = prev and not c
            elif name == "endif":
                if not stack:
                    raise TranslateError("%s:%d: stray #endif" % (path, i + 1))
                prev, _ = stack.pop()
                active = prev
            elif name in ("include", "pragma"):
                pass
            elif name == "define":
                m = re.fullmatch(r"(\w+)(?:\s+(.*))?", rest)
                if not m:
                    raise TranslateError("%s:%d: function-like macro %r not understood" % (path, i + 1, rest))
                if active:
                    macros[m.group(1)] = (m.group(2) or "").strip()
            else:
                raise TranslateError("%s:%d: unsupported directive #%s" % (path, i + 1, name))
            out.append("")
        else:
            out.append(line if active else "")
        i += 1
    if stack:
        raise TranslateError("%s: unterminated #if" % path)
    return "\n".join(out), macros


def tokenize(src, path):
    toks = []
    i, n, line = 0, len(src), 1
    while i < n:
        c = src[i]
        if c == "\n":
            line += 1
            i += 1
        elif c in " \t\r\f\v":
            i += 1
        elif src.startswith("//", i):
            j = src.find("\n", i)
            i = n if j < 0 else j
        elif src.startswith("/*", i):
            j = src.find("*/", i)
            if j < 0:
                raise TranslateError("%s:%d: unterminated comment" % (path, line))
            line += src.count("\n", i, j)
            i = j + 2
        elif c == '"':
            j = i + 1
            buf = []
            while j < n and src[j] != '"':
                if src[j] == "\\":
                    e = src[j + 1]
                    m = {"n": "\n", "t": "\t", "\\": "\\", '"': '"', "'": "'", "0": "\0", "r": "\r"}
                    if e not in m:
                        raise TranslateError("%s:%d: escape \\%s not understood" % (path, line, e))
                    buf.append(m[e])
                    j += 2
                else:
                    if src[j] == "\n":
                        raise TranslateError("%s:%d: newline in string" % (path, line))
                    buf.append(src[j])
                    j += 1
            if j >= n:
                raise TranslateError("%s:%d: unterminated string" % (path, line))
            j += 1
            sfx = ""
            m = re.match(r"[A-Za-z_]\w*", src[j:])
            if m:
                sfx = m.group(0)
                if sfx != "s":
                    raise TranslateError("%s:%d: string suffix %r not understood" % (path, line, sfx))
                j += len(sfx)
            toks.append(Tok("str", "".join(buf), line, sfx))
            i = j
        elif c == "'":
            m = re.match(r"'(\\.|[^'\\])'", src[i:])
            if not m:
                raise TranslateError("%s:%d: bad char literal" % (path, line))
            t = m.group(1)
            if t.startswith("\\"):
                t = {"n": "\n", "t": "\t", "\\": "\\", "'": "'", "0": "\0", '"': '"'}.get(t[1])
                if t is None:
                    raise TranslateError("%s:%d: char escape not understood" % (path, line))
            toks.append(Tok("chr", t, line))
            i += len(m.group(0))
        elif c.isdigit() or (c == "." and i + 1 < n and src[i + 1].isdigit()):
            m = re.match(r"(0[xX][0-9a-fA-F]+|(\d+\.?\d*|\.\d+)([eE][+-]?\d+)?)([uUlLfF]*)", src[i:])
            toks.append(Tok("num", m.group(1), line, m.group(4)))
            i += len(m.group(0))
        elif c.isalpha() or c == "_":
            m = re.match(r"[A-Za-z_]\w*", src[i:])
            toks.append(Tok("id", m.group(0), line))
            i += len(m.group(0))
        else:
            for p in PUNCT3 + PUNCT2:
                if src.startswith(p, i):
                    toks.append(Tok("p", p, line))
                    i += len(p)
                    break
            else:
                if c in PUNCT1:
                    toks.append(Tok("p", c, line))
                    i += 1
                else:
                    raise TranslateError("%s:%d: character %r not understood" % (path, line, c))
    toks.append(Tok("eof", "", line))
    return toks


# --------------------------------------------------------------------------------------------- parser
TEMPLATE_NAMES = {"as", "static_cast", "dynamic_cast", "reinterpret_cast", "const_cast", "vector", "value", "map",
                  "is_same_v", "min"}
TYPE_WORDS = {"const", "static", "unsigned", "signed", "long", "short", "int", "double", "float", "bool", "char", "auto",
              "void", "size_t", "inline", "typename"}


class Parser:
    def __init__(self, toks, path):
        self.t = toks
        self.i = 0
        self.path = path

    # -- helpers
    def peek(self, k=0):
        return self.t[min(self.i + k, len(self.t) - 1)]

    def at(self, text, k=0):
        x = self.peek(k)
        return x.kind in ("p", "id") and x.text == text

    def next(self):
        x = self.t[self.i]
        self.i += 1
        return x

    def fail(self, what):
        x = self.peek()
        ctx = " ".join(y.text for y in self.t[max(0, self.i - 6): self.i + 6])
        raise TranslateError("%s:%d: %s (near `%s`)" % (self.path, x.line, what, ctx))

    def expect(self, text):
        if not self.at(text):
            self.fail("expected `%s`" % text)
        return self.next()

    def accept(self, text):
        if self.at(text):
            self.next()
            return True
        return False

    # -- balanced skipping
    def skip_balanced(self, open_, close):
        """at `open_`: returns the tokens strictly inside the matching pair and moves past `close`"""
        self.expect(open_)
        depth = 1
        start = self.i
        while depth:
            x = self.next()
            if x.kind == "eof":
                self.fail("unbalanced %s%s" % (open_, close))
            if x.kind == "p" and x.text == open_:
                depth += 1
            elif x.kind == "p" and x.text == close:
                depth -= 1
        return self.t[start:self.i - 1]

    def template_args_text(self):
        """at `<`: text of a template argument list (no comparison operators can occur inside)"""
        self.expect("<")
        depth = 1
        parts = []
        while depth:
            x = self.next()
            if x.kind == "eof":
                self.fail("unbalanced template argument list")
            if x.kind == "p" and x.text == "<":
                depth += 1
            elif x.kind == "p" and x.text == ">":
                depth -= 1
                if depth == 0:
                    break
            elif x.kind == "p" and x.text == ">>":
                depth -= 2
                if depth <= 0:
                    if depth < 0:
                        self.fail("template `>>`")
                    parts.append(">")
                    break
            elif x.kind == "p" and x.text in (";", "{", "}"):
                self.fail("template argument list runs into `%s`" % x.text)
            parts.append(x.text)
        return "".join(p if p not in ("const", "unsigned") else p + " " for p in parts)

    # -- types / declarations
    def try_type(self):
        """tries to read `[const|static…] qualified::name[<…>] [const] [*&]*`; returns text or None (position restored)"""
        save = self.i
        words = []
        while self.peek().kind == "id" and self.peek().text in ("const", "static", "inline", "typename"):
            words.append(self.next().text)
        if self.peek().kind != "id":
            self.i = save
            return None
        name = []
        # builtin multiword types
        if self.peek().text in ("unsigned", "signed", "long", "short"):
            while self.peek().kind == "id" and self.peek().text in ("unsigned", "signed", "long", "short", "int", "char"):
                name.append(self.next().text)
            name = [" ".join(name)]
        else:
            if self.peek().text in ("return", "if", "else", "for", "while", "try", "catch", "throw", "new", "delete",
                                    "using", "true", "false", "this", "break", "continue", "do", "switch", "case"):
                self.i = save
                return None
            name.append(self.next().text)
            while True:
                if self.at("::") and self.peek(1).kind == "id":
                    self.next()
                    name.append("::" + self.next().text)
                elif self.at("<") and (name[-1].lstrip(":") in TEMPLATE_NAMES):
                    name.append("<" + self.template_args_text() + ">")
                else:
                    break
        while self.peek().kind == "id" and self.peek().text == "const":
            self.next()
        ptr = ""
        while self.at("*") or self.at("&"):
            ptr += self.next().text
        return "".join(name) + ptr

    def try_declaration(self):
        """`type name [= expr | (args) | {args}] ;`  — returns ('decl', type, name, kind, init) or None"""
        save = self.i
        ty = self.try_type()
        if ty is None or self.peek().kind != "id" or self.peek().text in TYPE_WORDS:
            self.i = save
            return None
        name = self.peek().text
        nxt = self.peek(1)
        if not (nxt.kind == "p" and nxt.text in ("=", "(", ";", "{")):
            self.i = save
            return None
        line = self.peek().line
        self.next()
        if self.accept(";"):
            return ("decl", ty, name, "none", None, line)
        if self.accept("="):
            e = self.expr()
            self.expect(";")
            return ("decl", ty, name, "copy", e, line)
        if self.at("("):
            self.next()
            args = self.arglist(")")
            self.expect(";")
            return ("decl", ty, name, "ctor", args, line)
        self.fail("brace initialiser not understood")

    # -- statements
    def block(self):
        self.expect("{")
        out = []
        while not self.at("}"):
            if self.peek().kind == "eof":
                self.fail("unterminated block")
            out.append(self.statement())
        self.expect("}")
        return ("block", out)

    def statement(self):
        x = self.peek()
        line = x.line
        if self.at("{"):
            return self.block()
        if self.at(";"):
            self.next()
            return ("empty",)
        if x.kind == "id":
            if x.text == "if":
                self.next()
                if self.at("constexpr"):
                    self.fail("`if constexpr` in a body the translator has to execute")
                self.expect("(")
                c = self.expr()
                self.expect(")")
                a = self.statement()
                b = None
                if self.accept("else"):
                    b = self.statement()
                return ("if", c, a, b, line)
            if x.text == "return":
                self.next()
                e = None if self.at(";") else self.expr()
                self.expect(";")
                return ("return", e, line)
            if x.text == "try":
                self.next()
                body = self.block()
                catches = []
                while self.at("catch"):
                    self.next()
                    what = " ".join(t.text for t in self.skip_balanced("(", ")"))
                    catches.append((what, self.block()))
                if not catches:
                    self.fail("try without catch")
                return ("try", body, catches, line)
            if x.text == "for":
                self.next()
                self.expect("(")
                save = self.i
                ty = self.try_type()
                if ty is not None and self.peek().kind == "id" and self.at(":", 1):
                    name = self.next().text
                    self.next()
                    rng = self.expr()
                    self.expect(")")
                    return ("rangefor", ty, name, rng, self.statement(), line)
                self.i = save
                init = self.try_declaration()
                if init is None:
                    init = ("expr", self.expr(), line)
                    self.expect(";")
                cond = self.expr()
                self.expect(";")
                step = self.expr()
                self.expect(")")
                body = self.statement()
                return ("for", init, cond, step, body, line)
            if x.text == "using":
                self.next()
                ts = []
                while not self.at(";"):
                    ts.append(self.next().text)
                self.expect(";")
                return ("using", " ".join(ts), line)
            if x.text in ("while", "do", "switch", "goto", "throw", "break", "continue"):
                self.fail("statement `%s` not understood" % x.text)
        d = self.try_declaration()
        if d is not None:
            return d
        e = self.expr()
        self.expect(";")
        return ("expr", e, line)

    # -- expressions (precedence climbing)
    BIN = [("||",), ("&&",), ("|",), ("^",), ("&",), ("==", "!="), ("<", "<=", ">", ">="), ("<<", ">>"), ("+", "-"),
           ("*", "/", "%")]

    def expr(self):
        """assignment-expression (commas only inside explicit parentheses: see primary)"""
        lhs = self.binary(0)
        if self.peek().kind == "p" and self.peek().text in ("=", "+=", "-=", "*=", "/="):
            op = self.next().text
            rhs = self.expr()
            return ("assign", op, lhs, rhs)
        if self.at("?"):
            self.next()
            a = self.expr()
            self.expect(":")
            b = self.expr()
            return ("cond", lhs, a, b)
        return lhs

    def binary(self, level):
        if level == len(self.BIN):
            return self.unary()
        lhs = self.binary(level + 1)
        while self.peek().kind == "p" and self.peek().text in self.BIN[level]:
            op = self.next().text
            rhs = self.binary(level + 1)
            lhs = ("bin", op, lhs, rhs)
        return lhs

    def unary(self):
        x = self.peek()
        if x.kind == "p" and x.text in ("!", "-", "+", "&", "*", "++", "--", "~"):
            self.next()
            return ("un", x.text, self.unary())
        return self.postfix()

    def arglist(self, close):
        args = []
        if self.accept(close):
            return args
        while True:
            args.append(self.expr())
            if self.accept(close):
                return args
            self.expect(",")

    def postfix(self):
        e = self.primary()
        while True:
            if self.at("("):
                self.next()
                e = ("call", e, self.arglist(")"))
            elif self.at("["):
                self.next()
                idx = self.expr()
                self.expect("]")
                e = ("index", e, idx)
            elif self.at(".") or self.at("->"):
                arrow = self.next().text == "->"
                if self.peek().kind != "id":
                    self.fail("member name expected")
                name = self.next().text
                if self.at("<") and name in TEMPLATE_NAMES:
                    name += "<" + self.template_args_text() + ">"
                e = ("member", e, name, arrow)
            elif self.at("++") or self.at("--"):
                e = ("post", self.next().text, e)
            else:
                return e

    def primary(self):
        x = self.peek()
        if x.kind == "num":
            self.next()
            return ("num", x.text, x.sfx)
        if x.kind == "str":
            parts = []
            sfx = ""
            while self.peek().kind == "str":
                y = self.next()
                parts.append(y.text)
                sfx = y.sfx
            return ("str", "".join(parts), sfx)
        if x.kind == "chr":
            self.next()
            return ("chr", x.text)
        if self.at("("):
            self.next()
            items = [self.expr()]
            while self.accept(","):
                items.append(self.expr())
            self.expect(")")
            return items[0] if len(items) == 1 else ("comma", items)
        if self.at("["):
            self.fail("lambda expression in a body the translator has to execute")
        if x.kind == "id":
            if x.text in ("static_cast", "dynamic_cast", "reinterpret_cast", "const_cast"):
                self.next()
                ty = self.template_args_text()
                self.expect("(")
                e = self.expr()
                self.expect(")")
                return ("cast", x.text, ty, e)
            if x.text in ("new", "delete", "sizeof", "throw"):
                self.fail("`%s` not understood" % x.text)
            name = self.next().text
            while True:
                if self.at("::") and self.peek(1).kind == "id":
                    self.next()
                    name += "::" + self.next().text
                elif self.at("<") and name.split("::")[-1] in TEMPLATE_NAMES:
                    name += "<" + self.template_args_text() + ">"
                else:
                    break
            return ("id", name)
        self.fail("expression expected")


# --------------------------------------------------------------------------------------------- file level
def top_level(path, defines):
    """returns (string_consts, help_consts, maps, functions{name: (params_text, body_tokens)}, macros)"""
    raw = open(path).read()
    src, macros = preprocess(raw, path, defines)
    toks = tokenize(src, path)
    # object-like macros of this file (TAPKEE_CURRENT_GIT_INFO): substitute their token sequence
    for _ in range(4):
        if not any(t.kind == "id" and t.text in macros for t in toks):
            break
        new = []
        for t in toks:
            if t.kind == "id" and t.text in macros:
                if not macros[t.text]:
                    raise TranslateError("%s:%d: empty macro %s used in code" % (path, t.line, t.text))
                sub = tokenize(macros[t.text], path)[:-1]
                for u in sub:
                    u.line = t.line
                new += sub
            else:
                new.append(t)
        toks = new
    p = Parser(toks, path)
    strs, helps, maps, funcs = {}, {}, {}, {}
    while p.peek().kind != "eof":
        if p.at("using"):
            while not p.accept(";"):
                p.next()
            continue
        if p.at("template"):
            p.next()
            p.template_args_text()
            continue
        start = p.i
        # static const char* NAME = "…";
        if p.at("static") and p.at("const", 1) and p.at("char", 2) and p.at("*", 3) and p.peek(4).kind == "id" and p.at("=", 5):
            p.i += 4
            name = p.next().text
            p.expect("=")
            e = p.expr()
            p.expect(";")
            if e[0] != "str":
                p.fail("initialiser of %s is not a string literal" % name)
            strs[name] = e[1]
            continue
        # static const std::string NAME = "…" + comma_separated_keys(M.begin(), M.end());
        if p.at("static") and p.at("const", 1) and p.at("std", 2) and p.at("::", 3) and p.at("string", 4) and p.at("=", 6):
            p.i += 5
            name = p.next().text
            p.expect("=")
            e = p.expr()
            p.expect(";")
            helps[name] = e
            continue
        # static const std::map<std::string, T> NAME = { {"a", tapkee::X}, … };
        if p.at("static") and p.at("const", 1) and p.at("std", 2) and p.at("::", 3) and p.at("map", 4):
            p.i += 5
            targs = p.template_args_text()
            name = p.next().text
            p.expect("=")
            p.expect("{")
            entries = []
            while not p.at("}"):
                p.expect("{")
                k = p.next()
                if k.kind != "str":
                    p.fail("map key is not a string literal")
                p.expect(",")
                v = p.expr()
                if v[0] != "id":
                    p.fail("map value is not a named constant")
                p.expect("}")
                entries.append((k.text, v[1]))
                if not p.accept(","):
                    break
            p.expect("}")
            p.expect(";")
            maps[name] = (targs, entries)
            continue
        # function definition:  type name ( params ) { body }
        p.i = start
        ty = p.try_type()
        if ty is not None and p.peek().kind == "id" and p.at("(", 1):
            name = p.next().text
            params = " ".join(t.text for t in p.skip_balanced("(", ")"))
            if p.at("{"):
                body_start = p.i
                p.skip_balanced("{", "}")
                funcs[name] = (ty, params, toks[body_start:p.i])
                continue
        p.i = start
        p.fail("top-level construct not understood")
    return strs, helps, maps, funcs, macros


def norm_tokens(toks):
    return " ".join(t.text if t.kind != "str" else '"%s"' % t.text for t in toks)


# --------------------------------------------------------------------------------------------- symbolic execution
# symbolic values (Python tuples), mirrored by Model/CliSyntax.lean `Expr`:
#   ('count',opt) ('value',opt,ty) ('lookup',map,e) ('lookupFails',map,e) ('lit',ty,text) ('const',name) ('not',e)
#   ('neg',e) ('bin',op,a,b) ('ite',c,a,b) ('index0',e) ('field',e,name) ('sym',name)
# plus executor-internal ones that must never reach a table cell that needs an Expr:
#   ('stream',dir,fileExpr) ('obj',role) ('params',rows) ('app',name,args) ('opts',) ('parsed',) ('text', s)
TRUE = ("lit", "flag", "true")
FALSE = ("lit", "flag", "false")
BINOPS = {"&&": "and", "||": "or", "==": "eq", "!=": "ne", "<": "lt", "<=": "le", ">": "gt", ">=": "ge", "+": "add",
          "-": "sub", "*": "mul", "/": "div"}
AS_TYPES = {"std::string": "str", "string": "str", "int": "int", "double": "dbl"}
IGNORABLE_CALL = re.compile(r"(tapkee::Logging::instance\(\)\.message_(info|error|warning|debug|benchmark))$")


def conj(a, b):
    if a == TRUE:
        return b
    if b == TRUE:
        return a
    return ("bin", "and", a, b)


class Exec:
    def __init__(self, strs, helps, maps, path):
        self.strs, self.helps, self.maps, self.path = strs, helps, maps, path
        self.scopes = [{}]
        self.depths = [{}]      # per scope: variable -> number of enclosing conditions at its declaration
        self.options = []       # rows
        self.byname = {}        # any name -> canonical
        self.wiring = None
        self.steps = []
        self.conds = []         # stack of enclosing if-conditions
        self.seeding = None
        self.params_var = None
        self.returned = False

    # -- environment
    def lookup_var(self, name):
        for s in reversed(self.scopes):
            if name in s:
                return s[name]
        return None

    def set_var(self, name, val, declare=False):
        if declare:
            self.scopes[-1][name] = val
            self.depths[-1][name] = len(self.conds)
            return
        for s in reversed(self.scopes):
            if name in s:
                s[name] = val
                return
        raise TranslateError("%s: assignment to undeclared `%s`" % (self.path, name))

    def path_cond(self):
        c = TRUE
        for x in self.conds:
            c = conj(c, x)
        return c

    def err(self, line, what):
        raise TranslateError("%s:%d: %s" % (self.path, line, what))

    # -- option names
    def optname(self, e, line):
        s = self.const_string(e, line)
        if s not in self.byname:
            self.err(line, "`%s` is not a declared option name" % s)
        return self.byname[s]

    def const_string(self, e, line):
        if e[0] == "str":
            return e[1]
        if e[0] == "id" and e[1] in self.strs:
            return self.strs[e[1]]
        self.err(line, "expected a string constant, got %r" % (e,))

    # -- expressions
    def ev(self, e, line):
        k = e[0]
        if k == "num":
            if re.fullmatch(r"\d+", e[1]):
                return ("lit", "int", e[1])
            if e[1].lower().startswith("0x"):
                self.err(line, "hex literal")
            return ("lit", "dbl", e[1])
        if k == "str":
            return ("lit", "str", e[1])
        if k == "chr":
            return ("lit", "str", e[1])
        if k == "id":
            n = e[1]
            if n == "true":
                return TRUE
            if n == "false":
                return FALSE
            if n in ("NULL", "nullptr"):
                return ("lit", "int", "0")
            v = self.lookup_var(n)
            if v is not None:
                return v
            if n in self.strs:
                return ("lit", "str", self.strs[n])
            if n.startswith("tapkee::") and n.count("::") == 1:
                return ("const", n.split("::")[1])
            if n in ("argc", "argv"):
                return ("obj", n)
            self.err(line, "unknown identifier `%s`" % n)
        if k == "un":
            v = self.ev(e[2], line)
            if e[1] == "!":
                return ("not", self.as_expr(v, line))
            if e[1] == "-":
                if v[0] == "lit" and v[1] in ("int", "dbl"):
                    return ("lit", v[1], "-" + v[2])
                return ("neg", self.as_expr(v, line))
            if e[1] == "&":
                return v
            self.err(line, "unary `%s`" % e[1])
        if k == "bin":
            if e[1] not in BINOPS:
                self.err(line, "operator `%s`" % e[1])
            return ("bin", BINOPS[e[1]], self.as_expr(self.ev(e[2], line), line), self.as_expr(self.ev(e[3], line), line))
        if k == "cond":
            return ("ite", self.as_expr(self.ev(e[1], line), line), self.as_expr(self.ev(e[2], line), line),
                    self.as_expr(self.ev(e[3], line), line))
        if k == "cast":
            inner = self.ev(e[3], line)
            if e[1] == "dynamic_cast":
                return ("obj", "projection") if inner == ("sym", "output.projection.implementation.get()") else \
                    self.err(line, "dynamic_cast of %r" % (inner,))
            if re.fullmatch(r"(float|int|short|char|long|unsigned.*|std::int\w+|std::uint\w+|tapkee::IndexType)", e[2].strip()) \
                    and (inner[0] == "value" and inner[2] == "dbl" or inner[0] == "lit" and inner[1] == "dbl"):
                self.err(line, "narrowing %s<%s> of a double option value" % (e[1], e[2]))
            return inner
        if k == "index":
            base = self.ev(e[1], line)
            if base == ("parsed",):
                return ("optref", self.optname(e[2], line))
            idx = self.ev(e[2], line)
            if idx == ("lit", "int", "0"):
                return ("index0", self.as_expr(base, line))
            self.err(line, "index expression %r" % (e,))
        if k == "member":
            base = self.ev(e[1], line)
            name = e[2]
            if base[0] in ("lookup", "const") or (base[0] == "ite" and name.startswith("needs_")):
                return ("field", base, name)
            if base[0] == "obj":
                return ("sym" if True else "", "%s.%s" % (base[1], name))
            if base[0] == "sym":
                return ("sym", "%s.%s" % (base[1], name))
            return ("memberof", base, name)
        if k == "call":
            f = e[1]
            args = e[2]
            if f[0] == "member":
                base = self.ev(f[1], line)
                name = f[2]
                if base == ("parsed",) and name == "count" and len(args) == 1:
                    return ("count", self.optname(args[0], line))
                if base[0] == "optref" and name.startswith("as<") and not args:
                    t = name[3:-1]
                    if t not in AS_TYPES:
                        self.err(line, "as<%s>" % t)
                    return ("value", base[1], AS_TYPES[t])
                if name == "c_str" and not args:
                    return base
                if base[0] in ("obj", "sym") and not args:
                    return ("sym", "%s.%s()" % (base[1], name))
                if base == ("opts",) and name == "parse" and len(args) == 2:
                    return ("parsed",)
                if base == ("opts",) and name == "help" and not args:
                    return ("text", "help")
                return ("app", "." + name, [base] + [self.ev(a, line) for a in args])
            if f[0] == "id":
                fn = f[1]
                if fn == "parse_multiple" and len(args) == 2 and args[0][0] == "id" and args[0][1] in self.maps:
                    return ("lookup", args[0][1], self.as_expr(self.ev(args[1], line), line))
                if fn in ("std::string", "string") and len(args) == 1:
                    return self.ev(args[0], line)
                return ("app", fn, [self.ev(a, line) for a in args])
            self.err(line, "call of %r" % (f,))
        if k == "assign":
            self.err(line, "assignment inside an expression")
        self.err(line, "expression %r not understood" % (e,))

    def as_expr(self, v, line):
        """checks that a symbolic value is expressible as a Lean `Expr`"""
        k = v[0]
        if k in ("count", "value", "lit", "const", "sym"):
            return v
        if k in ("lookup", "lookupFails"):
            return (k, v[1], self.as_expr(v[2], line))
        if k in ("not", "neg", "index0"):
            return (k, self.as_expr(v[1], line))
        if k == "bin":
            return ("bin", v[1], self.as_expr(v[2], line), self.as_expr(v[3], line))
        if k == "ite":
            return ("ite", self.as_expr(v[1], line), self.as_expr(v[2], line), self.as_expr(v[3], line))
        if k == "field":
            return ("field", self.as_expr(v[1], line), v[2])
        if k == "obj":
            return ("sym", v[1])
        self.err(line, "value %r is not a function of the options" % (v,))

    # -- statements
    def run_block(self, stmts, new_scope=True):
        if new_scope:
            self.scopes.append({})
            self.depths.append({})
        for s in stmts:
            if self.returned and not self.conds:
                self.err(s[-1] if isinstance(s[-1], int) else 0, "statement after the final return")
            self.stmt(s)
        if new_scope:
            self.scopes.pop()
            self.depths.pop()

    def is_log_call(self, e):
        """Logging::instance().message_x(...) / std::cout << … : ignorable output"""
        if e[0] == "call" and e[1][0] == "member" and e[1][2].startswith("message_"):
            b = e[1][1]
            return b == ("call", ("id", "tapkee::Logging::instance"), [])
        if e[0] == "bin" and e[1] == "<<":
            x = e
            while x[0] == "bin" and x[1] == "<<":
                x = x[2]
            return x == ("id", "std::cout") or x == ("id", "std::cerr") or x == ("id", "cout") or x == ("id", "cerr")
        return False

    def log_effect(self, e):
        if e[0] == "call" and e[1][0] == "member" and e[1][2].startswith("enable_") and not e[2]:
            if e[1][1] == ("call", ("id", "tapkee::Logging::instance"), []):
                return e[1][2]
        return None

    def first_message(self, stmts):
        for s in stmts:
            if s[0] == "expr" and s[1][0] == "call" and s[1][1][0] == "member" and s[1][1][2] == "message_error":
                a = s[1][2][0]
                while a[0] == "bin":
                    a = a[2]
                if a[0] == "call" and a[2]:
                    a = a[2][0]
                if a[0] == "str":
                    return a[1]
        return ""

    def guard_body(self, stmts):
        """[output…, return n] -> n, or None"""
        if not stmts or stmts[-1][0] != "return":
            return None
        for s in stmts[:-1]:
            if not (s[0] == "expr" and self.is_log_call(s[1])):
                return None
        r = stmts[-1][1]
        if r is None or r[0] != "num" or not r[1].isdigit():
            self.err(stmts[-1][2], "return value is not an integer literal")
        return int(r[1])

    def stmt(self, s):
        k = s[0]
        if k == "empty" or k == "using":
            return
        if k == "block":
            return self.run_block(s[1])
        if k == "decl":
            return self.decl(s)
        if k == "expr":
            return self.expr_stmt(s[1], s[2])
        if k == "return":
            if self.conds:
                self.err(s[2], "bare return under a condition that is not a guard block")
            r = s[1]
            if r is None or r[0] != "num":
                self.err(s[2], "final return is not an integer literal")
            self.steps.append(("ret", int(r[1])))
            self.returned = True
            return
        if k == "if":
            return self.if_stmt(s)
        if k == "try":
            return self.try_stmt(s)
        if k == "for":
            return self.for_stmt(s)
        if k == "rangefor":
            return self.rangefor_stmt(s)
        self.err(0, "statement kind %s" % k)

    def body_list(self, s):
        return s[1] if s[0] == "block" else [s]

    def if_stmt(self, s):
        _, c, a, b, line = s
        cond = self.as_expr(self.ev(c, line), line)
        body = self.body_list(a)
        n = self.guard_body(body)
        if n is not None:
            if b is not None:
                self.err(line, "guard with else branch")
            msg = self.first_message(body) or ("help" if any(
                st[0] == "expr" and "help" in repr(st[1]) for st in body) else "")
            self.steps.append(("guard", conj(self.path_cond(), cond), n, msg))
            return
        self.conds.append(cond)
        self.run_block(body)
        self.conds.pop()
        if b is not None:
            self.conds.append(("not", cond))
            self.run_block(self.body_list(b))
            self.conds.pop()

    def try_stmt(self, s):
        _, body, catches, line = s
        codes = []
        msg = ""
        for what, cb in catches:
            n = self.guard_body(cb[1])
            if n is None:
                self.err(line, "catch block is not `log…; return n;`")
            codes.append(n)
            msg = msg or self.first_message(cb[1])
        if len(set(codes)) != 1:
            self.err(line, "catch clauses with different exit codes")
        if not any("std::exception" in w.replace(" ", "") or w.strip() == "..." for w, _ in catches):
            self.err(line, "try without a catch of std::exception (parse_multiple throws std::logic_error)")
        self.try_ctx = (codes[0], msg)
        self.run_block(body[1])
        self.try_ctx = None

    try_ctx = None

    def for_stmt(self, s):
        _, init, cond, step, body, line = s
        # only `for (T i = 0; i < X; ++i) v[i] = i;` (identity index vector of the precompute branch)
        b = self.body_list(body)
        ok = (init[0] == "decl" and init[3] == "copy" and init[4] == ("num", "0", "") and len(b) == 1 and b[0][0] == "expr"
              and b[0][1][0] == "assign" and b[0][1][2][0] == "index" and b[0][1][3] == ("id", init[2])
              and b[0][1][2][2] == ("id", init[2]))
        if not ok:
            self.err(line, "for loop is not the identity-index fill")
        if cond[0] != "bin":
            self.err(line, "for condition")
        self.identity_fill(b[0][1][2][1], line)

    def identity_fill(self, target, line):
        """`target` (a declared index vector) now holds 0, 1, …, size-1"""
        if target[0] != "id" or self.lookup_var(target[1]) is None:
            self.err(line, "identity fill of an unknown vector")
        old = self.lookup_var(target[1])
        size = old[2] if old[0] == "app" and len(old) > 2 and len(old[2]) == 1 else [("sym", "size")]
        self.set_var(target[1], ("app", "identity_indices", list(size)))

    def rangefor_stmt(self, s):
        _, ty, name, rng, body, line = s
        # only `T next = 0; for (auto& x : v) x = next++;` (identity index vector of the precompute branch)
        b = self.body_list(body)
        ok = (len(b) == 1 and b[0][0] == "expr" and b[0][1][0] == "assign" and b[0][1][1] == "=" and b[0][1][2] == ("id", name)
              and b[0][1][3][0] == "post" and b[0][1][3][1] == "++" and b[0][1][3][2][0] == "id"
              and self.lookup_var(b[0][1][3][2][1]) == ("lit", "int", "0") and "&" in ty)
        if not ok:
            self.err(line, "range-for loop is not the identity-index fill")
        self.identity_fill(rng, line)

    def decl(self, s):
        _, ty, name, kind, init, line = s
        base = ty.rstrip("*&")
        if base == "cxxopts::Options":
            self.set_var(name, ("opts",), True)
            return
        if base in ("ifstream", "std::ifstream", "ofstream", "std::ofstream"):
            if kind != "ctor" or len(init) != 1:
                self.err(line, "stream constructor")
            f = self.as_expr(self.ev(init[0], line), line)
            d = "in" if "ifstream" in base else "out"
            if self.conds:
                self.err(line, "stream opened under a condition")
            self.steps.append(("openIn" if d == "in" else "openOut", f))
            self.set_var(name, ("stream", d, f), True)
            return
        if base == "tapkee::TapkeeOutput":
            if kind != "none":
                self.err(line, "TapkeeOutput initialiser")
            self.set_var(name, ("obj", "output"), True)
            return
        if base == "tapkee::ParametersSet":
            if kind != "copy":
                self.err(line, "ParametersSet initialiser")
            e = init
            if not (e[0] == "index" and e[1] == ("id", "tapkee::kwargs")):
                self.err(line, "ParametersSet is not built with tapkee::kwargs[…]")
            items = e[2][1] if e[2][0] == "comma" else [e[2]]
            rows = []
            for it in items:
                if not (it[0] == "assign" and it[1] == "=" and it[2][0] == "id" and it[2][1].startswith("tapkee::")):
                    self.err(line, "kwargs item is not `tapkee::keyword = expr`")
                rows.append((it[2][1].split("::", 1)[1], self.as_expr(self.ev(it[3], line), line)))
            if self.wiring is not None:
                self.err(line, "second ParametersSet")
            if self.conds:
                self.err(line, "ParametersSet built under a condition")
            self.wiring = rows
            self.params_var = name
            self.set_var(name, ("obj", "parameters"), True)
            return
        if base == "tapkee::tapkee_internal::timed_context":
            return
        if kind == "none":
            if base == "tapkee::DenseMatrix":
                self.set_var(name, ("app", "empty_matrix", []), True)
                return
            self.err(line, "uninitialised `%s %s`" % (ty, name))
        if kind == "ctor":
            vals = [self.ev(a, line) for a in init]
            self.set_var(name, ("app", base, vals), True)
            return
        v = self.ev(init, line)
        if base in ("float", "int", "short", "char", "long", "unsigned", "unsigned int", "tapkee::IndexType") and \
                (v[0] == "value" and v[2] == "dbl" or v[0] == "lit" and v[1] == "dbl"):
            self.err(line, "`%s %s` narrows a double option value" % (ty, name))
        if v[0] == "app" and v[1] == "read_data":
            st, delim = v[2]
            if st[0] != "stream" or st[1] != "in":
                self.err(line, "read_data from a non-input stream")
            self.steps.append(("readData", self.path_cond(), "input", st[2], self.as_expr(delim, line)))
            v = ("obj", "input")
        self.set_var(name, v, True)

    def slot(self, v):
        """canonical descriptor of what reaches a callback slot of the embed chain:
        `kernel(input)` = eigen_kernel_callback over the input matrix;
        `precomputed_distance[needs_distance ? distance(input)]` = precomputed_distance_callback over the matrix that
        is filled from eigen_distance_callback(input) iff method.needs_distance (else empty).
        Anything of another structure falls back to its full text (and then differs from the spec)."""
        def direct(x):
            if x[0] == "app" and len(x[2]) == 1 and x[2][0] == ("obj", "input"):
                m = re.fullmatch(r"(?:tapkee::)?eigen_(kernel|distance|features)_callback", x[1])
                if m:
                    return "%s(input)" % m.group(1)
            return None
        d = direct(v)
        if d:
            return d
        if v[0] == "app" and len(v[2]) == 1:
            m = re.fullmatch(r"(?:tapkee::)?precomputed_(kernel|distance)_callback", v[1])
            M = v[2][0]
            if m and M[0] == "ite" and M[1][0] == "field" and M[1][1][0] == "lookup" and \
                    M[1][1][1] == "DIMENSION_REDUCTION_METHODS" and M[3] == ("app", "empty_matrix", []) and \
                    M[2][0] == "app" and M[2][1] == "matrix_from_callback" and len(M[2][2]) == 2 and \
                    M[2][2][0] == ("sym", "input.cols()") and direct(M[2][2][1]):
                return "precomputed_%s[%s ? %s]" % (m.group(1), M[1][2], direct(M[2][2][1]))
        return self.show(v)

    def show(self, v):
        """readable text of an executor value (for the callback columns of the embed step)"""
        k = v[0]
        if k == "app":
            return "%s(%s)" % (v[1].split("::")[-1], ", ".join(self.show(a) for a in v[2]))
        if k in ("obj", "sym"):
            return v[1]
        if k == "ite":
            return "(if %s then %s else %s)" % (self.show(v[1]), self.show(v[2]), self.show(v[3]))
        if k == "field":
            return "%s.%s" % (self.show(v[1]), v[2])
        if k == "lookup":
            return "method" if v[1] == "DIMENSION_REDUCTION_METHODS" else "lookup(%s)" % v[1]
        if k == "lit":
            return v[2]
        if k == "count":
            return "count(%s)" % v[1]
        if k == "value":
            return "value(%s)" % v[1]
        if k == "not":
            return "!%s" % self.show(v[1])
        if k == "bin":
            return "(%s %s %s)" % (self.show(v[2]), v[1], self.show(v[3]))
        raise TranslateError("cannot print %r" % (v,))

    def expr_stmt(self, e, line):
        if self.is_log_call(e):
            return
        eff = self.log_effect(e)
        if eff:
            self.steps.append(("effect", self.path_cond(), eff))
            return
        if e[0] == "assign":
            if e[1] != "=":
                self.err(line, "compound assignment")
            lhs = e[2]
            if lhs[0] != "id":
                self.err(line, "assignment target %r" % (lhs,))
            old = self.lookup_var(lhs[1])
            if old is None:
                self.err(line, "assignment to unknown `%s`" % lhs[1])
            if old == ("obj", "output"):
                return self.embed_stmt(e[3], line)
            new = self.ev(e[3], line)
            if new[0] == "lookup":
                if not self.try_ctx:
                    self.err(line, "parse_multiple outside try/catch")
                self.steps.append(("guard", conj(self.path_cond(), ("lookupFails", new[1], new[2])), self.try_ctx[0],
                                   self.try_ctx[1]))
            c = self.path_cond_local(lhs[1])
            self.set_var(lhs[1], new if c == TRUE else ("ite", c, new, old))
            return
        if e[0] == "call":
            f = e[1]
            if f == ("id", "srand"):
                if "time" not in repr(e[2]):
                    self.err(line, "srand argument")
                self.seeding = "time"
                return
            if f in (("id", "std::iota"), ("id", "iota")) and len(e[2]) == 3 and e[2][2] == ("num", "0", "") \
                    and e[2][0][0] == "call" and e[2][0][1][0] == "member" and e[2][0][1][2] == "begin" \
                    and e[2][1][0] == "call" and e[2][1][1][0] == "member" and e[2][1][1][2] == "end" \
                    and e[2][0][1][1] == e[2][1][1][1]:
                return self.identity_fill(e[2][0][1][1], line)
            if f == ("id", "write_matrix") and len(e[2]) == 3:
                what, st, delim = [self.ev(a, line) for a in e[2]]
                if st[0] != "stream" or st[1] != "out":
                    self.err(line, "write_matrix to a non-output stream")
                self.steps.append(("writeMatrix", self.path_cond(), self.role(what, line), st[2], self.as_expr(delim, line)))
                return
            if f == ("id", "write_vector") and len(e[2]) == 2:
                what, st = [self.ev(a, line) for a in e[2]]
                if st[0] != "stream" or st[1] != "out":
                    self.err(line, "write_vector to a non-output stream")
                self.steps.append(("writeVector", self.path_cond(), self.role(what, line), st[2]))
                return
            if f[0] == "member":
                name = f[2]
                base = self.ev(f[1], line)
                if name == "transposeInPlace" and not e[2]:
                    self.steps.append(("transpose", self.path_cond(), self.role(base, line)))
                    return
                if name == "close" and base[0] == "stream":
                    return
            # options.set_width(..).set_tab_expansion().add_options()(…)(…)
            groups = []
            x = e
            while x[0] == "call" and not (x[1][0] == "member" and x[1][2] == "add_options"):
                groups.append(x[2])
                x = x[1]
            if x[0] == "call" and x[1][0] == "member" and x[1][2] == "add_options":
                y = x[1][1]
                while y[0] == "call" and y[1][0] == "member" and y[1][2] in ("set_width", "set_tab_expansion"):
                    y = y[1][1]
                if self.ev(y, line) != ("opts",):
                    self.err(line, "add_options on something that is not the Options object")
                for g in reversed(groups):
                    self.add_option(g, line)
                return
        self.err(line, "statement not understood: %r" % (e,))

    def path_cond_local(self, var):
        """conjunction of the conditions entered since `var` was declared"""
        d = 0
        for sc, dp in zip(reversed(self.scopes), reversed(self.depths)):
            if var in sc:
                d = dp[var]
                break
        c = TRUE
        for x in self.conds[d:]:
            c = conj(c, x)
        return c

    def role(self, v, line):
        if v[0] in ("obj", "sym"):
            return v[1]
        self.err(line, "cannot name the object %r" % (v,))

    def embed_stmt(self, rhs, line):
        # tapkee::with(P) [.withKernel(k)] [.withDistance(d)] [.withFeatures(f)] .embedUsing(X) | .embedRange(b, e)
        chain = []
        x = rhs
        while x[0] == "call" and x[1][0] == "member":
            chain.append((x[1][2], x[2]))
            x = x[1][1]
        if not (x[0] == "call" and x[1] == ("id", "tapkee::with") and len(x[2]) == 1):
            self.err(line, "output is not assigned from tapkee::with(…)…")
        p = self.ev(x[2][0], line)
        if p != ("obj", "parameters"):
            self.err(line, "tapkee::with(%r) is not the kwargs parameter set" % (p,))
        chain.reverse()
        cb = {"kernel": "", "distance": "", "features": ""}
        data = ""
        for name, args in chain:
            if name in ("withKernel", "withDistance", "withFeatures") and len(args) == 1:
                cb[name[4:].lower()] = self.slot(self.ev(args[0], line))
            elif name == "embedUsing" and len(args) == 1:
                data = self.show(self.ev(args[0], line))
                for c in cb:
                    cb[c] = cb[c] or "%s(%s)" % (c, data)
            elif name == "embedRange" and len(args) == 2:
                b = self.ev(args[0], line)
                data = self.show(b[2][0]) if b[0] == "app" and b[1] == ".begin" else self.err(line, "embedRange argument")
            else:
                self.err(line, "embed chain element .%s" % name)
        self.steps.append(("embed", self.path_cond(), "parameters", data, cb["kernel"], cb["distance"], cb["features"]))

    def add_option(self, g, line):
        if len(g) not in (2, 3):
            self.err(line, "option group with %d arguments" % len(g))
        n = g[0]
        if n[0] == "call" and n[1] == ("id", "either") and len(n[2]) == 2:
            names = [self.const_string(n[2][0], line), self.const_string(n[2][1], line)]
        else:
            names = [self.const_string(n, line)]
        for nm in names:
            if not re.fullmatch(r"[A-Za-z0-9][-_A-Za-z0-9.]*", nm):
                self.err(line, "option name %r" % nm)
        h = g[1]
        help_ = self.help_pieces(h, line)
        ty, default, has = "flag", "", False
        if len(g) == 3:
            v = g[2]
            if not (v[0] == "call" and v[1] == ("id", "with_default") and len(v[2]) == 1):
                self.err(line, "option value is not with_default(literal)")
            lit = v[2][0]
            neg = ""
            if lit[0] == "un" and lit[1] == "-":
                neg, lit = "-", lit[2]
            if lit[0] == "str":
                if lit[2] != "s":
                    self.err(line, "with_default(\"…\") without the `s` suffix deduces const char*")
                ty, default = "str", lit[1]
            elif lit[0] == "num":
                if lit[2]:
                    self.err(line, "numeric suffix in with_default")
                ty = "int" if re.fullmatch(r"\d+", lit[1]) else "dbl"
                default = neg + lit[1]
            else:
                self.err(line, "with_default argument %r" % (lit,))
            has = True
        canon = names[-1]
        for nm in names:
            if nm in self.byname:
                self.err(line, "option name %r declared twice" % nm)
            self.byname[nm] = canon
        self.options.append((names, ty, default, has, help_))

    def help_pieces(self, h, line):
        if h[0] == "str":
            return [("lit", h[1])]
        if h[0] == "id":
            if h[1] in self.strs:
                return [("lit", self.strs[h[1]])]
            if h[1] in self.helps:
                return self.help_pieces(self.helps[h[1]], line)
            self.err(line, "unknown description constant %s" % h[1])
        if h[0] == "bin" and h[1] == "+":
            return self.help_pieces(h[2], line) + self.help_pieces(h[3], line)
        if h[0] == "call" and h[1] == ("id", "comma_separated_keys") and len(h[2]) == 2:
            a, b = h[2]
            if (a[0] == "call" and a[1][0] == "member" and a[1][2] == "begin" and b[0] == "call" and b[1][2] == "end"
                    and a[1][1] == b[1][1] and a[1][1][0] == "id" and a[1][1][1] in self.maps):
                return [("keysOf", a[1][1][1])]
        self.err(line, "description expression %r" % (h,))


# --------------------------------------------------------------------------------------------- library tables
def lib_tables(repo, defines):
    inc = os.path.join(repo, "include", "tapkee")
    # methods.hpp
    path = os.path.join(inc, "defines", "methods.hpp")
    src, _ = preprocess(open(path).read(), path, defines)
    toks = tokenize(src, path)
    consts, traits, defaults_alias = [], [], {}
    i = 0
    classes = ("DimensionReductionMethod", "NeighborsMethod", "EigenMethod", "ComputationStrategy")
    while i < len(toks) - 6:
        t = toks[i]
        if t.text == "static" and toks[i + 1].text == "const" and toks[i + 2].text in classes and toks[i + 3].kind == "id" \
                and toks[i + 4].text == "(":
            cls, ident = toks[i + 2].text, toks[i + 3].text
            j = i + 5
            if toks[j].kind != "str":
                raise TranslateError("%s:%d: display name of %s" % (path, t.line, ident))
            disp = ""
            while toks[j].kind == "str":
                disp += toks[j].text
                j += 1
            tr = ""
            if toks[j].text == ",":
                tr = toks[j + 1].text
                j += 2
            if toks[j].text != ")" or toks[j + 1].text != ";":
                raise TranslateError("%s:%d: constant %s not understood" % (path, t.line, ident))
            consts.append((ident, cls, disp, tr))
            i = j + 2
            continue
        if t.text == "static" and toks[i + 1].text == "const" and toks[i + 2].text == "DimensionReductionTraits":
            name = toks[i + 3].text
            vals = [x.text for x in toks[i + 5:i + 10]]
            if toks[i + 4].text != "{" or vals[1] != "," or vals[3] != "," or toks[i + 10].text != "}":
                raise TranslateError("%s:%d: traits %s not understood" % (path, t.line, name))
            bs = [vals[0], vals[2], vals[4]]
            if any(b not in ("true", "false") for b in bs):
                raise TranslateError("%s:%d: traits %s values" % (path, t.line, name))
            traits.append((name, bs[0] == "true", bs[1] == "true", bs[2] == "true"))
            i += 11
            continue
        if t.text == "static" and toks[i + 1].text in classes and toks[i + 2].kind == "id" and toks[i + 3].text == "=":
            defaults_alias[toks[i + 2].text] = toks[i + 4].text
            i += 5
            continue
        i += 1
    if len([c for c in consts if c[1] == "DimensionReductionMethod"]) < 5 or not traits:
        raise TranslateError("%s: method constants not found" % path)
    # keywords.hpp
    path = os.path.join(inc, "defines", "keywords.hpp")
    src, _ = preprocess(open(path).read(), path, defines)
    toks = tokenize(src, path)
    kws = []
    i = 0
    while i < len(toks):
        if toks[i].text == "ParameterKeyword":
            p = Parser(toks, path)
            p.i = i + 1
            cty = p.template_args_text() if False else None
            # the type may contain `(*)(double)`: read up to the matching `>` counting parentheses
            p.i = i + 1
            p.expect("<")
            depth, par, parts = 1, 0, []
            while True:
                x = p.next()
                if x.text == "(":
                    par += 1
                elif x.text == ")":
                    par -= 1
                elif x.text == "<" and par == 0:
                    depth += 1
                elif x.text == ">" and par == 0:
                    depth -= 1
                    if depth == 0:
                        break
                elif x.kind == "eof" or x.text == ";":
                    raise TranslateError("%s:%d: ParameterKeyword type" % (path, toks[i].line))
                parts.append(x.text)
            cty = "".join(parts)
            ident = p.next()
            if ident.kind != "id" or not p.at("("):
                i += 1
                continue    # a mention in a comment-free context that is not a definition (none today)
            p.expect("(")
            disp = p.next()
            if disp.kind != "str":
                raise TranslateError("%s:%d: keyword display name" % (path, ident.line))
            p.expect(",")
            dparts = []
            while not (p.at(")") and p.at(";", 1)):
                dparts.append(p.next().text)
            kws.append((ident.text, cty, disp.text, "".join(dparts)))
            i = p.i
            continue
        i += 1
    if len(kws) < 10:
        raise TranslateError("%s: keyword definitions not found" % path)
    kws = [(a, b, c, defaults_alias.get(d, d)) for a, b, c, d in kws]
    # documented defaults: the doc comment in front of each keyword ("Default value is 5." / "Default is 1e-9.");
    # comments are documentation, so a keyword without such a sentence simply has no documented default ("")
    raw = open(path).read()
    docdefaults = []
    for ident, _, _, _ in kws:
        m = re.search(r"/\*\*((?:(?!\*/).)*?)\*/\s*const\s+stichwort::ParameterKeyword<[^;]*?>\s+%s\s*\(" % re.escape(ident), raw, re.S)
        text = ""
        if m:
            d = re.search(r"Default(?:\s+value)?\s+is\s+([-+0-9.eE]+?)[.;]?(?:\s|$)", re.sub(r"\s*\n\s*\*\s?", " ", m.group(1)))
            if d:
                text = d.group(1)
        docdefaults.append((ident, text))
    # defaults.hpp
    path = os.path.join(inc, "parameters", "defaults.hpp")
    src, _ = preprocess(open(path).read(), path, defines)
    toks = tokenize(src, path)
    dfl = []
    for i in range(len(toks) - 6):
        if toks[i].text == "tapkee" and toks[i + 1].text == "::" and toks[i + 3].text == "=" and \
                toks[i + 4].text == "stichwort" and toks[i + 6].text == "by_default":
            dfl.append(toks[i + 2].text)
    if not dfl:
        raise TranslateError("%s: defaults set not found" % path)
    return consts, traits, kws, dfl, docdefaults


# --------------------------------------------------------------------------------------------- Lean emission
def lstr(s):
    out = ['"']
    for ch in s:
        if ch == '"':
            out.append('\\"')
        elif ch == "\\":
            out.append("\\\\")
        elif ch == "\n":
            out.append("\\n")
        elif ch == "\t":
            out.append("\\t")
        elif ch == "\0":
            out.append("\\x00")
        elif ord(ch) < 32 or ord(ch) > 126:
            raise TranslateError("non-ASCII character %r in a string constant" % ch)
        else:
            out.append(ch)
    out.append('"')
    return "".join(out)


def lbool(b):
    return "true" if b else "false"


def lexpr(v):
    k = v[0]
    if k == "count":
        return "(.count %s)" % lstr(v[1])
    if k == "value":
        return "(.value %s .%s)" % (lstr(v[1]), v[2])
    if k in ("lookup", "lookupFails"):
        return "(.%s %s %s)" % (k, lstr(v[1]), lexpr(v[2]))
    if k == "lit":
        return "(.lit .%s %s)" % (v[1], lstr(v[2]))
    if k == "const":
        return "(.const %s)" % lstr(v[1])
    if k in ("not", "neg", "index0"):
        return "(.%s %s)" % (k, lexpr(v[1]))
    if k == "bin":
        return "(.bin .%s %s %s)" % (v[1], lexpr(v[2]), lexpr(v[3]))
    if k == "ite":
        return "(.ite %s %s %s)" % (lexpr(v[1]), lexpr(v[2]), lexpr(v[3]))
    if k == "field":
        return "(.field %s %s)" % (lexpr(v[1]), lstr(v[2]))
    if k == "sym":
        return "(.sym %s)" % lstr(v[1])
    raise TranslateError("cannot emit %r" % (v,))


def lstep(s):
    k = s[0]
    if k in ("openIn", "openOut"):
        return ".%s %s" % (k, lexpr(s[1]))
    if k == "readData":
        return ".readData %s %s %s %s" % (lexpr(s[1]), lstr(s[2]), lexpr(s[3]), lexpr(s[4]))
    if k == "transpose":
        return ".transpose %s %s" % (lexpr(s[1]), lstr(s[2]))
    if k == "embed":
        return ".embed %s %s %s %s %s %s" % (lexpr(s[1]), lstr(s[2]), lstr(s[3]), lstr(s[4]), lstr(s[5]), lstr(s[6]))
    if k == "writeMatrix":
        return ".writeMatrix %s %s %s %s" % (lexpr(s[1]), lstr(s[2]), lexpr(s[3]), lexpr(s[4]))
    if k == "writeVector":
        return ".writeVector %s %s %s" % (lexpr(s[1]), lstr(s[2]), lexpr(s[3]))
    if k == "guard":
        return ".guard { cond := %s, exit := %d, message := %s }" % (lexpr(s[1]), s[2], lstr(s[3]))
    if k == "effect":
        return ".effect %s %s" % (lexpr(s[1]), lstr(s[2]))
    if k == "ret":
        return ".ret %d" % s[1]
    raise TranslateError("cannot emit step %r" % (s,))


def llist(items, indent="  "):
    if not items:
        return "[]"
    return "[\n" + ",\n".join(indent + x for x in items) + "\n" + indent[:-2] + "]"


EXPECTED_EITHER = '{ return std :: string ( shorter_keyword ) + "," + keyword ; }'
# with_default: how a numeric default literal becomes the text cxxopts stores.  Known bodies -> format of `double` defaults
WITH_DEFAULT_BODIES = {
    "{ if constexpr ( std :: is_same_v < std :: string , T > ) return cxxopts :: value < T > ( ) -> default_value ( defs ) ; "
    "else return cxxopts :: value < T > ( ) -> default_value ( std :: to_string ( defs ) ) ; }": "std::to_string",
    "{ if constexpr ( std :: is_same_v < std :: string , T > ) return cxxopts :: value < T > ( ) -> default_value ( defs ) ; "
    "else if constexpr ( std :: is_floating_point_v < T > ) return cxxopts :: value < T > ( ) -> default_value ( fmt :: format "
    '( "{}" , defs ) ) ; else return cxxopts :: value < T > ( ) -> default_value ( std :: to_string ( defs ) ) ; }': "fmt::format",
}


def read_loop_kind(toks, path):
    """the outer loop of read_data: `while (ifs) { getline(ifs, str); …` re-reads an unterminated last line (true);
    `while (getline(ifs, str)) {` does not (false)"""
    t = [x.text for x in toks]
    if "while" not in t:
        raise TranslateError("%s: read_data has no while loop" % path)
    i = t.index("while")
    w = [x for x in t[i:i + 16] if x not in ("std", "::")]
    if len(w) > 11 and w[1] == "(" and w[3] == ")" and w[4] == "{" and w[5] == "getline" and w[6] == "(" and w[7] == w[2] \
            and w[8] == "," and w[10] == ")" and w[11] == ";":
        return True
    if len(w) > 9 and w[1] == "(" and w[2] == "getline" and w[3] == "(" and w[5] == "," and w[7] == ")" and w[8] == ")" \
            and w[9] == "{":
        return False
    raise TranslateError("%s: outer loop of read_data not understood: %s" % (path, " ".join(t[i:i + 16])))


def extract(repo=None):
    """the tables as Python data (used by checks/c20.py to enumerate cases) + the Lean text"""
    repo = repo or vlib.REPO
    defines = defines_from_flags()
    util = os.path.join(repo, "src", "cli", "util.hpp")
    main = os.path.join(repo, "src", "cli", "main.cpp")
    ustrs, uhelps, umaps, ufuncs, _ = top_level(util, defines)
    mstrs, mhelps, mmaps, mfuncs, mmacros = top_level(main, defines)
    if mmaps:
        raise TranslateError("name maps declared in main.cpp are not handled")
    for need in ("read_data", "write_matrix", "write_vector", "parse_multiple"):
        if need not in ufuncs:
            raise TranslateError("util.hpp: function %s not found" % need)
    for name in ("either", "with_default"):
        if name not in mfuncs:
            raise TranslateError("main.cpp: helper %s not found" % name)
    got = norm_tokens(mfuncs["either"][2])
    if got != EXPECTED_EITHER:
        raise TranslateError("main.cpp: helper `either` changed; the translator reads option names through it.\n  expected %s\n  found    %s"
                             % (EXPECTED_EITHER, got))
    got = norm_tokens(mfuncs["with_default"][2])
    if got not in WITH_DEFAULT_BODIES:
        raise TranslateError("main.cpp: helper `with_default` changed; the translator reads option defaults through it.\n  found %s" % got)
    double_defaults_via = WITH_DEFAULT_BODIES[got]
    rereads = read_loop_kind(ufuncs["read_data"][2], util)
    if "run" not in mfuncs or "main" not in mfuncs:
        raise TranslateError("main.cpp: run()/main() not found")
    # run()
    p = Parser(mfuncs["run"][2] + [Tok("eof", "", 0)], main)
    body = p.block()
    ex = Exec(mstrs, mhelps, umaps, main)
    ex.run_block(body[1])
    if ex.wiring is None:
        raise TranslateError("main.cpp: no tapkee::kwargs[…] parameter set in run()")
    if not ex.returned:
        raise TranslateError("main.cpp: run() does not end in `return n;`")
    # main(): try { return run(argc, argv); } catch (...) { …; return n; }
    p = Parser(mfuncs["main"][2] + [Tok("eof", "", 0)], main)
    mb = p.block()[1]
    if not (len(mb) == 1 and mb[0][0] == "try" and len(mb[0][1][1]) == 1 and mb[0][1][1][0][0] == "return"
            and mb[0][1][1][0][1] == ("call", ("id", "run"), [("id", "argc"), ("id", "argv")])):
        raise TranslateError("main.cpp: main() is not `try { return run(argc, argv); } catch …`")
    main_catch = []
    for what, cb in mb[0][2]:
        n = ex.guard_body(cb[1])
        if n is None:
            raise TranslateError("main.cpp: catch block of main() not understood")
        main_catch.append((re.sub(r"\s+", " ", what).strip(), n))
    consts, traits, kws, dfl, docdefaults = lib_tables(repo, defines)

    o = []
    o.append("/- GENERATED by tools/translate_cli.py from src/cli/main.cpp, src/cli/util.hpp, defines/keywords.hpp,")
    o.append("   defines/methods.hpp, parameters/defaults.hpp — DO NOT EDIT.  Lean data only (types: Model/CliSyntax.lean).")
    o.append("   preprocessor symbols assumed defined: %s -/" % ", ".join(sorted(defines)))
    o.append("import TapkeeVerif.Model.CliSyntax")
    o.append("namespace TapkeeVerif.Gen.Cli")
    o.append("open TapkeeVerif.Cli")
    o.append("")
    o.append("/-- `srand(time(NULL))` at the top of run() -/")
    o.append("def seedsFromTime : Bool := %s" % lbool(ex.seeding == "time"))
    o.append("")
    o.append("/-- how `with_default` turns a `double` literal into the text cxxopts stores -/")
    o.append("def doubleDefaultsVia : String := %s" % lstr(double_defaults_via))
    o.append("")
    o.append("/-- outer loop of read_data is `while (ifs) { getline(ifs, str); …` (an unterminated last line is seen twice) -/")
    o.append("def readLoopRereadsLastLine : Bool := %s" % lbool(rereads))
    o.append("")
    rows = []
    for names, ty, default, has, help_ in ex.options:
        hp = "[" + ", ".join((".lit " + lstr(x[1])) if x[0] == "lit" else (".keysOf " + lstr(x[1])) for x in help_) + "]"
        rows.append("{ names := [%s], ty := .%s, default := %s, hasValue := %s,\n      help := %s }" % (
            ", ".join(lstr(n) for n in names), ty, lstr(default), lbool(has), hp))
    o.append("def cliOptions : List OptRow := " + llist(rows))
    o.append("")
    o.append("def cliWiring : List WireRow := " + llist(
        ["{ keyword := %s, expr := %s }" % (lstr(k), lexpr(e)) for k, e in ex.wiring]))
    o.append("")
    o.append("def cliSteps : List Step := " + llist([lstep(s) for s in ex.steps]))
    o.append("")
    o.append("/-- (caught type, exit code) of the catch clauses around run() in main() -/")
    o.append("def cliMainCatch : List (String × Nat) := " + llist(["(%s, %d)" % (lstr(w), n) for w, n in main_catch]))
    o.append("")
    maps = []
    for name, (targs, entries) in umaps.items():
        maps.append("{ name := %s, entries := [%s] }" % (
            lstr(name), ", ".join("(%s, %s)" % (lstr(k), lstr(v.split("::")[-1])) for k, v in entries)))
    o.append("def nameMaps : List NameMap := " + llist(maps))
    o.append("")
    o.append("def libConsts : List ConstRow := " + llist(
        ["{ ident := %s, cls := %s, display := %s, traits := %s }" % tuple(lstr(x) for x in c) for c in consts]))
    o.append("")
    o.append("def libTraits : List TraitsRow := " + llist(
        ["{ name := %s, kernel := %s, distance := %s, features := %s }" % (lstr(n), lbool(a), lbool(b), lbool(c))
         for n, a, b, c in traits]))
    o.append("")
    o.append("def libKeywords : List KeywordRow := " + llist(
        ["{ ident := %s, cppType := %s, display := %s, default := %s }" % tuple(lstr(x) for x in k) for k in kws]))
    o.append("")
    o.append("/-- the default each keyword's doc comment in defines/keywords.hpp documents (numeric ones; \"\" = none stated) -/")
    o.append("def libDocDefaults : List (String × String) := [%s]" % ", ".join("(%s, %s)" % (lstr(a), lstr(b)) for a, b in docdefaults))
    o.append("")
    o.append("/-- keywords present in `tapkee_internal::defaults` (merged into every parameter set by embed()) -/")
    o.append("def libDefaults : List String := [%s]" % ", ".join(lstr(d) for d in dfl))
    o.append("")
    o.append("end TapkeeVerif.Gen.Cli")
    return {
        "lean": "\n".join(o) + "\n",
        "options": [{"names": n, "canonical": n[-1], "ty": ty, "default": d, "hasValue": h} for n, ty, d, h, _ in ex.options],
        "wiring": ex.wiring, "steps": ex.steps, "main_catch": main_catch,
        "maps": {name: [(k, v.split("::")[-1]) for k, v in entries] for name, (_, entries) in umaps.items()},
        "double_defaults_via": double_defaults_via, "read_loop_rereads": rereads,
        "consts": consts, "traits": traits, "keywords": kws, "defaults": dfl, "doc_defaults": dict(docdefaults), "defines": sorted(defines),
    }


def translate(repo=None):
    return extract(repo)["lean"]


def main():
    out = os.path.join(vlib.LEAN_DIR, "TapkeeVerif", "Gen", "Cli.lean")
    text = translate()
    changed = vlib.write_if_changed(out, text)
    print("%s %s" % (out, "rewritten" if changed else "unchanged"))


if __name__ == "__main__":
    main()
