#!/usr/bin/env python3
"""(T) translator for property C01 (DESIGN §2.2, §6 C01 item 3).

Regenerates lean/TapkeeVerif/Gen/IndexExprs.lean from the working tree of the repository on every run:

  * per indexed container site: the SIZE expression, the INDEX expression and the enclosing LOOP RANGES as small
    Lean functions over Int (C++ `IndexType`/`int` arithmetic; `/` is integer division on non-negative operands);
  * the validation bounds `parameters[kw].checked().satisfies(Pred<T>(args)).orThrow()` of the base constructor,
    `find_neighbors_with` and every method's `validate()`;
  * the catch -> rethrow map and the `@throw` list of embed.hpp, every `throw` site under include/tapkee, every
    `exit(` call with its guard, the literal loop bounds (perplexity bisection, t-SNE / SPE / FA iteration counts).

Works on the raw source text (comments stripped, whitespace collapsed), anchored on code fragments with the local
variable names captured by the pattern (so renaming a local does not disturb it).  An anchor that is not found, or
an expression outside the supported grammar, raises TranslateError: the run then reports a broken tie — nothing is
ever skipped silently.
"""
import os
import re
import sys

sys.path.insert(0, os.path.dirname(os.path.dirname(os.path.abspath(__file__))))


class TranslateError(Exception):
    pass


# regex fragments used by the anchors (all matched against the CANONICAL text, see `canonical`)
TY = r"(?:const )?(?:typename )?[\w:]+(?:<[^<>;()]*>)?(?:::\w+)?&?"      # a declared type
KC = r"(?:static_cast<\w+>\(k\)|k)"                                       # k, with or without a cast


# ----------------------------------------------------------------------------- source access
def strip_comments(src):
    def repl(m):
        s = m.group(0)
        if s.startswith("/"):
            return " " if s.startswith("/*") else ""
        return s
    pat = re.compile(r'//[^\n]*|/\*.*?\*/|"(?:\\.|[^"\\])*"|\'(?:\\.|[^\'\\])*\'', re.S)
    return pat.sub(repl, src)


CONTROL = re.compile(r"\b(for|while|if|else)\b")


def _skip_parens(s, i):
    """s[i] == '(' -> index just after the matching ')'"""
    depth = 0
    for j in range(i, len(s)):
        if s[j] == "(":
            depth += 1
        elif s[j] == ")":
            depth -= 1
            if depth == 0:
                return j + 1
    return len(s)


def _statement_end(s, i):
    """index just after the statement that starts at s[i] (i at its first non-blank character)"""
    while i < len(s) and s[i] == " ":
        i += 1
    if i >= len(s):
        return i
    if s[i] == "{":
        depth = 0
        for j in range(i, len(s)):
            if s[j] == "{":
                depth += 1
            elif s[j] == "}":
                depth -= 1
                if depth == 0:
                    return j + 1
        return len(s)
    m = CONTROL.match(s, i)
    if m:
        kw = m.group(1)
        j = m.end()
        while j < len(s) and s[j] == " ":
            j += 1
        if kw != "else":
            if j < len(s) and s[j] == "(":
                j = _skip_parens(s, j)
            end = _statement_end(s, j)
            # an `if` statement owns a following `else`
            if kw == "if":
                k = end
                while k < len(s) and s[k] == " ":
                    k += 1
                if s.startswith("else", k) and not (s[k + 4:k + 5].isalnum() or s[k + 4:k + 5] == "_"):
                    return _statement_end(s, k)
            return end
        return _statement_end(s, j)
    depth = 0
    for j in range(i, len(s)):
        c = s[j]
        if c in "([{":
            depth += 1
        elif c in ")]}":
            depth -= 1
        elif c == ";" and depth == 0:
            return j + 1
    return len(s)


def add_braces(s):
    """every body of for / while / if / else becomes a braced block (`else if` chains are left as they are)"""
    out = []
    i = 0
    while True:
        m = CONTROL.search(s, i)
        if not m:
            out.append(s[i:])
            break
        kw = m.group(1)
        j = m.end()
        while j < len(s) and s[j] == " ":
            j += 1
        if kw != "else":
            if j >= len(s) or s[j] != "(":
                out.append(s[i:m.end()])
                i = m.end()
                continue
            j = _skip_parens(s, j)
        out.append(s[i:j])
        k = j
        while k < len(s) and s[k] == " ":
            k += 1
        if k >= len(s) or s[k] in "{;" or (kw == "else" and s.startswith("if", k) and not s[k + 2:k + 3].isalnum()):
            i = j
            continue
        if kw == "while" and s[k] == ";":
            i = j
            continue
        end = _statement_end(s, k)
        body = add_braces(s[k:end])
        out.append(" { " + body.strip() + " }")
        i = end
    return "".join(out)


def canonical(src):
    """Formatting-insensitive form of a C++ source text.  Behaviour-preserving rewrites that map to the same text:
    comments, whitespace and line breaks (also inside method chains), `#pragma` lines, `NULL`/`nullptr`/`0` for pointers
    is NOT attempted beyond NULL/nullptr, `i++` / `++i` / `i += 1` as a statement or loop increment, `.noalias()`,
    `typedef A B` / `using B = A`, braces around single-statement bodies of for / while / if / else, a loop condition
    written `bound > i` instead of `i < bound`, `x == false` / `!x`, redundant parentheses around a single identifier."""
    s = strip_comments(src)
    s = drop_verif_blocks(s)
    s = re.sub(r"^[ \t]*#[ \t]*pragma[^\n]*$", " ", s, flags=re.M)
    s = re.sub(r"\s+", " ", s)
    s = re.sub(r"\bnullptr\b", "NULL", s)
    s = re.sub(r"\bconstexpr\b", "const", s)
    s = re.sub(r" \.(?=[A-Za-z_])", ".", s)
    s = s.replace(".noalias()", "")
    s = re.sub(r"\b([A-Za-z_]\w*)\+\+(?= ?[);,])", r"++\1", s)
    s = re.sub(r"\b([A-Za-z_]\w*)--(?= ?[);,])", r"--\1", s)
    s = re.sub(r"\b([A-Za-z_]\w*) \+= 1(?= ?[);,])", r"++\1", s)
    s = re.sub(r"\b([A-Za-z_]\w*) -= 1(?= ?[);,])", r"--\1", s)
    s = re.sub(r"\btypedef ([^;{}]+?) (\w+);", r"using \2 = \1;", s)
    s = re.sub(r"\b(\w+(?:\[\w+\])?) == false\b", r"!\1", s)
    s = re.sub(r"\b(\w+(?:\[\w+\])?) == true\b", r"\1", s)
    # `for (T i = a; bound > i; …)`  ->  `for (T i = a; i < bound; …)`
    s = re.sub(r"(for \([^;()]*?\b(\w+) = [^;]*; )([^;<>=!&|]+?) (>=|>) \2;",
               lambda m: "%s%s %s %s;" % (m.group(1), m.group(2), "<" if m.group(4) == ">" else "<=", m.group(3).strip()), s)
    # redundant parentheses around one identifier / literal (not a call, not a control header, not a cast target)
    s = re.sub(r"(?<=[-+*/%=,(<>!&|?:\[] )\((\w+)\)(?! ?[\w(])", r"\1", s)
    s = re.sub(r"(?<=[(\[])\((\w+)\)(?! ?[\w(])", r"\1", s)
    s = add_braces(s)
    s = re.sub(r"\s+", " ", s)
    # `for (; c;)` is `while (c)`
    s = re.sub(r"\bfor \( ?; ([^;]+?) ?; ?\)", r"while (\1)", s)
    s = while_to_for(s)
    return s


def drop_verif_blocks(s):
    """the verification hooks (`#ifdef TAPKEE_VERIF … [#else …] #endif`) are not part of the library's behaviour:
    the guarded text is dropped (the #else branch, if any, is kept); nested conditionals inside are respected"""
    out = []
    lines = s.split("\n")
    i = 0
    while i < len(lines):
        if re.match(r"\s*#\s*(ifdef\s+TAPKEE_VERIF\b|if\s+defined\s*\(?\s*TAPKEE_VERIF\s*\)?\s*$)", lines[i]):
            depth, keep = 1, False
            i += 1
            while i < len(lines) and depth > 0:
                l = lines[i]
                if re.match(r"\s*#\s*if", l):
                    depth += 1
                elif re.match(r"\s*#\s*endif", l):
                    depth -= 1
                    if depth == 0:
                        i += 1
                        break
                elif depth == 1 and re.match(r"\s*#\s*else", l):
                    keep = True
                    i += 1
                    continue
                if keep:
                    out.append(l)
                i += 1
            continue
        out.append(lines[i])
        i += 1
    return "\n".join(out)


def while_to_for(s):
    """`T i = a; while (i < n) { …; ++i; }`  ->  `for (T i = a; i < n; ++i) { … }` when the counter is declared just before
    the loop, incremented as the last statement of the body and the body has no `continue`"""
    pat = re.compile(r"(" + TY + r") (\w+) = ([^;{}]+); while \(\2 (<=|<|!=) ([^(){};]+)\) \{")
    pos = 0
    while True:
        m = pat.search(s, pos)
        if not m:
            return s
        i = m.end() - 1
        depth = 0
        end = None
        for j in range(i, len(s)):
            if s[j] == "{":
                depth += 1
            elif s[j] == "}":
                depth -= 1
                if depth == 0:
                    end = j
                    break
        if end is None:
            return s
        body = s[i + 1:end]
        inc = "++%s; " % m.group(2)
        if body.endswith(inc) and not re.search(r"\bcontinue\b", body) and body.count("++" + m.group(2)) == 1:
            new = "for (%s %s = %s; %s %s %s; ++%s) {%s}" % (m.group(1), m.group(2), m.group(3), m.group(2), m.group(4),
                                                             m.group(5), m.group(2), body[:-len(inc)])
            s = s[:m.start()] + new + s[end + 1:]
            pos = m.start() + 4
        else:
            pos = m.end()


class Source:
    def __init__(self, repo):
        self.repo = repo
        self.cache = {}

    def raw(self, rel):
        p = os.path.join(self.repo, "include", rel)
        try:
            return open(p).read()
        except OSError as ex:
            raise TranslateError("cannot read %s: %s" % (rel, ex))

    def norm(self, rel):
        """canonical text of a header (see `canonical`): what every anchor is matched against"""
        if rel not in self.cache:
            self.cache[rel] = canonical(self.raw(rel))
        return self.cache[rel]

    def find(self, rel, pattern, what, start=0, flags=0):
        m = re.compile(pattern, flags).search(self.norm(rel), start)
        if not m:
            raise TranslateError("anchor not found in %s: %s  (pattern %r)" % (rel, what, pattern))
        return m

    def function_body(self, rel, header_pattern, what):
        """text of the brace-balanced body following the first match of header_pattern"""
        s = self.norm(rel)
        m = re.compile(header_pattern).search(s)
        if not m:
            raise TranslateError("function not found in %s: %s" % (rel, what))
        i = s.find("{", m.end() - 1)
        if i < 0:
            raise TranslateError("no body for %s in %s" % (what, rel))
        depth = 0
        for j in range(i, len(s)):
            if s[j] == "{":
                depth += 1
            elif s[j] == "}":
                depth -= 1
                if depth == 0:
                    return s[i + 1:j]
        raise TranslateError("unbalanced braces after %s in %s" % (what, rel))


# ----------------------------------------------------------------------------- C++ integer / scalar expressions -> Lean
TOKEN = re.compile(r"\s*(?:(\d+\.\d*(?:[eE][-+]?\d+)?[fF]?|\.\d+|\d+[eE][-+]?\d+)|(\d+)|([A-Za-z_][\w.]*(?:\(\))?)|(.))")


def tokenize(expr):
    toks = []
    pos = 0
    expr = expr.strip()
    while pos < len(expr):
        m = TOKEN.match(expr, pos)
        if not m:
            raise TranslateError("cannot tokenize %r" % expr)
        pos = m.end()
        if m.group(1) is not None:
            toks.append(("float", m.group(1).rstrip("fF")))
        elif m.group(2) is not None:
            toks.append(("int", m.group(2)))
        elif m.group(3) is not None:
            toks.append(("id", m.group(3)))
        elif m.group(4).strip():
            toks.append(("op", m.group(4)))
    return toks


def strip_casts(expr):
    """static_cast<T>(e) -> (e) ;  (T)e for the scalar/index typedefs -> e"""
    prev = None
    while prev != expr:
        prev = expr
        expr = re.sub(r"static_cast\s*<[^<>]*>\s*\(", "(", expr)
        expr = re.sub(r"\(\s*(?:ScalarType|IndexType|int|double|size_t)\s*\)", "", expr)
    return expr


def float_to_rat(txt):
    """decimal literal -> exact `num/den` text"""
    from fractions import Fraction
    f = Fraction(txt)
    return (f.numerator, f.denominator)


class ExprParser:
    """precedence climbing over + - * / unary-minus ( ) ; identifiers resolved through `env` (C++ name -> Lean term)"""

    def __init__(self, expr, env, mode, what):
        self.src = expr
        self.toks = tokenize(strip_casts(expr))
        self.i = 0
        self.env = env
        self.mode = mode          # "Int" | "Rat"
        self.what = what
        self.last_int = True

    def fail(self, msg):
        raise TranslateError("%s: %s in expression %r" % (self.what, msg, self.src))

    def peek(self):
        return self.toks[self.i] if self.i < len(self.toks) else (None, None)

    def take(self):
        t = self.peek()
        self.i += 1
        return t

    def parse(self):
        e = self.sum()
        if self.i != len(self.toks):
            self.fail("trailing tokens %r" % (self.toks[self.i:],))
        return e

    def sum(self):
        e = self.product()
        while self.peek() in (("op", "+"), ("op", "-")):
            op = self.take()[1]
            lhs_int = self.last_int
            rhs = self.product()
            self.last_int = lhs_int and self.last_int
            e = "(%s %s %s)" % (e, op, rhs)
        return e

    def product(self):
        e = self.unary()
        while self.peek() in (("op", "*"), ("op", "/")):
            op = self.take()[1]
            lhs_int = self.last_int
            rhs = self.unary()
            if op == "/" and self.mode == "Rat" and lhs_int and self.last_int:
                self.fail("integer division inside a floating-point expression is not supported")
            self.last_int = lhs_int and self.last_int
            e = "(%s %s %s)" % (e, op, rhs)
        return e

    def unary(self):
        if self.peek() == ("op", "-"):
            self.take()
            return "(-%s)" % self.unary()
        return self.atom()

    def atom(self):
        k, v = self.take()
        self.last_int = k in ("int", "id")
        if k == "int":
            return "(%s : %s)" % (v, self.mode)
        if k == "float":
            if self.mode != "Rat":
                n, d = float_to_rat(v)
                if d != 1:
                    self.fail("non-integral literal %s in an integer expression" % v)
                return "(%d : Int)" % n
            n, d = float_to_rat(v)
            return "(%d : Rat)" % n if d == 1 else "((%d : Rat) / %d)" % (n, d)
        if k == "id":
            if v not in self.env:
                self.fail("unknown identifier %r (known: %s)" % (v, ", ".join(sorted(self.env))))
            t = self.env[v]
            if t.startswith("(rat)"):
                if self.mode != "Rat":
                    self.fail("floating-point keyword inside an integer expression")
                self.last_int = False
                return t[5:]
            t = t[5:] if t.startswith("(int)") else t
            return "((%s : Int) : Rat)" % t if self.mode == "Rat" else t
        if (k, v) == ("op", "("):
            e = self.sum()
            if self.take() != ("op", ")"):
                self.fail("missing )")
            return e
        self.fail("unexpected token %r" % (v,))


def lean_expr(expr, env, mode="Int", what="?"):
    """C++ arithmetic expression -> Lean term; `std::min<T>(a, b)` / `std::max<T>(a, b)` are understood"""
    env = dict(env)
    n = 0
    while True:
        m = re.search(r"std::(min|max)\s*(?:<\s*\w+\s*>)?\s*\(", expr)
        if not m:
            break
        i = m.end() - 1
        depth = 0
        end = None
        for j in range(i, len(expr)):
            if expr[j] == "(":
                depth += 1
            elif expr[j] == ")":
                depth -= 1
                if depth == 0:
                    end = j + 1
                    break
        if end is None:
            raise TranslateError("%s: unbalanced parentheses in %r" % (what, expr))
        args = split_args(expr[m.end():end - 1])
        if len(args) != 2:
            raise TranslateError("%s: std::%s with %d arguments in %r" % (what, m.group(1), len(args), expr))
        n += 1
        name = "__m%d" % n
        env[name] = "(int)(%s %s %s)" % (m.group(1), lean_expr(args[0], env, mode, what), lean_expr(args[1], env, mode, what))
        expr = expr[:m.start()] + name + expr[end:]
    return ExprParser(expr, env, mode, what).parse()


# ----------------------------------------------------------------------------- output helpers
class Out:
    def __init__(self):
        self.lines = []
        self.names = []

    def comment(self, text):
        self.lines.append("")
        for l in text.split("\n"):
            self.lines.append("-- " + l if l else "--")

    def defn(self, name, params, body, doc=None, typ="Int"):
        if doc:
            self.lines.append("/-- %s -/" % doc.replace("-/", "- /"))
        ps = " ".join("(%s : Int)" % p if ":" not in p else "(%s)" % p for p in params)
        self.lines.append("def %s %s: %s := %s" % (name, ps + " " if ps else "", typ, body))
        self.names.append(name)

    def raw(self, text):
        self.lines.append(text)


def lean_str(s):
    return '"' + s.replace("\\", "\\\\").replace('"', '\\"') + '"'


# ----------------------------------------------------------------------------- §1 validation bounds
KW_FIELD = {                      # tapkee keyword -> (Config field, mode)
    "target_dimension": ("d", "Int"), "num_neighbors": ("k", "Int"), "landmark_ratio": ("ratio", "Rat"),
    "sne_perplexity": ("perp", "Rat"), "sne_theta": ("theta", "Rat"), "gaussian_kernel_width": ("width", "Rat"),
    "diffusion_map_timesteps": ("timesteps", "Int"), "squishing_rate": ("squish", "Rat"),
    "spe_tolerance": ("speTol", "Rat"), "spe_num_updates": ("speUpd", "Int"), "fa_epsilon": ("faEps", "Rat"),
    "max_iteration": ("maxIter", "Int"), "nullspace_shift": ("nullShift", "Rat"), "klle_shift": ("klleShift", "Rat"),
}
VAL_ENV = {"n_vectors": "c.N", "current_dimension": "c.D"}
METHOD_FILES = [   # (Lean constructor, C++ class prefix, header)
    ("klle", "KernelLocallyLinearEmbedding", "kernel_locally_linear_embedding.hpp"),
    ("kltsa", "KernelLocalTangentSpaceAlignment", "kernel_local_tangent_space_alignment.hpp"),
    ("dm", "DiffusionMap", "diffusion_map.hpp"),
    ("mds", "MultidimensionalScaling", "multidimensional_scaling.hpp"),
    ("lmds", "LandmarkMultidimensionalScaling", "landmark_multidimensional_scaling.hpp"),
    ("isomap", "Isomap", "isomap.hpp"),
    ("lisomap", "LandmarkIsomap", "landmark_isomap.hpp"),
    ("npe", "NeighborhoodPreservingEmbedding", "neighborhood_preserving_embedding.hpp"),
    ("lltsa", "LinearLocalTangentSpaceAlignment", "linear_local_tangent_space_alignment.hpp"),
    ("hlle", "HessianLocallyLinearEmbedding", "hessian_locally_linear_embedding.hpp"),
    ("le", "LaplacianEigenmaps", "laplacian_eigenmaps.hpp"),
    ("lpp", "LocalityPreservingProjections", "locality_preserving_projections.hpp"),
    ("pca", "PrincipalComponentAnalysis", "pca.hpp"),
    ("kpca", "KernelPrincipalComponentAnalysis", "kernel_pca.hpp"),
    ("rp", "RandomProjection", "random_projection.hpp"),
    ("spe", "StochasticProximityEmbedding", "stochastic_proximity_embedding.hpp"),
    ("passthru", "PassThru", "all.hpp"),
    ("fa", "FactorAnalysis", "factor_analysis.hpp"),
    ("tsne", "tDistributedStochasticNeighborEmbedding", "tsne.hpp"),
    ("ms", "ManifoldSculpting", "manifold_sculpting.hpp"),
]
CHECK_HEAD = re.compile(r"parameters\[(\w+)\]\s*\.checked\(\)\s*\.satisfies\(\s*(\w+)\s*<\s*(\w+)\s*>\s*\(")
CHECK_TAIL = re.compile(r"\s*\)\s*\.orThrow\(\)")


class CheckMatch:
    def __init__(self, s, start, end, groups):
        self.s, self._start, self._end, self.g = s, start, end, groups

    def group(self, i):
        return self.s[self._start:self._end] if i == 0 else self.g[i - 1]

    def start(self):
        return self._start

    def end(self):
        return self._end


class CHECK:
    """`parameters[kw].checked().satisfies(Pred<T>(args)).orThrow()` with balanced parentheses inside args"""

    @staticmethod
    def _at(s, m):
        end = balanced_end(s, m.end() - 1)
        t = CHECK_TAIL.match(s, end)
        if not t:
            return None
        return CheckMatch(s, m.start(), t.end(), (m.group(1), m.group(2), m.group(3), s[m.end():end - 1]))

    @staticmethod
    def match(s, pos=0):
        m = CHECK_HEAD.match(s, pos)
        return CHECK._at(s, m) if m else None

    @staticmethod
    def search(s, pos=0):
        m = CHECK_HEAD.search(s, pos)
        while m:
            r = CHECK._at(s, m)
            if r:
                return r
            m = CHECK_HEAD.search(s, m.end())
        return None

    @staticmethod
    def finditer(s):
        pos = 0
        while True:
            r = CHECK.search(s, pos)
            if not r:
                return
            yield r
            pos = r.end()


def split_args(s):
    args, depth, cur = [], 0, ""
    for ch in s:
        if ch in "(<[":
            depth += 1
        elif ch in ")>]":
            depth -= 1
        if ch == "," and depth == 0:
            args.append(cur.strip())
            cur = ""
        else:
            cur += ch
    if cur.strip():
        args.append(cur.strip())
    return args


def balanced_end(s, i):
    """index just after the parenthesis that closes the one at s[i]"""
    depth = 0
    for j in range(i, len(s)):
        if s[j] == "(":
            depth += 1
        elif s[j] == ")":
            depth -= 1
            if depth == 0:
                return j + 1
    raise TranslateError("unbalanced parentheses in %r" % s)


def bound_expr(expr, env, mode, what):
    """a bound expression of a validation check -> Lean.  Beyond the integer / scalar grammar it understands
    `parameters[kw]` (optionally inside a static_cast) and, in integer expressions, `static_cast<IndexType>(E)` of a
    floating-point expression E (truncation of a non-negative value = floor of the exact rational)."""
    env = dict(env)
    n = [0]

    def fresh(term):
        n[0] += 1
        name = "__v%d" % n[0]
        env[name] = term
        return name

    # static_cast<IndexType>( floating expression )
    while mode == "Int":
        m = re.search(r"static_cast\s*<\s*IndexType\s*>\s*\(", expr)
        found = False
        while m:
            end = balanced_end(expr, m.end() - 1)
            inner = expr[m.end():end - 1]
            if "ScalarType" in inner or re.search(r"\d\.\d|\d\.(?!\w)", inner):
                term = "(%s).floor" % bound_expr(inner, env, "Rat", what)
                expr = expr[:m.start()] + fresh("(int)" + term) + expr[end:]
                found = True
                break
            m = re.compile(r"static_cast\s*<\s*IndexType\s*>\s*\(").search(expr, m.end())
        if not found:
            break
    # parameters[kw], with or without a cast around it
    def repl(mm):
        kw = mm.group(1)
        if kw not in KW_FIELD:
            raise TranslateError("%s: bound mentions unknown keyword %r" % (what, kw))
        field, fmode = KW_FIELD[kw]
        return fresh(("(rat)" if fmode == "Rat" else "") + "c." + field)
    expr = re.sub(r"static_cast\s*<\s*\w+\s*>\s*\(\s*parameters\[(\w+)\]\s*\)", repl, expr)
    expr = re.sub(r"parameters\[(\w+)\]", repl, expr)
    return lean_expr(expr, env, mode, what)


def check_to_lean(kw, pred, typ, args, what, env=None):
    if kw not in KW_FIELD:
        raise TranslateError("%s: validation of unknown keyword %r" % (what, kw))
    field, mode = KW_FIELD[kw]
    want = {"IndexType": "Int", "ScalarType": "Rat"}.get(typ)
    if want is None or want != mode:
        raise TranslateError("%s: predicate type %s does not fit keyword %s" % (what, typ, kw))
    v = "c." + field
    e = dict(VAL_ENV)
    e.update(env or {})
    a = [bound_expr(x, e, mode, what) for x in split_args(args)]
    if pred == "InRange" and len(a) == 2:
        return "decide (%s ≤ %s ∧ %s < %s)" % (a[0], v, v, a[1])
    if pred == "InClosedRange" and len(a) == 2:
        return "decide (%s ≤ %s ∧ %s ≤ %s)" % (a[0], v, v, a[1])
    if pred == "Positivity" and not a:
        return "decide ((0 : %s) < %s)" % (mode, v)
    if pred == "NonNegativity" and not a:
        return "decide ((0 : %s) ≤ %s)" % (mode, v)
    raise TranslateError("%s: unsupported predicate %s(%s)" % (what, pred, args))


COND = re.compile(r"^if \(\s*(?:static_cast\s*<\s*\w+\s*>\s*\()?\s*parameters\[(\w+)\]\s*\)?\s*(<=|>=|==|!=|<|>)\s*([-\d.]+)\s*\)\s*$")
COND_IS = re.compile(r"^if \(\s*(!?)\s*parameters\[(\w+)\]\.is\((\w+)\)\s*\)\s*$")
REL = {"<": "<", ">": ">", "<=": "≤", ">=": "≥", "==": "=", "!=": "≠"}


def validate_statements(body, what, helper=None, depth=0):
    """a validate() body -> list of Lean Bool terms.  Grammar: ( [if (parameters[kw] REL literal)] CHECK ; )*"""
    terms = []
    env = {}
    rest = body.strip()
    while rest:
        lg = re.match(r"(?:tapkee::)?Logging::instance\(\)\.message_\w+\((?:[^();]|\([^()]*\))*\);\s*", rest)
        if lg:                       # logging has no part in validation
            rest = rest[lg.end():]
            continue
        hc = re.match(r"(?:this->)?(\w+)\(\);\s*", rest)
        if hc and helper is not None and depth < 4:      # a member function that holds part of the checks
            hb = helper(hc.group(1))
            if hb is None:
                raise TranslateError("%s: call of %s() whose body was not found" % (what, hc.group(1)))
            terms += validate_statements(hb, what + "/" + hc.group(1), helper, depth + 1)
            rest = rest[hc.end():]
            continue
        dm = re.match(r"(?:const )?IndexType (\w+) = ([^;]+);\s*", rest)
        if dm:
            e = dict(VAL_ENV)
            e.update(env)
            env[dm.group(1)] = "(int)" + bound_expr(dm.group(2), e, "Int", what)
            rest = rest[dm.end():]
            continue
        m = CHECK.match(rest)
        guard = None
        if not m:
            g = re.match(r"(if \([^{};]*?\))\s*\{\s*(?=parameters\[)", rest)
            if g:
                gm = COND.match(g.group(1).strip())
                if not gm:
                    raise TranslateError("%s: unsupported condition %r in validate()" % (what, g.group(1)))
                kw, rel, lit = gm.groups()
                if kw not in KW_FIELD:
                    raise TranslateError("%s: condition on unknown keyword %r" % (what, kw))
                field, mode = KW_FIELD[kw]
                guard = "decide (c.%s %s %s)" % (field, REL[rel], lean_expr(lit, {}, mode, what))
                rest = rest[g.end():].lstrip()
                m = CHECK.match(rest)
        if not m:
            raise TranslateError("%s: statement not understood in validate(): %r" % (what, rest[:120]))
        t = check_to_lean(m.group(1), m.group(2), m.group(3), m.group(4), what, env)
        terms.append(t if guard is None else "(!%s || %s)" % (guard, t))
        rest = rest[m.end():].lstrip()
        if not rest.startswith(";"):
            raise TranslateError("%s: missing ; after check: %r" % (what, rest[:60]))
        rest = rest[1:].lstrip()
        if guard is not None:
            if not rest.startswith("}"):
                raise TranslateError("%s: a guarded check must be the only statement of its block: %r" % (what, rest[:60]))
            rest = rest[1:].lstrip()
    return terms


def gen_validation(src, out):
    out.comment("§1 validation bounds — `parameters[kw].checked().satisfies(Pred<T>(args)).orThrow()`\n"
                "InRange = [lo, hi), InClosedRange = [lo, hi], Positivity = (0, ∞), NonNegativity = [0, ∞)  (predicates.hpp)")
    # predicate semantics are themselves read from predicates.hpp
    sem = {"InRange": r"struct InRange .*?return \(?v >= lower\)? && \(?v < upper\)?;",
           "InClosedRange": r"struct InClosedRange .*?return \(?v >= lower\)? && \(?v <= upper\)?;",
           "Positivity": r"struct Positivity .*?return v > 0;",
           "NonNegativity": r"struct NonNegativity .*?return v >= 0;"}
    for name, pat in sem.items():
        src.find("tapkee/predicates.hpp", pat, "semantics of predicate " + name)
    # base constructor
    ctor = src.function_body("tapkee/methods/base.hpp", r"ImplementationBase\(RandomAccessIterator b, RandomAccessIterator e,[^{;]*?\)\s*:[^{;]*?(?=\{)", "ImplementationBase constructor")
    m0 = re.search(r"if \(n_vectors == 0\) \{ throw (\w+)\(\); \}", ctor)
    if not m0:
        raise TranslateError("base.hpp: empty-input check `if (n_vectors == 0) throw ...` not found")
    out.raw("/-- base.hpp constructor: `if (n_vectors == 0) throw %s();` -/" % m0.group(1))
    out.raw("def emptyInputThrows : String := %s" % lean_str(m0.group(1)))
    checks = [CHECK.search(ctor, m0.end())]
    if not checks[0]:
        out.raw("/-- base.hpp constructor: no range check on any keyword -/")
        out.raw("def validateBase (c : Config) : Bool := true")
    else:
        terms = []
        for m in CHECK.finditer(ctor):
            terms.append(check_to_lean(m.group(1), m.group(2), m.group(3), m.group(4), "base.hpp constructor"))
        out.raw("/-- base.hpp constructor: %s -/" % "; ".join(m.group(0) for m in CHECK.finditer(ctor)))
        out.raw("def validateBase (c : Config) : Bool := %s" % " && ".join(terms))
    fn = src.function_body("tapkee/methods/base.hpp", r"Neighbors find_neighbors_with\(Distance \w+\)", "find_neighbors_with")
    terms = [check_to_lean(m.group(1), m.group(2), m.group(3), m.group(4), "find_neighbors_with") for m in CHECK.finditer(fn)]
    out.raw("/-- base.hpp find_neighbors_with: %s -/" % ("; ".join(m.group(0) for m in CHECK.finditer(fn)) or "no check"))
    out.raw("def validateNeighbors (c : Config) : Bool := %s" % (" && ".join(terms) or "true"))
    out.raw("")
    out.raw("/-- per method: the body of `validate()` -/")
    out.raw("def validateMethod : Method → Config → Bool")
    uses_nb = []
    for ctor_name, cls, hdr in METHOD_FILES:
        rel = "tapkee/methods/" + hdr
        s = src.norm(rel)
        if "__TAPKEE_IMPLEMENTATION(%s)" % cls not in s:
            raise TranslateError("%s: __TAPKEE_IMPLEMENTATION(%s) not found" % (rel, cls))
        body = src.function_body(rel, r"__TAPKEE_IMPLEMENTATION\(%s\).*?void validate\(\)" % cls, cls + "::validate")

        def helper(name, rel=rel):
            try:
                return src.function_body(rel, r"\bvoid %s\(\)" % re.escape(name), name)
            except TranslateError:
                return None
        terms = validate_statements(body, cls + "::validate", helper)
        out.raw("  | .%s, %s => %s" % (ctor_name, "c" if terms else "_", " && ".join(terms) or "true"))
        emb = src.function_body(rel, r"__TAPKEE_IMPLEMENTATION\(%s\).*?TapkeeOutput embed\(\)" % cls, cls + "::embed")
        if "find_neighbors_with(" in emb:
            cond = None
            mm = re.search(r"if \(parameters\[(\w+)\]\.is\((\w+)\)\) \{ neighbors = find_neighbors_with", emb)
            if mm:
                cond = (mm.group(1), mm.group(2))
            uses_nb.append((ctor_name, cond))
    out.raw("")
    out.raw("/-- does `embed()` call `find_neighbors_with` (and therefore validate num_neighbors)? -/")
    out.raw("def usesNeighbors : Method → Config → Bool")
    for ctor_name, cond in uses_nb:
        if cond is None:
            out.raw("  | .%s, _ => true" % ctor_name)
        elif cond == ("spe_global_strategy", "false"):
            out.raw("  | .%s, c => !c.speGlobal" % ctor_name)
        else:
            raise TranslateError("unsupported condition around find_neighbors_with: %r" % (cond,))
    out.raw("  | _, _ => false")
    # which eigensolver entry point does embed() use?
    std_, gen_ = [], []
    for ctor_name, cls, hdr in METHOD_FILES:
        emb = src.function_body("tapkee/methods/" + hdr, r"__TAPKEE_IMPLEMENTATION\(%s\).*?TapkeeOutput embed\(\)" % cls, cls + "::embed")
        if "generalized_eigendecomposition(" in emb:
            gen_.append(ctor_name)
        if "eigendecomposition_via(" in emb:
            std_.append(ctor_name)
    out.raw("")
    out.raw("/-- `embed()` calls `eigendecomposition_via(...)` (standard problem; Dense and Randomized implemented) -/")
    out.raw("def usesStandardEig : Method → Bool")
    for n in std_:
        out.raw("  | .%s => true" % n)
    out.raw("  | _ => false")
    out.raw("/-- `embed()` calls `generalized_eigendecomposition(...)` (Randomized throws unsupported_method_error) -/")
    out.raw("def usesGeneralizedEig : Method → Bool")
    for n in gen_:
        out.raw("  | .%s => true" % n)
    out.raw("  | _ => false")
    s = src.norm("tapkee/routines/generalized_eigendecomposition.hpp")
    if not re.search(r"if \(method\.is\(Randomized\)\) \{ throw unsupported_method_error\(", s):
        raise TranslateError("generalized_eigendecomposition: `if (method.is(Randomized)) throw unsupported_method_error` not found")
    # documented defaults (defines/keywords.hpp)
    kws = re.sub(r"\s+", " ", src.raw("tapkee/defines/keywords.hpp"))
    dflt = {}
    for m in re.finditer(r"const stichwort::ParameterKeyword<([^>]+)> (\w+)\(\"[^\"]*\", ([^;]+?)\);", kws):
        dflt[m.group(2)] = (m.group(1).strip(), m.group(3).strip())
    fields = []
    for kw, (field, mode) in KW_FIELD.items():
        if kw not in dflt:
            raise TranslateError("keywords.hpp: default of %s not found" % kw)
        fields.append("%s := %s" % (field, lean_expr(dflt[kw][1], {}, mode, "default of " + kw)))
    for kw, field in (("spe_global_strategy", "speGlobal"), ("check_connectivity", "checkConn")):
        if kw not in dflt or dflt[kw][1] not in ("true", "false"):
            raise TranslateError("keywords.hpp: boolean default of %s not found" % kw)
        fields.append("%s := %s" % (field, dflt[kw][1]))
    out.raw("")
    out.raw("/-- defines/keywords.hpp: the documented default of every keyword a validate() reads -/")
    out.raw("def defaultConfig (m : Method) (nm : NeighborsMethod) (em : EigenMethod) (N D : Int) : Config :=")
    out.raw("  { method := m, nm := nm, em := em, N := N, D := D,")
    out.raw("    " + ",\n    ".join(fields) + " }")


# ----------------------------------------------------------------------------- §2 index sites
def gen_sites(src, out):
    E = lean_expr
    # ---- brute-force k-NN -------------------------------------------------------------------------------------
    f = "tapkee/neighbors/neighbors.hpp"
    out.comment("§2.1 neighbors.hpp — brute force: nth_element position, the copy loop, clamp and doubling of k")
    body = src.function_body(f, r"Neighbors find_neighbors_bruteforce_impl\(", "find_neighbors_bruteforce_impl")
    m = re.search(r"for \(" + TY + r" (\w+) = begin; \1 != end; \+\+\1\) \{ (\w+)\.push_back\(", body)
    if not m:
        raise TranslateError("neighbors.hpp: loop filling the distance records (one per sample) not found")
    dist = m.group(2)
    out.defn("brute_distances_size", ["N"], "N", "`%s` receives one record per sample of [begin, end)" % dist)
    m = re.search(r"std::nth_element\(%s\.begin\(\), %s\.begin\(\) \+ ([^,]+), %s\.end\(\)" % (dist, dist, dist), body)
    if not m:
        raise TranslateError("neighbors.hpp: std::nth_element(begin, begin + ..., end) not found")
    out.defn("brute_nth_pos", ["k"], E(m.group(1), {"k": "k"}, what="nth_element position"),
             "`std::nth_element(begin, begin + %s, end)` (position may equal size)" % m.group(1))
    m = re.search(r"(\w+) != %s\.begin\(\) \+ ([^;]+); \+\+\1" % dist, body)
    if not m:
        raise TranslateError("neighbors.hpp: copy loop `it != distances.begin() + ...` not found")
    out.defn("brute_take_end", ["k"], E(m.group(2), {"k": "k"}, what="copy loop end"),
             "copy loop reads records [0, %s), skipping the query if it is among them" % m.group(2))
    m = re.search(r"if \((\w+)\.size\(\) > " + KC + r"\) \{ \1\.pop_back\(\); \} neighbors\.push_back\(\1\);", body)
    out.raw("/-- brute force: is a list longer than k trimmed (`if (local_neighbors.size() > k) local_neighbors.pop_back()`)? -/")
    out.raw("def brute_trims_to_k : Bool := %s" % ("true" if m else "false"))
    vb = src.function_body(f, r"Neighbors find_neighbors_vptree_impl\(", "find_neighbors_vptree_impl")
    m = re.search(r"= tree\.search\(\w+, ([^)]+)\);", vb)
    if not m:
        raise TranslateError("neighbors.hpp: tree.search(i, k + 1) not found")
    out.defn("vptree_requested", ["k"], E(m.group(1), {"k": "k"}, what="vptree request"), "`tree.search(i, %s)`, the query removed afterwards" % m.group(1))
    m = re.search(r"if \((\w+)\.size\(\) > " + KC + r"\) \{ \1\.erase\(\1\.begin\(\)\); \} neighbors\.push_back\(\1\);", vb)
    out.raw("def vptree_trims_to_k : Bool := %s" % ("true" if m else "false"))
    body = src.function_body(f, r"Neighbors find_neighbors\(NeighborsMethod method,", "find_neighbors")
    m = re.search(r"if \(k > ([^{]+?)\) \{.*?k = ([^;]+);", body)
    if not m or strip_casts(m.group(1)).strip() != strip_casts(m.group(2)).strip():
        raise TranslateError("neighbors.hpp: clamp `if (k > X) k = X` not found")
    out.defn("knn_clamp_bound", ["N"], E(m.group(1), {"end": "N", "begin": "(0 : Int)"}, what="k clamp"),
             "`if (k > %s) k = %s`" % (m.group(1).strip(), m.group(2).strip()))
    m = re.search(r"neighbors = find_neighbors\(method, begin, end, callback, ([^,]+), check_connectivity\)", body)
    if not m:
        raise TranslateError("neighbors.hpp: recursive call with the enlarged k not found")
    out.defn("knn_next_k", ["k"], E(m.group(1), {"k": "k"}, what="k doubling"),
             "not connected: `find_neighbors(…, %s, check_connectivity)`" % m.group(1))
    if not re.search(r"if \(check_connectivity && !is_connected\(begin, end, neighbors\)\)", body):
        raise TranslateError("neighbors.hpp: `if (check_connectivity && !is_connected(...))` not found")
    # consumers index each list with the length of list 0
    fc = "tapkee/neighbors/connected.hpp"
    body = src.function_body(fc, r"bool is_connected\(", "is_connected")
    m = re.search(TY + r" (\w+) = neighbors\[0\]\.size\(\);", body)
    m2 = m and re.search(r"for \(" + TY + r" (\w+) = 0; \1 (<=|<) ([^;]+); \+\+\1\) \{ " + TY + r" \w+ = ([\w\[\]]+)\[\1\];", body)
    if not m2:
        raise TranslateError("connected.hpp: `k = neighbors[0].size()` / `current_neighbors[j], j < k` not found")
    bound = E(m2.group(3), {m.group(1): "len0"}, what="consumer loop bound")
    if m2.group(2) == "<=":
        bound = "(%s + 1)" % bound
    out.defn("consumer_loop_bound", ["len0"], bound,
             "connected.hpp (and every routine): `%s = neighbors[0].size()`, lists indexed by `%s %s %s` (exclusive bound)" % (m.group(1), m2.group(1), m2.group(2), m2.group(3)))

    # ---- HLLE -------------------------------------------------------------------------------------------------
    f = "tapkee/routines/locally_linear.hpp"
    out.comment("§2.2 locally_linear.hpp — hessian_weight_matrix")
    body = src.function_body(f, r"SparseWeightMatrix hessian_weight_matrix\(", "hessian_weight_matrix")
    env = {"target_dimension": "d", "k": "k"}
    m = re.search(r"const IndexType (\w+) = ([^;]+);", body[body.find("reserve"):])
    if not m:
        raise TranslateError("hessian_weight_matrix: definition of dp not found")
    dpn = m.group(1)
    out.defn("hlle_dp", ["d"], E(m.group(2), env, what="hlle dp"), "`const IndexType %s = %s`" % (dpn, m.group(2)))
    env[dpn] = "dp"
    m = re.search(r"DenseMatrix (\w+)\(k, ([^;]+)\);", body)
    if not m:
        raise TranslateError("hessian_weight_matrix: allocation of Yi(k, width) not found")
    yi = m.group(1)
    out.defn("hlle_yi_cols", ["d", "dp"], E(m.group(2), env, what="Yi width"), "`DenseMatrix %s(k, %s)`" % (yi, m.group(2)))
    m = re.search(r"%s\.block\(0, ([^,]+), k, ([^)]+)\) = (\w+)\.eigenvectors\(\)\.rightCols\(([^)]+)\)" % yi, body)
    if not m:
        raise TranslateError("hessian_weight_matrix: Yi.block(0, 1, k, d) = eigenvectors().rightCols(d) not found")
    out.defn("hlle_block_start", ["d"], E(m.group(1), env, what="Yi.block start"), "`%s.block(0, %s, k, %s)`" % (yi, m.group(1), m.group(2)))
    out.defn("hlle_block_cols", ["d"], E(m.group(2), env, what="Yi.block cols"))
    out.defn("hlle_eigvec_rightCols", ["d"], E(m.group(4), env, what="local eigenvectors rightCols"),
             "`%s.eigenvectors().rightCols(%s)` of the k x k local Gram matrix" % (m.group(3), m.group(4)))
    m = re.search(TY + r" (?P<ct>\w+) = (?P<init>[^;]+); for \(" + TY + r" (?P<j>\w+) = 0; (?P=j) < (?P<jhi>[^;]+); \+\+(?P=j)\) \{ "
                  r"for \(" + TY + r" (?P<p>\w+) = 0; (?P=p) < (?P<phi>[^;]+); \+\+(?P=p)\) \{ "
                  r"%s\.col\((?P<idx>[^)]+)\) = %s\.col\((?P<a>[^)]+)\)\.cwiseProduct\(%s\.col\((?P<b>[^)]+)\)\); \} "
                  r"(?P=ct) (?P<op>\+=|=) (?P<step>[^;]+); \}" % (yi, yi, yi), body)
    if not m:
        raise TranslateError("hessian_weight_matrix: the `ct` double loop writing Yi.col(ct + p + 1 + d) not found")
    env2 = dict(env)
    env2.update({m.group("ct"): "ct", m.group("j"): "j", m.group("p"): "p"})
    out.defn("hlle_ct_init", [], E(m.group("init"), env2, what="ct init"), "`IndexType %s = %s`" % (m.group("ct"), m.group("init")))
    out.defn("hlle_j_hi", ["d"], E(m.group("jhi"), env2, what="j loop"), "outer loop `%s < %s`" % (m.group("j"), m.group("jhi")))
    out.defn("hlle_p_hi", ["d", "j"], E(m.group("phi"), env2, what="p loop"), "inner loop `%s < %s`" % (m.group("p"), m.group("phi")))
    out.defn("hlle_col_idx", ["ct", "p", "d"], E(m.group("idx"), env2, what="Yi.col index"), "written column `%s.col(%s)`" % (yi, m.group("idx")))
    out.defn("hlle_src_a", ["j"], E(m.group("a"), env2, what="Yi.col a"), "read column `%s.col(%s)`" % (yi, m.group("a")))
    out.defn("hlle_src_b", ["j", "p"], E(m.group("b"), env2, what="Yi.col b"), "read column `%s.col(%s)`" % (yi, m.group("b")))
    step = E(m.group("step"), env2, what="ct step")
    if m.group("op") == "+=":
        step = "(ct + %s)" % step
    out.defn("hlle_ct_step", ["ct", "d", "j"], step, "`%s %s %s` at the end of outer iteration j" % (m.group("ct"), m.group("op"), m.group("step")))
    m = re.search(r"for \(" + TY + r" (\w+) = 0; \1 < ([^;]+); \+\+\1\) \{ " + TY + r" \w+ = %s\.col\(([^)]+)\)\.sum\(\);" % yi, body)
    if not m:
        raise TranslateError("hessian_weight_matrix: normalisation loop over Yi.col(1 + d + i) not found")
    env3 = dict(env)
    env3[m.group(1)] = "i"
    out.defn("hlle_norm_hi", ["dp"], E(m.group(2), env3, what="norm loop"), "loop `%s < %s`" % (m.group(1), m.group(2)))
    out.defn("hlle_norm_col", ["d", "i"], E(m.group(3), env3, what="norm col"), "`%s.col(%s)`" % (yi, m.group(3)))
    m = re.search(r"= %s\.rightCols\(([^)]+)\) \* \(%s\.rightCols\(([^)]+)\)\.transpose\(\)\)" % (yi, yi), body)
    if not m or m.group(1) != m.group(2):
        raise TranslateError("hessian_weight_matrix: Yi.rightCols(dp) * Yi.rightCols(dp)^T not found")
    out.defn("hlle_yi_rightCols", ["dp"], E(m.group(1), env, what="Yi.rightCols"), "`%s.rightCols(%s)`" % (yi, m.group(1)))

    # ---- LTSA -------------------------------------------------------------------------------------------------
    out.comment("§2.3 locally_linear.hpp — tangent_weight_matrix")
    body = src.function_body(f, r"SparseWeightMatrix tangent_weight_matrix\(", "tangent_weight_matrix")
    m = re.search(r"(\w+)\.rightCols\(([^)]+)\) = (\w+)\.eigenvectors\(\)\.rightCols\(([^)]+)\);", body)
    if not m:
        raise TranslateError("tangent_weight_matrix: G.rightCols(d) = eigenvectors().rightCols(d) not found")
    g = m.group(1)
    ma = re.search(r"DenseMatrix %s = DenseMatrix::Zero\(k, ([^)]+)\);" % g, body)
    if not ma:
        raise TranslateError("tangent_weight_matrix: G = Zero(k, d + 1) not found")
    out.defn("ltsa_g_cols", ["d"], E(ma.group(1), env, what="G cols"), "`DenseMatrix %s = DenseMatrix::Zero(k, %s)`" % (g, ma.group(1)))
    out.defn("ltsa_g_rightCols", ["d"], E(m.group(2), env, what="G.rightCols"), "`%s.rightCols(%s)`" % (g, m.group(2)))
    out.defn("ltsa_eigvec_rightCols", ["d"], E(m.group(4), env, what="eigvec rightCols"),
             "`%s.eigenvectors().rightCols(%s)` of the k x k local Gram matrix" % (m.group(3), m.group(4)))

    # ---- dense / randomized / generalized solvers --------------------------------------------------------------
    env = {"target_dimension": "d", "skip": "skip"}

    def solver_sites(rel, fn_pat, prefix, title):
        out.comment(title)
        body = src.function_body(rel, fn_pat, prefix)
        m = re.search(r"if \(MatrixOperationType::largest\) \{(.*?)\} else \{(.*?)\}", body)
        if not m:
            raise TranslateError("%s: largest / smallest branches not found" % prefix)
        big, small = m.group(1), m.group(2)
        mm = re.search(r"\.rightCols\(([^)]+)\);", big)
        if not mm:
            raise TranslateError("%s: rightCols(d) of the largest branch not found" % prefix)
        out.defn(prefix + "_largest_rightCols", ["d"], E(mm.group(1), env, what=prefix), "largest: `.rightCols(%s)`" % mm.group(1))
        mm = re.search(r"eigenvalues\(\)\.tail\(([^)]+)\)", big)
        if mm:
            out.defn(prefix + "_largest_tail", ["d"], E(mm.group(1), env, what=prefix), "largest: `eigenvalues().tail(%s)`" % mm.group(1))
        elif prefix != "rand":
            raise TranslateError("%s: eigenvalues().tail(d) not found" % prefix)
        mm = re.search(r"\.leftCols\(([^)]+)\)\.rightCols\(([^)]+)\);", small)
        if not mm:
            raise TranslateError("%s: leftCols(d + skip).rightCols(d) not found" % prefix)
        out.defn(prefix + "_smallest_leftCols", ["d", "skip"], E(mm.group(1), env, what=prefix), "smallest: `.leftCols(%s)`" % mm.group(1))
        out.defn(prefix + "_smallest_rightCols", ["d", "skip"], E(mm.group(2), env, what=prefix), "smallest: `.rightCols(%s)` of those" % mm.group(2))
        mm = None
        ms_ = re.search(r"eigenvalues\(\)\.segment\(", small)
        if ms_:
            endp = balanced_end(small, ms_.end() - 1)
            sargs = split_args(small[ms_.end():endp - 1])
            if len(sargs) == 2:
                class _M:
                    def __init__(self, a):
                        self.a = a

                    def group(self, i):
                        return self.a[i - 1]
                mm = _M(sargs)
        if mm:
            env_s = dict(env)
            env_s["solver.eigenvalues().size()"] = "n"
            note = ""
            # optional local: const IndexType x = std::min<IndexType>(a, b);
            for lm in re.finditer(r"const IndexType (\w+) = ([^;]+);", small):
                v_ = E(lm.group(2).replace("solver.eigenvalues().size()", "EIGSIZE"), dict(env_s, EIGSIZE="n"), what=prefix)
                env_s[lm.group(1)] = "(int)" + v_
                note = " with `%s`" % lm.group(0)
            out.defn(prefix + "_segment_start", ["d", "skip"], E(mm.group(1), env, what=prefix), "smallest: `eigenvalues().segment(%s, %s)` — start" % (mm.group(1), mm.group(2)))
            out.defn(prefix + "_segment_len", ["d", "skip", "n"],
                     E(mm.group(2).replace("solver.eigenvalues().size()", "EIGSIZE"), dict(env_s, EIGSIZE="n"), what=prefix),
                     "… and number of entries (n = number of eigenvalues)" + note)
        elif prefix != "rand":
            raise TranslateError("%s: eigenvalues().segment(start, n) not found" % prefix)
        return body

    solver_sites("tapkee/routines/eigendecomposition.hpp", r"EigendecompositionResult eigendecomposition_impl_dense\(", "dense",
                 "§2.4 eigendecomposition.hpp — eigendecomposition_impl_dense (n x n problem)")
    body = solver_sites("tapkee/routines/eigendecomposition.hpp", r"EigendecompositionResult eigendecomposition_impl_randomized\(", "rand",
                        "§2.5 eigendecomposition.hpp — eigendecomposition_impl_randomized (sketch of d + skip columns)")
    m = re.search(r"DenseMatrix (\w+)\(wm\.rows\(\), ([^)]+)\);", body)
    if not m:
        raise TranslateError("randomized: sketch O(wm.rows(), d + skip) not found")
    out.defn("rand_sketch_cols", ["d", "skip"], E(m.group(2), env, what="rand sketch"), "`DenseMatrix %s(wm.rows(), %s)`" % (m.group(1), m.group(2)))
    solver_sites("tapkee/routines/generalized_eigendecomposition.hpp", r"EigendecompositionResult generalized_eigendecomposition_impl_dense\(", "gen",
                 "§2.6 generalized_eigendecomposition.hpp — generalized_eigendecomposition_impl_dense")
    # skip values
    s = src.norm("tapkee/defines/methods.hpp")
    skips = dict(re.findall(r"static const EigendecompositionStrategy (\w+)\(\"[^\"]*\", (\d+)\);", re.sub(r"\s+", " ", strip_comments(src.raw("tapkee/defines/methods.hpp")).replace("\n", " "))))
    raw = re.sub(r"\s+", " ", src.raw("tapkee/defines/methods.hpp"))
    skips = dict(re.findall(r"static const EigendecompositionStrategy (\w+)\(\"[^\"]*\", (\d+)\);", raw))
    for nm in ("LargestEigenvalues", "SquaredLargestEigenvalues", "SmallestEigenvalues"):
        if nm not in skips:
            raise TranslateError("methods.hpp: EigendecompositionStrategy %s not found" % nm)
        out.defn("skip_" + nm, [], "(%s : Int)" % skips[nm], "defines/methods.hpp: `%s(…, %s)`" % (nm, skips[nm]))
    s = src.norm("tapkee/routines/generalized_eigendecomposition.hpp")
    m = re.search(r"struct generalized_eigendecomposition_impl<DenseMatrix, DenseMatrix> \{.*?generalized_eigendecomposition_impl_dense<DenseMatrix, DenseMatrix, DenseInverseMatrixOperation>\( ?lhs, rhs, target_dimension, (.+?)\); \} unsupported", s)
    if not m:
        raise TranslateError("generalized: skip argument of the <DenseMatrix, DenseMatrix> dense path not found")
    out.defn("gen_dense_dense_skip", [], E(m.group(1), {"eigen_strategy.skip()": "skip_SmallestEigenvalues"}, what="gen skip"),
             "<DenseMatrix, DenseMatrix> dense path passes skip = `%s`" % m.group(1))
    m = re.search(r"struct generalized_eigendecomposition_impl<SparseWeightMatrix, DenseDiagonalMatrix> \{.*?EigendecompositionResult dense\(.*?SparseInverseMatrixOperation>\( ?lhs, rhs, target_dimension, (.+?)\); \} unsupported", s)
    if not m:
        raise TranslateError("generalized: skip argument of the <Sparse, Diagonal> dense path not found")
    out.defn("gen_sparse_diag_skip", [], E(m.group(1), {"eigen_strategy.skip()": "skip_SmallestEigenvalues"}, what="gen skip"),
             "<SparseWeightMatrix, DenseDiagonalMatrix> dense path passes skip = `%s`" % m.group(1))

    # ---- diffusion map -------------------------------------------------------------------------------------------
    out.comment("§2.7 methods/diffusion_map.hpp")
    body = src.function_body("tapkee/methods/diffusion_map.hpp", r"__TAPKEE_IMPLEMENTATION\(DiffusionMap\).*?TapkeeOutput embed\(\)", "DiffusionMap::embed")
    m = re.search(r"IndexType (\w+) = static_cast<IndexType>\(parameters\[target_dimension\]\);", body)
    if not m:
        raise TranslateError("diffusion_map: target_dimension_value not found")
    tv = m.group(1)
    env = {tv: "d"}
    m = re.search(r"Parameter (\w+) = Parameter::create\(\"target_dimension\", ([^)]+)\);", body)
    if not m:
        raise TranslateError("diffusion_map: Parameter::create(\"target_dimension\", d + 1) not found")
    out.defn("dm_requested", ["d"], E(m.group(2), env, what="dm request"), "eigenvectors requested: `%s`" % m.group(2))
    m = re.search(r"\(decomposition_result\.first\)\.leftCols\(([^)]+)\);", body)
    m2 = re.search(r"/= decomposition_result\.first\.col\(([^)]+)\)\.array\(\);", body)
    m3 = re.search(r"for \(" + TY + r" (\w+) = 0; \1 < ([^;]+); \+\+\1\) \{ embedding\.col\(\1\)\.array\(\) \*= pow\(decomposition_result\.second\(\1\),", body)
    if not (m and m2 and m3):
        raise TranslateError("diffusion_map: leftCols(d) / col(d) / second(i) sites not found")
    out.defn("dm_leftCols", ["d"], E(m.group(1), env, what="dm leftCols"), "`decomposition_result.first.leftCols(%s)`" % m.group(1))
    out.defn("dm_norm_col", ["d"], E(m2.group(1), env, what="dm col"), "`decomposition_result.first.col(%s)`" % m2.group(1))
    out.defn("dm_eigval_hi", ["d"], E(m3.group(2), env, what="dm loop"), "`decomposition_result.second(i)`, i < %s" % m3.group(2))

    # ---- SPE -----------------------------------------------------------------------------------------------------
    out.comment("§2.8 routines/spe.hpp")
    body = src.function_body("tapkee/routines/spe.hpp", r"DenseMatrix spe_embedding\(", "spe_embedding")
    env = {"k": "k", "nupdates": "nu", "N": "N", "j": "j", "kk": "kk"}
    m = re.search(r"(?:while|if) \(nupdates > ([^)]+)\) \{ nupdates = ([^;]+); \}", body)
    if m and m.group(1).strip() == m.group(2).strip():
        clamp = m.group(1)
    else:
        m = re.search(r"nupdates = std::min(?:<\w+>)?\((?:nupdates, ([^;]+)|([^;]+), nupdates)\);", body)
        if not m:
            raise TranslateError("spe: clamp `while (nupdates > N / 2) nupdates = N / 2` (or `nupdates = std::min(nupdates, N / 2)`) not found")
        clamp = m.group(1) or m.group(2)
    out.defn("spe_nupdates_max", ["N"], E(clamp, env, what="spe clamp"), "nupdates is clamped to `%s`" % clamp)
    m = re.search(r"Indices (\w+)\(N\);", body)
    if not m:
        raise TranslateError("spe: `Indices indices(N)` not found")
    idxv = m.group(1)
    out.defn("spe_indices_size", ["N"], "N", "`Indices %s(N)`" % idxv)
    m = re.search(r"(\w+)\.resize\(" + KC + r" \* nupdates\);", body)
    if not m:
        raise TranslateError("spe: ind1Neighbors.resize(k * nupdates) not found")
    inn = m.group(1)
    out.defn("spe_ind1_size", ["k", "nu"], "(k * nu)", "`%s.resize(static_cast<size_t>(k) * nupdates)`" % inn)
    m = re.search(r"for \(" + TY + r" (\w+) = 0; \1 < k; \+\+\1\) \{ %s\[([^\]]+)\] = current_neighbors\[\1\];" % inn, body)
    if not m:
        raise TranslateError("spe: ind1Neighbors[kk + j * k] = current_neighbors[kk] not found")
    e2 = dict(env)
    e2[m.group(1)] = "kk"
    out.defn("spe_ind1_write", ["kk", "j", "k"], E(m.group(2), e2, what="spe ind1 write"), "`%s[%s]`, kk < k, j < nupdates" % (inn, m.group(2)))
    PICK = r"(?:static_cast<IndexType>\()?floor\(tapkee::uniform_random\(\) \* \(([^)]+)\)\) \+ ([^)\];]+)\)?"
    m = re.search(TY + r" (\w+) = " + PICK + r"; (\w+)\[([^\]]+)\] = %s\[\1\];" % inn, body)
    if m:
        class _G:
            def __init__(self, g):
                self.g = g

            def group(self, i):
                return self.g[i]
        m = _G({2: m.group(2), 3: m.group(3), 4: m.group(4), 5: m.group(5)})
    else:
        mi = re.search(r"(\w+)\[([^\]]+)\] = %s\[" % inn + PICK + r"\];", body)
        if not mi:
            raise TranslateError("spe: <partners>[…] = ind1Neighbors[floor(uniform_random() * (k - 1)) + k * j] (directly or through a local) not found")

        class _G2:
            def __init__(self, g):
                self.g = g

            def group(self, i):
                return self.g[i]
        m = _G2({2: mi.group(3), 3: mi.group(4), 4: mi.group(1), 5: mi.group(2)})
    out.defn("spe_rand_span", ["k"], E(m.group(2), env, what="spe span"), "`floor(uniform_random() * (%s))` ranges over [0, max(span,1)) for uniform_random() in [0,1)" % m.group(2))
    out.defn("spe_r", ["f", "k", "j"], "(f + %s)" % E(m.group(3), env, what="spe r"), "`r = f + %s`, f the floor term" % m.group(3))
    target = m.group(4)
    out.defn("spe_indices_write", ["nu", "j"], E(m.group(5), env, what="spe partner write"), "chosen partner stored in `%s[%s]`" % (target, m.group(5)))
    if target == idxv:
        out.defn("spe_partner_size", ["N", "nu"], "N", "… a slot of `%s` (N entries)" % idxv)
    else:
        mr = re.search(r"%s\.resize\(([^)]+)\);" % target, body)
        if not mr:
            raise TranslateError("spe: size of the partner vector %s not found" % target)
        out.defn("spe_partner_size", ["N", "nu"], E(mr.group(1), env, what="spe partner size"), "… a slot of `%s`, `%s.resize(%s)`" % (target, target, mr.group(1)))
    m = re.search(r"%s\.begin\(\) \+ (\w+)" % idxv, body)
    if not m:
        raise TranslateError("spe: second half `indices.begin() + nupdates` not found")
    out.defn("spe_ind2_start", ["nu"], E(m.group(1), env, what="spe ind2"), "global strategy: partners are `%s.begin() + %s`, advanced nupdates times" % (idxv, m.group(1)))
    m = re.search(r"if \(max_iter == 0\) \{ max_iter = (\d+) \+ (?:static_cast<IndexType>\()?floor\(([\d.]+) \* N \* N\)\)?; if \(!global_strategy\) \{ max_iter \*= (\d+); \} \}", body)
    if not m:
        raise TranslateError("spe: default max_iter not found")
    from fractions import Fraction
    fr = Fraction(m.group(2))
    out.defn("spe_default_iters", ["N", "globalStrategy : Bool"],
             "((%s + (%d * N * N) / %d) * (if globalStrategy then 1 else %s))" % (m.group(1), fr.numerator, fr.denominator, m.group(3)),
             "`max_iter = %s + floor(%s * N * N)`, `*= %s` for the local strategy" % (m.group(1), m.group(2), m.group(3)))
    if not re.search(r"for \(" + TY + r" (\w+) = 0; \1 < max_iter; \+\+\1\)", body):
        raise TranslateError("spe: main loop `i < max_iter` not found")

    # ---- landmarks -----------------------------------------------------------------------------------------------
    out.comment("§2.9 routines/landmarks.hpp")
    body = src.function_body("tapkee/routines/landmarks.hpp", r"Landmarks select_landmarks_random\(", "select_landmarks_random")
    m = re.search(r"(\w+)\.erase\(\1\.begin\(\) \+ static_cast<IndexType>\(\1\.size\(\) \* ratio\), \1\.end\(\)\);", body)
    sized = m and (re.search(r"for \(" + TY + r" (\w+) = begin; \1 != end; \+\+\1\) \{ %s\.push_back\(" % m.group(1), body)
                   or re.search(r"Landmarks %s\(end - begin\);" % m.group(1), body))
    if not m or not sized:
        raise TranslateError("landmarks: erase(begin + size * ratio, end) of a vector with one entry per sample not found")
    out.raw("/-- `landmarks.erase(landmarks.begin() + static_cast<IndexType>(landmarks.size() * ratio), landmarks.end())`;")
    out.raw("    the product is a `double` in the code, an exact rational here (size = N: one entry per sample) -/")
    out.raw("def landmark_count (N : Int) (ratio : Rat) : Int := (((N : Int) : Rat) * ratio).floor")
    out.defn("landmark_vector_size", ["N"], "N")
    body = src.function_body("tapkee/routines/landmarks.hpp", r"DenseMatrix triangulate\(", "triangulate")
    m = re.search(r"DenseMatrix embedding\(n_vectors, target_dimension\);", body)
    m2 = re.search(r"for \(" + TY + r" (\w+) = 0; \1 < n_landmarks; \+\+\1\) \{ \w+\[landmarks\[\1\]\] = false; embedding\.row\(landmarks\[\1\]\) = landmarks_embedding\.first\.row\(\1\); \}", body)
    m3 = re.search(r"for \(" + TY + r" (\w+) = 0; \1 < ([^;]+); \+\+\1\) \{ (?:if \(landmarks_embedding\.second\(\1\) > \w+\) \{ )?landmarks_embedding\.first\.col\(\1\)\.array\(\) /= landmarks_embedding\.second\(\1\);", body)
    if not (m and m2 and m3):
        raise TranslateError("triangulate: row / column sites not found")
    out.defn("tri_row_hi", ["nl"], "nl", "`landmarks_embedding.first.row(i)`, `embedding.row(landmarks[i])`, i < n_landmarks")
    out.defn("tri_col_hi", ["d"], E(m3.group(2), {"target_dimension": "d"}, what="tri col"), "`landmarks_embedding.first.col(i)`, `.second(i)`, i < %s" % m3.group(2))

    # ---- t-SNE ---------------------------------------------------------------------------------------------------
    out.comment("§2.10 methods/tsne.hpp, external/barnes_hut_sne/tsne.hpp, quadtree.hpp")
    body = src.function_body("tapkee/methods/tsne.hpp", r"__TAPKEE_IMPLEMENTATION\(tDistributedStochasticNeighborEmbedding\).*?TapkeeOutput embed\(\)", "tSNE::embed")
    m = re.search(r"DenseMatrix embedding\(static_cast<IndexType>\(parameters\[target_dimension\]\), n_vectors\);", body)
    # (rows x cols written literally; any other allocation shape must be taught to the translator)
    m2 = re.search(r"tsne\.run\(data, data\.cols\(\), data\.rows\(\), embedding\.data\(\), parameters\[target_dimension\],", body)
    if not (m and m2):
        raise TranslateError("tsne.hpp: embedding(d, n_vectors) / tsne.run(..., embedding.data(), d, ...) not found")
    out.defn("tsne_y_size", ["N", "noDims"], "(noDims * N)", "`DenseMatrix embedding(target_dimension, n_vectors)` handed to run() as `Y`")
    ft = "tapkee/external/barnes_hut_sne/tsne.hpp"
    fq = "tapkee/external/barnes_hut_sne/quadtree.hpp"
    q = src.norm(fq)
    m = re.search(r"static const int QT_NO_DIMS = (\d+);", q)
    if not m:
        raise TranslateError("quadtree.hpp: QT_NO_DIMS not found")
    out.defn("qt_no_dims", [], "(%s : Int)" % m.group(1), "quadtree.hpp: `static const int QT_NO_DIMS = %s`" % m.group(1))
    m = re.search(r"for \(" + TY + r" (\w+) = 0; \1 < N; \+\+\1\) \{ for \(" + TY + r" (\w+) = 0; \2 < QT_NO_DIMS; \+\+\2\) \{ [^{}]*?\binp_data\[([^\]]+)\]", q)
    if not m:
        raise TranslateError("quadtree.hpp: constructor loop over inp_data[n * QT_NO_DIMS + d] not found")
    out.defn("qt_read_idx", ["n", "dd"], E(m.group(3), {m.group(1): "n", m.group(2): "dd", "QT_NO_DIMS": "qt_no_dims"}, what="qt read"),
             "QuadTree(Y, N): `inp_data[%s]`, n < N, d < QT_NO_DIMS" % m.group(3))
    m = re.search(r"(\w+) = (\w+) \* QT_NO_DIMS; for \(" + TY + r" (\w+) = row_P\[\2\]; .*? for \(" + TY + r" (\w+) = 0; \4 < QT_NO_DIMS; \+\+\4\) \{ pos_f\[([^\]]+)\] \+=", q)
    if not m:
        raise TranslateError("quadtree.hpp: computeEdgeForces pos_f[ind1 + d] not found")
    out.defn("qt_posf_idx", ["n", "dd"], E(m.group(5), {m.group(1): "(n * qt_no_dims)", m.group(4): "dd"}, what="pos_f"),
             "computeEdgeForces: `pos_f[%s]`, %s = n * QT_NO_DIMS, d < QT_NO_DIMS" % (m.group(5), m.group(1)))
    body = src.function_body(ft, r"void computeGradient\(", "TSNE::computeGradient")
    m = re.search(r"ScalarType\* pos_f = \(ScalarType\*\)calloc\((.+?), sizeof\(ScalarType\)\);", body)
    m1 = re.search(r"ScalarType\* neg_f = \(ScalarType\*\)calloc\((.+?), sizeof\(ScalarType\)\);", body)
    m2 = re.search(r"tree->computeNonEdgeForces\(\w+, theta, neg_f \+ ([^,]+), &sum_Q\);", body)
    if not (m and m1 and m2):
        raise TranslateError("tsne.hpp: pos_f / neg_f calloc(N * D) / neg_f + n * D not found")
    fenv = {"N": "N", "D": "noDims"}
    szp = E(m.group(1).replace("static_cast<size_t>", ""), fenv, what="pos_f size")
    szn = E(m1.group(1).replace("static_cast<size_t>", ""), fenv, what="neg_f size")
    out.defn("tsne_force_size", ["N", "noDims"], szp if szp == szn else "(min %s %s)" % (szp, szn),
             "`pos_f` = calloc(%s), `neg_f` = calloc(%s), with D = no_dims" % (m.group(1), m1.group(1)))
    out.defn("tsne_negf_offset", ["n", "noDims"], E(m2.group(1), {"n": "n", "D": "noDims"}, what="neg_f offset"),
             "`neg_f + %s`, then QT_NO_DIMS entries are written" % m2.group(1))
    hdr = src.find(ft, r"ScalarType evaluateError\(ScalarType\* P, ScalarType\* Y, int N(?:, int (\w+))?\)", "exact evaluateError")
    body = src.function_body(ft, r"ScalarType evaluateError\(ScalarType\* P, ScalarType\* Y, int N(?:, int \w+)?\)", "TSNE::evaluateError (exact)")
    m = re.search(r"computeSquaredEuclideanDistance\(Y, N, (\w+), DD\);", body)
    if not m:
        raise TranslateError("tsne.hpp: evaluateError -> computeSquaredEuclideanDistance(Y, N, <dims>, DD) not found")
    dims = m.group(1)
    if dims.isdigit():
        dims_lean = "(%s : Int)" % dims
    elif hdr.group(1) and dims == hdr.group(1):
        # the extra parameter must be fed with no_dims at the call site
        run_body = src.function_body(ft, r"void run\(tapkee::DenseMatrix& X, int N, int D, ScalarType\* Y, int no_dims,", "TSNE::run")
        if not re.search(r"evaluateError\(P\.data\(\), Y, N, no_dims\)", run_body):
            raise TranslateError("tsne.hpp: call of the exact evaluateError does not pass no_dims")
        dims_lean = "noDims"
    else:
        raise TranslateError("tsne.hpp: unexpected dimension argument %r in the exact evaluateError" % dims)
    out.defn("tsne_exact_error_dims", ["noDims"], dims_lean, "exact evaluateError reads `Y` as N x %s" % dims)
    body = src.function_body(ft, r"void computeSquaredEuclideanDistance\(", "computeSquaredEuclideanDistance")
    m = re.search(r"dataSums\[n\] \+= \(X\[([^\]]+)\] \* X\[", body)
    if not m:
        raise TranslateError("tsne.hpp: X[n * D + d] in computeSquaredEuclideanDistance not found")
    out.defn("tsne_sqdist_idx", ["n", "dd", "dims"], E(m.group(1), {"n": "n", "d": "dd", "D": "dims"}, what="sqdist idx"), "`X[%s]`, n < N, d < D" % m.group(1))
    body = src.function_body(ft, r"void computeGaussianPerplexity\(ScalarType\* X, int N, int D, int\*\* _row_P, int\*\* _col_P, ScalarType\*\* _val_P, ScalarType perplexity, int K\)", "computeGaussianPerplexity (sparse)")
    m = re.search(r"tree->search\(obj_X\[n\], ([^,]+), &indices, &distances\);", body)
    m2 = re.search(r"for \(" + TY + r" (\w+) = 0; \1 < K; \+\+\1\) \{ cur_P\[\1\] = exp\(-beta \* \(?distances\[([^\]]+)\](?: - distances\[1\]\))?\);", body)
    m3 = re.search(r"ScalarType\* cur_P = \(ScalarType\*\)malloc\(\(([^)]+)\) \* sizeof\(ScalarType\)\);", body)
    m4 = re.search(r"col_P\[row_P\[n\] \+ (\w+)\] = indices\[([^\]]+)\]\.index\(\);", body)
    m5 = re.search(r"row_P\[n \+ 1\] = row_P\[n\] \+ ([^;]+);", body)
    m6 = re.search(r"\*_col_P = \(int\*\)calloc\((?:static_cast<size_t>\(N\)|N) \* K, sizeof\(int\)\);", body)
    if not (m and m2 and m3 and m4 and m5 and m6):
        raise TranslateError("tsne.hpp: sparse computeGaussianPerplexity sites not found")
    out.defn("tsne_knn_requested", ["K"], E(m.group(1), {"K": "K"}, what="tsne search"), "`tree->search(obj_X[n], %s, …)` returns min(that, N) records" % m.group(1))
    out.defn("tsne_dist_idx", ["m"], E(m2.group(2), {m2.group(1): "m"}, what="tsne distances"), "`distances[%s]`, m < K" % m2.group(2))
    out.defn("tsne_curP_size", ["N"], E(m3.group(1), {"N": "N"}, what="cur_P"), "`cur_P = malloc((%s) * sizeof)`, indexed by m < K" % m3.group(1))
    out.defn("tsne_colP_size", ["N", "K"], "(N * K)", "`col_P`, `val_P` = calloc(N * K)")
    out.defn("tsne_rowP_stride", ["K"], E(m5.group(1), {"K": "K"}, what="row_P"), "`row_P[n + 1] = row_P[n] + %s`" % m5.group(1))
    body = src.function_body("tapkee/external/barnes_hut_sne/tsne.hpp", r"void run\(tapkee::DenseMatrix& X, int N, int D, ScalarType\* Y, int no_dims, ScalarType perplexity, ScalarType theta\)", "TSNE::run")
    m = re.search(r"computeGaussianPerplexity\(X\.data\(\), N, D, &row_P, &col_P, &val_P, perplexity, \(int\)\(([^)]+)\)\);", body)
    if not m:
        raise TranslateError("tsne.hpp: K = (int)(3 * perplexity) not found")
    mm = re.match(r"(\d+) \* perplexity$", m.group(1).strip())
    if not mm:
        raise TranslateError("tsne.hpp: unexpected K expression %r" % m.group(1))
    out.raw("/-- `K = (int)(%s)` (truncation of a non-negative double; exact rational here) -/" % m.group(1))
    out.raw("def tsne_K (perp : Rat) : Int := ((%s : Rat) * perp).floor" % mm.group(1))
    m = re.search(r"\bint max_iter = (\d+)[,;]", body)
    if not m or not re.search(r"for \(" + TY + r" iter = 0; iter < max_iter; \+\+iter\)", body):
        raise TranslateError("tsne.hpp: main loop bound not found")
    out.defn("tsne_max_iter", [], "(%s : Int)" % m.group(1), "`int max_iter = %s`; main loop `iter < max_iter`" % m.group(1))
    s = src.norm(ft)
    bis = re.findall(r"while \(!\w+ && iter < (\d+)\)", s)
    if len(bis) < 1 or len(set(bis)) != 1:
        raise TranslateError("tsne.hpp: perplexity bisection bound `while (!found && iter < 200)` (or `for (; …;)`) not found / not uniform: %r" % (bis,))
    out.defn("tsne_bisection_max", [], "(%s : Int)" % bis[0], "`while (!found && iter < %s)` (%d sites), `iter++` at the end of every round" % (bis[0], len(bis)))
    if s.count("++iter;") < len(bis):
        raise TranslateError("tsne.hpp: bisection loops without `iter++`")

    # ---- cover tree ------------------------------------------------------------------------------------------------
    out.comment("§2.11 neighbors/covertree.hpp — cover_sets table")
    fcov = "tapkee/neighbors/covertree.hpp"
    s = src.norm(fcov)
    m = re.search(r"while \(size\(ret\) < ([^)]+)\) \{ v_array<d_node<P>> temp; push\(ret, temp\); \}", s)
    if not m:
        raise TranslateError("covertree.hpp: get_cover_sets table size not found")
    out.defn("cover_sets_size", ["leafScale"], E(m.group(1), {"leaf_scale": "leafScale"}, what="cover_sets size"),
             "get_cover_sets: `while (size(ret) < %s) push(ret, temp)`" % m.group(1))
    if not re.search(r"push\(cover_sets\[chi->scale\], temp\);", s):
        raise TranslateError("covertree.hpp: push(cover_sets[chi->scale], temp) not found")
    m = re.search(r"n\.scale = (top_scale - max_scale);", s)
    if not m:
        raise TranslateError("covertree.hpp: node scale assignment not found")
    out.defn("cover_node_scale", ["topScale", "maxScale"], E(m.group(1), {"top_scale": "topScale", "max_scale": "maxScale"}, what="cover scale"),
             "batch_insert: `n.scale = %s` — the index used in `cover_sets[chi->scale]`" % m.group(1))
    m2 = re.search(r"leaf_scale\((\d+)\)", s)
    m3 = re.search(r"if \(leaf_scale <= n\.scale\) \{ leaf_scale = ([^;]+); \}", s)
    if m2 and m3:
        out.defn("cover_leaf_scale_init", [], "(%s : Int)" % m2.group(1), "constructor: `leaf_scale(%s)`" % m2.group(1))
        out.defn("cover_leaf_update", ["leafScale", "scale"], "(if leafScale ≤ scale then %s else leafScale)" % E(m3.group(1), {"n.scale": "scale"}, what="leaf update"),
                 "batch_insert, after every `n.scale = …`: `if (leaf_scale <= n.scale) leaf_scale = %s`" % m3.group(1))
    else:
        m2 = re.search(r"n\.scale = (\d+);", s)
        if not m2:
            raise TranslateError("covertree.hpp: leaf scale not found")
        out.defn("cover_leaf_scale_init", [], "(%s : Int)" % m2.group(1), "leaves / zero-distance nodes: `n.scale = %s`" % m2.group(1))
        out.defn("cover_leaf_update", ["leafScale", "scale"], "leafScale", "no growth of the scale table in this tree")

    # ---- manifold sculpting ------------------------------------------------------------------------------------------
    out.comment("§2.12 routines/manifold_sculpting.hpp")
    fm = "tapkee/routines/manifold_sculpting.hpp"
    body = src.function_body(fm, r"inline IndexType adjust_point_at_index\(", "adjust_point_at_index")
    m = re.search(r"for \(" + TY + r" (\w+) = 0; \1 < ([^;]+); \+\+\1\) \{ data\(\1, index\) \+= learning_rate;", body)
    if not m:
        raise TranslateError("manifold_sculpting: data(i, index), i < target_dimension not found")
    out.defn("ms_row_hi", ["d"], E(m.group(2), {"target_dimension": "d"}, what="ms rows"), "`data(i, index)`, i < %s; `data` has D rows" % m.group(2))
    body = src.function_body(fm, r"void manifold_sculpting_embed\(", "manifold_sculpting_embed")
    m = re.search(r"data\.bottomRows\((.+?)\) \*= squishing_rate;", body)
    m2 = re.search(r"data\.topRows\((.+?)\) /= squishing_rate;", body)
    if not (m and m2):
        raise TranslateError("manifold_sculpting: bottomRows / topRows not found")
    e = {"data.rows()": "D", "target_dimension": "d"}
    out.defn("ms_bottomRows", ["D", "d"], E(m.group(1), e, what="ms bottomRows"), "`data.bottomRows(%s)`" % m.group(1))
    out.defn("ms_topRows", ["d"], E(m2.group(1), e, what="ms topRows"), "`data.topRows(%s)`" % m2.group(1))
    m = re.search(r"\(normal_counter\+\+ < max_iteration\)", body)
    if not m:
        raise TranslateError("manifold_sculpting: outer loop bound `normal_counter++ < max_iteration` not found")
    # ---- factor analysis loop -----------------------------------------------------------------------------------------
    body = src.function_body("tapkee/routines/fa.hpp", r"DenseMatrix project\(RandomAccessIterator begin, RandomAccessIterator end, FeatureVectorCallback callback, IndexType dimension, const IndexType max_iter,", "fa project")
    if not re.search(r"while \(iter < max_iter\) \{ \+\+iter;", body):
        raise TranslateError("fa.hpp: `while (iter < max_iter) { ++iter;` not found")
    out.comment("§2.13 loops bounded by a parameter (main loops of SPE, FA, manifold sculpting): `i < max_iter` with a unit increment")
    out.defn("param_loop_rounds", ["maxIter"], "maxIter", "spe.hpp `for (i = 0; i < max_iter; ++i)`, fa.hpp `while (iter < max_iter) { ++iter; … }`, manifold_sculpting.hpp `normal_counter++ < max_iteration`")


# ----------------------------------------------------------------------------- §3 exceptions, exits
def gen_errors(src, out):
    out.comment("§3 embed.hpp — documented exception classes (`@throw` block) and the catch -> rethrow map")
    raw = src.raw("tapkee/embed.hpp")
    doc = re.findall(r"@throw\s+tapkee::(\w+)", raw)
    if not doc:
        raise TranslateError("embed.hpp: no @throw lines")
    out.raw("def documentedThrows : List String := [%s]" % ", ".join(lean_str(d) for d in doc))
    s = src.norm("tapkee/embed.hpp")
    pairs = re.findall(r"catch \(const ([\w:]+)&(?: \w+)?\) \{ throw tapkee::(\w+)\(", s)
    if not pairs:
        raise TranslateError("embed.hpp: catch/rethrow list not found")
    ncatch = len(re.findall(r"catch \(", s))
    if ncatch != len(pairs):
        raise TranslateError("embed.hpp: %d catch clauses but %d understood" % (ncatch, len(pairs)))
    out.raw("def rethrowMap : List (String × String) := [%s]" % ", ".join("(%s, %s)" % (lean_str(a), lean_str(b)) for a, b in pairs))
    # every throw under include/tapkee
    out.comment("every `throw` expression under include/tapkee (file, class) — embed.hpp's rethrows excluded")
    rows = []
    exits = []
    asserts = []
    root = os.path.join(src.repo, "include", "tapkee")
    for d, dirs, files in sorted(os.walk(root)):
        dirs.sort()
        for fn in sorted(files):
            if not fn.endswith(".hpp"):
                continue
            rel = os.path.relpath(os.path.join(d, fn), os.path.join(src.repo, "include"))
            if rel == "tapkee/utils/arpack_wrapper.hpp":
                continue      # only compiled with TAPKEE_WITH_ARPACK (not part of this build)
            s = src.norm(rel)
            if rel != "tapkee/embed.hpp":
                for m in re.finditer(r"\bthrow ([\w:]+)\s*\(", s):
                    cls = m.group(1)
                    guard = ""
                    g = list(re.finditer(r"if \(([^{};]*)\)\s*\{?\s*$", s[max(0, m.start() - 300):m.start()]))
                    if g:
                        guard = g[-1].group(1).strip()
                    rows.append((rel, cls.replace("tapkee::", ""), guard))
                if re.search(r"\bthrow;", s) and rel not in ("tapkee/routines/eigendecomposition.hpp", "tapkee/routines/generalized_eigendecomposition.hpp"):
                    raise TranslateError("%s: bare rethrow outside the verification hooks" % rel)
            for m in re.finditer(r"\bassert\(([^;]*)\);", s):
                asserts.append((rel, m.group(1).strip()))
            for m in re.finditer(r"\b(exit|abort|std::exit|std::abort|std::terminate|_exit|quick_exit)\s*\(", s):
                pre = s[max(0, m.start() - 400):m.start()]
                g = list(re.finditer(r"if \(([^{};]*)\) \{", pre))
                guard = g[-1].group(1).strip() if g else ""
                vars_ = re.findall(r"(\*?\w+) == NULL", guard)
                allocs = []
                fn_text = s[:m.start()]
                for v in vars_:
                    am = list(re.finditer(r"%s = \([\w\s*]+\)\s*(malloc|calloc)\(" % re.escape(v), fn_text))
                    allocs.append((v, am[-1].group(1) if am else "?"))
                pure = bool(vars_) and re.fullmatch(r"\s*(\*?\w+ == NULL)(\s*\|\|\s*\*?\w+ == NULL)*\s*", guard) is not None
                exits.append((rel, m.group(1), guard, allocs, pure))
    out.raw("def throwSites : List (String × String × String) := [")
    out.raw(",\n".join("  (%s, %s, %s)" % (lean_str(a), lean_str(b), lean_str(c)) for a, b, c in rows))
    out.raw("]")
    out.comment("every process-terminating call under include/tapkee: (file, call, guard, [(variable, allocator)], guard is a pure `x == NULL || …` disjunction)")
    out.raw("def exitSites : List (String × String × String × List (String × String) × Bool) := [")
    out.raw(",\n".join("  (%s, %s, %s, [%s], %s)" % (lean_str(a), lean_str(b), lean_str(c),
                                                     ", ".join("(%s, %s)" % (lean_str(v), lean_str(al)) for v, al in d), "true" if e else "false")
                       for a, b, c, d, e in exits))
    out.raw("]")
    out.comment("every `assert(...)` under include/tapkee (active unless NDEBUG): (file, condition)")
    out.raw("def assertSites : List (String × String) := [")
    out.raw(",\n".join("  (%s, %s)" % (lean_str(a), lean_str(b)) for a, b in asserts))
    out.raw("]")
    # the foreign throw's guard as an expression
    body = src.function_body("tapkee/routines/manifold_sculpting.hpp", r"SparseMatrix neighbors_distances_matrix\(", "neighbors_distances_matrix")
    m = re.search(TY + r" (\w+) = neighbors\.size\(\); if \(\(?end - begin\)? != \1\) \{ throw std::runtime_error\(", body)
    if m:
        out.raw("/-- manifold_sculpting.hpp: `const IndexType n = neighbors.size(); if ((end - begin) != n) throw std::runtime_error(\"Wrong size\")` -/")
        out.raw("def ms_wrong_size_guard (N neighborsSize : Int) : Bool := decide (N ≠ neighborsSize)")
    elif any(c.startswith("std::") for _, c, _ in rows):
        raise TranslateError("a std:: exception is thrown under include/tapkee with a guard the translator does not understand")
    else:
        out.raw("def ms_wrong_size_guard (N neighborsSize : Int) : Bool := false")
    # neighbour searches return one list per sample
    s = src.norm("tapkee/neighbors/neighbors.hpp")
    if not (re.search(r"for \(" + TY + r" (\w+) = begin; \1 != end; \+\+\1\) \{ Distances \w+;.*?neighbors\.push_back\(\w+\); \}", s)
            and re.search(r"for \(" + TY + r" (\w+) = begin; \1 != end; \+\+\1\) \{ LocalNeighbors \w+ = tree\.search\(.*?neighbors\.push_back\(\w+\); \}", s)
            and re.search(r"neighbors\.resize\(end - begin\);", s)):
        raise TranslateError("neighbors.hpp: the three searches no longer produce one list per sample in a recognisable way")
    out.defn("neighbors_outer_size", ["N"], "N", "brute / VP-tree: one push_back per sample; cover tree: `neighbors.resize(end - begin)`")


HEADER = """/-
GENERATED by tools/translate_index.py from the working tree of the repository — DO NOT EDIT.
Index / size / loop-bound expressions, validation bounds and exception tables of property C01 (DESIGN §2.2 (T)).
Core Lean only.  C++ `IndexType`/`int` arithmetic is rendered over `Int`; `/` is integer division and is only
used on non-negative operands; `double` parameters are exact rationals (`Rat`).
-/
import TapkeeVerif.Model.PipelineTypes

set_option linter.unusedVariables false

namespace TapkeeVerif.Gen.IndexExprs
open TapkeeVerif.Pipeline
"""


# ----------------------------------------------------------------------------- §4 allocation sizes and integer width
def _top_split(expr, seps):
    """split at the given one-character separators outside parentheses / brackets / angle brackets of casts"""
    parts, depth, cur, i = [], 0, "", 0
    while i < len(expr):
        ch = expr[i]
        if ch in "([":
            depth += 1
        elif ch in ")]":
            depth -= 1
        if depth == 0 and ch in seps and not (ch == "-" and (not cur.strip())):
            parts.append(cur)
            cur = ""
        else:
            cur += ch
        i += 1
    parts.append(cur)
    return [p.strip() for p in parts if p.strip()]


def size_expr_safe(expr):
    """Is every product of the size expression computed in a wide type (size_t / ptrdiff_t)?  `a * b` of two run-time `int`s
    is evaluated in `int` BEFORE any later conversion, so `N * N * sizeof(T)` can wrap while
    `static_cast<size_t>(N) * N * sizeof(T)` cannot.  Literal factors do not count; a parenthesised sum is wide if one of
    its summands is wide."""
    def wide(f):
        f = f.strip()
        return (f.startswith("static_cast<size_t>") or f.startswith("sizeof") or "end - begin" in f or f.endswith(".size()")
                or f.startswith("(size_t)"))

    def analyse(e):
        """-> (safe, is_wide)"""
        e = e.strip()
        ok, anywide = True, False
        for term in _top_split(e, "+-"):
            acc_wide, narrow_seen = False, 0
            for f in _top_split(term, "*"):
                if re.fullmatch(r"[\d.]+[uUlLfF]*", f):
                    continue
                if f.startswith("(") and f.endswith(")") and not wide(f):
                    s_, w_ = analyse(f[1:-1])
                    ok = ok and s_
                    fw = w_
                else:
                    fw = wide(f)
                if fw:
                    acc_wide = True
                elif not acc_wide:
                    narrow_seen += 1
                    if narrow_seen >= 2:
                        ok = False
            anywide = anywide or acc_wide
        return ok, anywide
    return analyse(expr)[0]


def gen_alloc(src, out):
    out.comment("§4 sizes handed to malloc / calloc (external/barnes_hut_sne/tsne.hpp) and reserve (routines/*.hpp):\n"
                "(file, size expression, every product of two run-time integers is evaluated in size_t / ptrdiff_t)")
    rows = []
    ft = "tapkee/external/barnes_hut_sne/tsne.hpp"
    s = src.norm(ft)
    for m in re.finditer(r"\b(malloc|calloc)\(", s):
        end = balanced_end(s, m.end() - 1)
        args = split_args(s[m.end():end - 1])
        if not args:
            raise TranslateError("tsne.hpp: %s without arguments" % m.group(1))
        size = args[0] if m.group(1) == "calloc" else args[0]
        rows.append((ft, "%s(%s)" % (m.group(1), ", ".join(args)), size_expr_safe(size)))
    rdir = os.path.join(src.repo, "include", "tapkee", "routines")
    for fn in sorted(os.listdir(rdir)):
        if not fn.endswith(".hpp"):
            continue
        rel = "tapkee/routines/" + fn
        s = src.norm(rel)
        for m in re.finditer(r"\b(\w+)\.reserve\(", s):
            end = balanced_end(s, m.end() - 1)
            arg = s[m.end():end - 1]
            rows.append((rel, "%s.reserve(%s)" % (m.group(1), arg), size_expr_safe(arg)))
    if len(rows) < 10:
        raise TranslateError("allocation sites: only %d found" % len(rows))
    out.raw("def allocSites : List (String × String × Bool) := [")
    out.raw(",\n".join("  (%s, %s, %s)" % (lean_str(a), lean_str(b), "true" if c else "false") for a, b, c in rows))
    out.raw("]")


def render(repo):
    src = Source(repo)
    out = Out()
    gen_validation(src, out)
    gen_sites(src, out)
    gen_errors(src, out)
    gen_alloc(src, out)
    return HEADER + "\n".join(out.lines) + "\n\nend TapkeeVerif.Gen.IndexExprs\n"


def generate(repo, path):
    import vlib
    return vlib.write_if_changed(path, render(repo))


if __name__ == "__main__":
    repo = sys.argv[1] if len(sys.argv) > 1 else os.environ.get("TAPKEE_REPO", "/repo")
    sys.stdout.write(render(repo))
