#!/usr/bin/env python3
"""Apply each seeded change under /verif/seeded/<id>/ to a scratch copy of /repo and run the quick checks named in
its meta.json (key "checks", default: the property's own check) against that copy via TAPKEE_REPO.
Usage: tools/run_seeded.py [id ...]     (writes seeded/RESULTS.json; never touches /repo)"""
import json, os, shutil, subprocess, sys, tempfile, time
ROOT = os.path.dirname(os.path.dirname(os.path.abspath(__file__)))
SEEDED = os.path.join(ROOT, "seeded")

def main():
    ids = sys.argv[1:] or sorted(d for d in os.listdir(SEEDED) if os.path.isdir(os.path.join(SEEDED, d)))
    respath = os.path.join(SEEDED, "RESULTS.json")
    results = json.load(open(respath)) if os.path.exists(respath) else {}
    for sid in ids:
        d = os.path.join(SEEDED, sid)
        meta = json.load(open(os.path.join(d, "meta.json")))
        checks = meta.get("checks") or [meta["property"]]
        scratch = tempfile.mkdtemp(prefix="seeded-", dir="/var/tmp")
        try:
            repo = os.path.join(scratch, "repo")
            subprocess.run(["rsync", "-a", "--exclude", "_build", "--exclude", "bin", "--exclude", "lib", "--exclude", ".git",
                            "/repo/", repo + "/"], check=True)
            subprocess.run(["git", "init", "-q"], cwd=repo, check=True)
            r = subprocess.run(["git", "apply", "--whitespace=nowarn", os.path.join(d, "patch.diff")], cwd=repo,
                               capture_output=True, text=True)
            if r.returncode:
                r = subprocess.run(["patch", "-p1", "--fuzz=3", "-i", os.path.join(d, "patch.diff")], cwd=repo,
                                   capture_output=True, text=True)
            if r.returncode:
                results[sid] = {"applied": False, "error": (r.stdout + r.stderr)[-400:]}
                print(sid, "PATCH DOES NOT APPLY")
                continue
            out = {}
            for c in checks:
                t = time.time()
                env = dict(os.environ, TAPKEE_REPO=repo, VERIF_SEED=os.environ.get("VERIF_SEED", "1"))
                rr = subprocess.run([sys.executable, os.path.join(ROOT, "check.py"), c, "quick"], cwd=ROOT, env=env,
                                    capture_output=True, text=True)
                viol = [l for l in rr.stdout.split("\n") if l.startswith("VIOLATION")]
                out[c] = {"exit": rr.returncode, "violations": viol[:5], "wall_s": round(time.time() - t, 1)}
                print(sid, c, "exit", rr.returncode, viol[:2])
            results[sid] = {"applied": True, "property": meta["property"], "checks": out,
                            "caught": any(v["exit"] == 1 and v["violations"] for v in out.values())}
        finally:
            shutil.rmtree(scratch, ignore_errors=True)
        json.dump(results, open(respath, "w"), indent=1)
    # restore evidence written against scratch copies: re-run is the caller's job
    return 0

if __name__ == "__main__":
    sys.exit(main())
