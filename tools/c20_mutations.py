#!/usr/bin/env python3
"""Hand mutation runs for C20 (scratch copy /var/tmp/c20/mut, never /repo):  python3 tools/c20_mutations.py [names…]
Each mutation is applied to a fresh rsync of /repo and `TAPKEE_REPO=<copy> python3 check.py C20 quick` is run;
M* must be reported (VIOLATION), H* must not.  Gen/Cli.lean is regenerated from /repo at the end."""
import os, re, subprocess, sys, json

MUT = "/var/tmp/c20/mut"
MAIN = "src/cli/main.cpp"
UTIL = "src/cli/util.hpp"


def sub(path, old, new, count=1):
    p = os.path.join(MUT, path)
    s = open(p).read()
    assert s.count(old) >= 1, (path, old)
    s = s.replace(old, new, count)
    open(p, "w").write(s)


def move_precompute_first():
    p = os.path.join(MUT, MAIN)
    s = open(p).read()
    grp = "    (\n     PRECOMPUTE_KEYWORD,\n     PRECOMPUTE_DESCRIPTION\n    )\n"
    assert grp in s
    s = s.replace(grp, "")
    s = s.replace("      .add_options()\n", "      .add_options()\n" + grp)
    # and swap two neighbouring value options
    a = "    (\n     either(TARGET_DIMENSION_KEYWORD_SHORT, TARGET_DIMENSION_KEYWORD),\n     TARGET_DIMENSION_DESCRIPTION,\n     with_default(2)\n    )\n"
    b = "    (\n     either(NUM_NEIGHBORS_KEYWORD_SHORT, NUM_NEIGHBORS_KEYWORD),\n     NUM_NEIGHBORS_DESCRIPTION,\n     with_default(10)\n    )\n"
    assert a + b in s
    s = s.replace(a + b, b + a)
    open(p, "w").write(s)


def rename_locals():
    p = os.path.join(MUT, MAIN)
    s = open(p).read()
    s = re.sub(r"\bint k = ", "int n_neighbours = ", s)
    s = s.replace("if (k < 3)", "if (n_neighbours < 3)").replace("tapkee::num_neighbors = k,", "tapkee::num_neighbors = n_neighbours,")
    s = re.sub(r"\btarget_dim\b", "tdim", s)
    s = s.replace("double width = ", "double kernel_w = ").replace("if (width < 0.0)", "if (kernel_w < 0.0)")
    s = s.replace("tapkee::gaussian_kernel_width = width,", "tapkee::gaussian_kernel_width = kernel_w,")
    s = s.replace("string method = opt[METHOD_KEYWORD]", "string method_name = opt[METHOD_KEYWORD]")
    s = s.replace("tapkee_method = parse_multiple(DIMENSION_REDUCTION_METHODS, method);", "tapkee_method = parse_multiple(DIMENSION_REDUCTION_METHODS, method_name);")
    s = s.replace('message_error(string("Unknown method ") + method);', 'message_error(string("Unknown method ") + method_name);')
    open(p, "w").write(s)


MUTATIONS = {
    "M1-wrong-keyword": lambda: sub(MAIN, "tapkee::sne_theta = opt[SNE_THETA_KEYWORD].as<double>()", "tapkee::sne_theta = opt[SNE_PERPLEXITY_KEYWORD].as<double>()"),
    "M2-changed-default": lambda: sub(MAIN, "     NUM_NEIGHBORS_DESCRIPTION,\n     with_default(10)", "     NUM_NEIGHBORS_DESCRIPTION,\n     with_default(12)"),
    "M3-transpose-input-polarity": lambda: sub(MAIN, "if (!opt.count(TRANSPOSE_INPUT_KEYWORD))", "if (opt.count(TRANSPOSE_INPUT_KEYWORD))"),
    "M4-delimiter-ignored-on-output": lambda: sub(MAIN, "write_matrix(&output.embedding, ofs, delimiter[0]);", "write_matrix(&output.embedding, ofs, ',');"),
    "M5-guard-weakened-td": lambda: sub(MAIN, "if (target_dim <= 0)", "if (target_dim < 0)"),
    "M6-alias-to-other-method": lambda: sub(UTIL, '{"lle", tapkee::KernelLocallyLinearEmbedding}', '{"lle", tapkee::KernelLocalTangentSpaceAlignment}'),
    "M7-mean-orientation": lambda: sub(UTIL, "of << (*matrix)(i) << endl;", "of << (*matrix)(i) << ',';"),
    "M8-transpose-output-polarity": lambda: sub(MAIN, "if (opt.count(TRANSPOSE_OUTPUT_KEYWORD))", "if (!opt.count(TRANSPOSE_OUTPUT_KEYWORD))"),
    "M9-guard-weakened-k": lambda: sub(MAIN, "if (k < 3)", "if (k < 2)"),
    "M10-output-delimiter-in-writer": lambda: sub(UTIL, "                of << delimiter;", "                of << ',';"),
    "M11-projection-needs-one-file": lambda: sub(MAIN, "if (opt.count(OUTPUT_PROJECTION_MATRIX_FILE_KEYWORD) &&", "if (opt.count(OUTPUT_PROJECTION_MATRIX_FILE_KEYWORD) ||"),
    "M16-float-temporaries": lambda: (sub(MAIN, "double width = opt[GAUSSIAN_WIDTH_KEYWORD].as<double>();", "float width = opt[GAUSSIAN_WIDTH_KEYWORD].as<double>();"),
                              sub(MAIN, "tapkee::nullspace_shift = opt[EIGENSHIFT_KEYWORD].as<double>(),", "tapkee::nullspace_shift = static_cast<float>(opt[EIGENSHIFT_KEYWORD].as<double>()),"),
                              sub(MAIN, "tapkee::landmark_ratio = opt[LANDMARK_RATIO_KEYWORD].as<double>(),", "tapkee::landmark_ratio = static_cast<float>(opt[LANDMARK_RATIO_KEYWORD].as<double>()),")),
    "M17-precompute-distance-from-kernel": lambda: sub(MAIN, "tapkee::eigen_distance_callback(input_data));", "tapkee::eigen_kernel_callback(input_data));"),
    "H1-reorder-options": move_precompute_first,
    "H2-rename-locals": rename_locals,
}


def main():
    names = sys.argv[1:] or list(MUTATIONS)
    for n in names:
        os.makedirs(MUT, exist_ok=True)
        subprocess.run(["rsync", "-a", "--delete", "--exclude", "_build", "--exclude", "bin", "--exclude", "lib", "/repo/", MUT + "/"], check=True)
        MUTATIONS[n]()
        e = dict(os.environ, TAPKEE_REPO=MUT)
        r = subprocess.run([sys.executable, "check.py", "C20", "quick"], cwd="/verif", env=e, stdout=subprocess.PIPE, stderr=subprocess.STDOUT, text=True)
        lines = [l for l in r.stdout.split("\n") if l.startswith("VIOLATION") or l.startswith("  ->") or "obligations" in l or "translator failed" in l
                 or ("error:" in l and "decide" in l)]
        sigs = []
        for l in lines:
            m = re.search(r"replay=(\S+)", l)
            if m and os.path.exists(m.group(1)):
                sigs.append(json.load(open(m.group(1)))["signature"])
        print("=====", n, "exit", r.returncode, flush=True)
        print("signatures:", sigs, flush=True)
        for l in lines:
            print("   ", l[:230], flush=True)
    # restore the generated table of the real tree, drop the scratch copy
    subprocess.run([sys.executable, "tools/translate_cli.py"], cwd="/verif")
    subprocess.run(["rm", "-rf", "/var/tmp/c20"])


if __name__ == "__main__":
    main()
