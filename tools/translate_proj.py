#!/usr/bin/env python3
"""Translator step of C07: regenerate lean/TapkeeVerif/Gen/Projections.lean from include/tapkee/methods/*.hpp.

Per dimension-reduction method (the `tapkee_method_handle(X)` list of methods.hpp) it extracts from the body of
`XImplementation::embed()`:
  * the `return TapkeeOutput(<embedding>, <projection>)` statement;
  * whether <projection> is `unimplementedProjectingFunction()` or a `ProjectingFunction` variable constructed as
    `new tapkee::MatrixProjectionImplementation(<matrix>, <mean>)`;
  * for the latter, the `(matrix, mean)` identifiers passed to `project(<matrix'>, <mean'>, begin, end, features,
    current_dimension)` in <embedding>, and the initialiser of the mean variable.
Only data is emitted; the theorems over the table are in Props/C07.lean.  Any shape it does not understand raises
(reported by check.py as a broken tie, never skipped)."""
import os
import re
import sys


class TranslateError(Exception):
    pass


def strip_comments(src):
    src = re.sub(r"/\*.*?\*/", " ", src, flags=re.S)
    src = re.sub(r"//[^\n]*", " ", src)
    return src


def matching(src, start, open_ch, close_ch):
    """index just after the bracket matching src[start] (which must be open_ch)"""
    assert src[start] == open_ch
    depth = 0
    for i in range(start, len(src)):
        if src[i] == open_ch:
            depth += 1
        elif src[i] == close_ch:
            depth -= 1
            if depth == 0:
                return i + 1
    raise TranslateError("unbalanced %s" % open_ch)


def split_args(s):
    out, depth, cur = [], 0, ""
    for ch in s:
        if ch in "([{":
            depth += 1
        if ch in ")]}":
            depth -= 1
        if ch == "," and depth == 0:
            out.append(cur.strip())
            cur = ""
        else:
            cur += ch
    if cur.strip():
        out.append(cur.strip())
    return out


def norm(s):
    return re.sub(r"\s+", "", s)


def method_list(repo):
    src = strip_comments(open(os.path.join(repo, "include/tapkee/methods.hpp")).read())
    names = re.findall(r"tapkee_method_handle\(\s*(\w+)\s*\)\s*;", src)
    names = [n for n in names if n != "X"]
    if len(names) != len(set(names)) or not names:
        raise TranslateError("method dispatch list not understood: %r" % names)
    return names


def implementations(repo):
    """name -> (file, body of embed())"""
    out = {}
    mdir = os.path.join(repo, "include/tapkee/methods")
    for fn in sorted(os.listdir(mdir)):
        if not fn.endswith(".hpp") or fn == "base.hpp":
            continue
        src = strip_comments(open(os.path.join(mdir, fn)).read())
        for m in re.finditer(r"__TAPKEE_IMPLEMENTATION\(\s*(\w+)\s*\)", src):
            name = m.group(1)
            end = src.find("__TAPKEE_END_IMPLEMENTATION", m.end())
            if end < 0:
                raise TranslateError("%s: no end of implementation for %s" % (fn, name))
            block = src[m.end():end]
            e = re.search(r"TapkeeOutput\s+embed\s*\(\s*\)\s*\{", block)
            if not e:
                raise TranslateError("%s: no embed() in %s" % (fn, name))
            b0 = e.end() - 1
            body = block[b0:matching(block, b0, "{", "}")]
            if name in out:
                raise TranslateError("method %s implemented twice" % name)
            out[name] = (fn, body)
    return out


def analyse(name, fn, body):
    rets = [m for m in re.finditer(r"\breturn\b", body)]
    if len(rets) != 1:
        raise TranslateError("%s (%s): expected exactly one return in embed(), found %d" % (name, fn, len(rets)))
    m = re.compile(r"return\s+TapkeeOutput\s*\(").search(body, rets[0].start())
    if not m or m.start() != rets[0].start():
        raise TranslateError("%s (%s): return statement is not `return TapkeeOutput(...)`" % (name, fn))
    p0 = m.end() - 1
    args = split_args(body[p0 + 1:matching(body, p0, "(", ")") - 1])
    if len(args) != 2:
        raise TranslateError("%s (%s): TapkeeOutput(...) with %d arguments" % (name, fn, len(args)))
    emb, proj = args
    if norm(proj) == "unimplementedProjectingFunction()":
        if "MatrixProjectionImplementation" in body or "ProjectingFunction(" in norm(body).replace(
                "unimplementedProjectingFunction(", ""):
            raise TranslateError("%s (%s): builds a projection object but returns none" % (name, fn))
        return ("unimplemented",)
    if not re.fullmatch(r"\w+", proj):
        raise TranslateError("%s (%s): projection argument `%s` not understood" % (name, fn, proj))
    decl = re.search(r"(?:tapkee::)?ProjectingFunction\s+" + re.escape(proj) +
                     r"\s*\(\s*new\s+(?:tapkee::)?MatrixProjectionImplementation\s*\(", body)
    if not decl:
        raise TranslateError("%s (%s): declaration of projection variable `%s` not understood" % (name, fn, proj))
    q0 = decl.end() - 1
    pargs = split_args(body[q0 + 1:matching(body, q0, "(", ")") - 1])
    if len(pargs) != 2:
        raise TranslateError("%s (%s): MatrixProjectionImplementation with %d arguments" % (name, fn, len(pargs)))
    e = re.fullmatch(r"project\s*\((.*)\)", emb, flags=re.S)
    if not e:
        raise TranslateError("%s (%s): embedding `%s` is not a call of project(...)" % (name, fn, emb))
    eargs = split_args(e.group(1))
    if len(eargs) != 6 or [norm(a) for a in eargs[2:]] != ["begin", "end", "features", "current_dimension"]:
        raise TranslateError("%s (%s): project(...) arguments not understood: %r" % (name, fn, eargs))
    mean_id = norm(pargs[1])
    mean_init = ""
    if re.fullmatch(r"\w+", mean_id):
        d = re.search(r"(?:const\s+)?(?:tapkee::)?(?:DenseVector|auto)\s*&?\s*" + re.escape(mean_id) + r"\s*=\s*([^;]*);", body)
        if d:
            mean_init = norm(d.group(1))
    # an identifier must denote the same value at both uses: neither the mean nor the matrix expression (nor the variable
    # it is a member of) may be assigned, compound-assigned or mutated through a member call after its initialisation
    for ident in {mean_id, norm(pargs[0]), norm(pargs[0]).split(".")[0]}:
        if not re.fullmatch(r"[\w.]+", ident):
            raise TranslateError("%s (%s): projection argument `%s` is not an identifier path" % (name, fn, ident))
        pat = r"(?<![\w.])" + re.escape(ident) + r"(?:\s*\.\s*\w+(?:\s*\([^;()]*\))?)*\s*(?:[-+*/]|<<|>>)?=(?!=)"
        writes = re.findall(pat, body)
        allowed = 1 if "." not in ident else 0          # the declaration `T ident = …`
        if len(writes) > allowed:
            raise TranslateError("%s (%s): `%s` is modified after its initialisation (%d writes)" % (name, fn, ident, len(writes)))
        if re.search(r"(?<![\w.])" + re.escape(ident) + r"\s*\.\s*(?:col|row|array|noalias|setZero|setConstant|swap|resize|"
                     r"conservativeResize|transposeInPlace|normalize|block|topRows|leftCols|rightCols)\s*\([^;]*?\)[^;]*?"
                     r"(?:[-+*/]?=(?!=)|\.setZero|\.normalize)", body):
            raise TranslateError("%s (%s): `%s` is mutated through a member call" % (name, fn, ident))
    return ("matrix", norm(eargs[0]), norm(eargs[1]), norm(pargs[0]), mean_id, mean_init)


def generate(repo):
    names = method_list(repo)
    impls = implementations(repo)
    rows = []
    for n in names:
        if n not in impls:
            raise TranslateError("no implementation block found for dispatched method %s" % n)
        fn, body = impls[n]
        rows.append((n, fn, analyse(n, fn, body)))
    extra = sorted(set(impls) - set(names))
    if extra:
        raise TranslateError("implementation blocks never dispatched: %r" % extra)
    L = []
    L.append("/- GENERATED by tools/translate_proj.py from include/tapkee/methods.hpp and include/tapkee/methods/*.hpp — do not edit. -/")
    L.append("namespace TapkeeVerif.Gen")
    L.append("")
    L.append("/-- what `embed()` passes as the second argument of `TapkeeOutput(…)` -/")
    L.append("inductive ProjReturn where")
    L.append("  /-- `unimplementedProjectingFunction()` -/")
    L.append("  | unimplemented")
    L.append("  /-- `project(embedMatrix, embedMean, begin, end, features, current_dimension)` is returned as the embedding and")
    L.append("      `new MatrixProjectionImplementation(projMatrix, projMean)` as the projection; `meanInit` is the initialiser")
    L.append("      of the `projMean` variable -/")
    L.append("  | matrix (embedMatrix embedMean projMatrix projMean meanInit : String)")
    L.append("  deriving DecidableEq, Repr")
    L.append("")
    L.append("/-- one row per method dispatched by `DynamicImplementation::embedUsing`, in dispatch order -/")
    L.append("def projectionTable : List (String × String × ProjReturn) := [")
    for i, (n, fn, a) in enumerate(rows):
        if a[0] == "unimplemented":
            t = ".unimplemented"
        else:
            t = ".matrix %s" % " ".join('"%s"' % x for x in a[1:])
        L.append('  ("%s", "%s", %s)%s' % (n, fn, t, "," if i + 1 < len(rows) else ""))
    L.append("]")
    L.append("")
    L.append("end TapkeeVerif.Gen")
    return "\n".join(L) + "\n"


if __name__ == "__main__":
    repo = sys.argv[1] if len(sys.argv) > 1 else os.environ.get("TAPKEE_REPO", "/repo")
    sys.stdout.write(generate(repo))
