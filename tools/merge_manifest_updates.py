#!/usr/bin/env python3
"""Merge .build/manifest_updates/<Cxx>.json ({"text": ..., "note": ...}, either optional) into tools/manifest_src.json."""
import json, os, glob
ROOT = os.path.dirname(os.path.dirname(os.path.abspath(__file__)))
src_p = os.path.join(ROOT, "tools", "manifest_src.json")
src = json.load(open(src_p))
for f in sorted(glob.glob(os.path.join(ROOT, ".build", "manifest_updates", "C*.json"))):
    pid = os.path.basename(f)[:-5]
    u = json.load(open(f))
    for c in src["checks"]:
        if c["property_id"] == pid:
            for k in ("text", "note"):
                if u.get(k):
                    c[k] = u[k].strip()
            print("merged", pid, [k for k in ("text", "note") if u.get(k)])
    os.rename(f, f + ".merged")
json.dump(src, open(src_p, "w"), indent=1)
