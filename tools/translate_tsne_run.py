#!/usr/bin/env python3
"""Translator step for C17, part 2 (DESIGN §2.2 (T)): the statement list of `tsne::TSNE::run` → Gen/TsneRun.lean.

Works on a token stream (comments stripped, whitespace irrelevant, `x++` / `++x` / `x += 1` identified, identifiers of
locals captured, never assumed), so renaming a local, re-indenting, or reordering independent declarations does not
disturb it.  It emits data only: the learning constants, the neighbour-count expression, the exaggeration factor and
the iteration at which it is divided back, the recognised stages in source order, and whether each stage has the
expected shape.  Anything it cannot classify raises `UnknownShape` (reported by check.py as a broken tie of lower
severity than a failing input)."""
import os
import re
from fractions import Fraction


class UnknownShape(ValueError):
    pass


TOKEN = re.compile(r"\s*(?:(//[^\n]*|/\*.*?\*/)|([A-Za-z_]\w*)|((?:\d+\.?\d*|\.\d+)(?:[eE][+-]?\d+)?)|(\"(?:\\.|[^\"\\])*\")|(::|->|\+\+|--|\+=|-=|\*=|/=|==|!=|<=|>=|&&|\|\||.))", re.S)


def tokens(src):
    out = []
    pos = 0
    while pos < len(src):
        m = TOKEN.match(src, pos)
        if not m:
            break
        pos = m.end()
        if m.group(1) is not None:
            continue
        t = m.group(2) or m.group(3) or m.group(4) or m.group(5)
        if t is None or not t.strip():
            continue
        if t in ("NULL", "nullptr"):
            t = "nullptr"
        out.append(t)
    return canonical_for_headers(out)


def canonical_for_headers(toks):
    """`for (T i = a; n > i; ...)` is read as `for (T i = a; i < n; ...)` (likewise `>=`): the loop variable on the left"""
    out = list(toks)
    i = 0
    while i < len(out) - 1:
        if out[i] == "for" and out[i + 1] == "(":
            depth, j, semis = 0, i + 1, []
            while j < len(out):
                if out[j] == "(":
                    depth += 1
                elif out[j] == ")":
                    depth -= 1
                    if depth == 0:
                        break
                elif out[j] == ";" and depth == 1:
                    semis.append(j)
                j += 1
            if len(semis) == 2:
                init = out[i + 2:semis[0]]
                cond = out[semis[0] + 1:semis[1]]
                var = init[init.index("=") - 1] if "=" in init and init.index("=") > 0 else None
                if var and len(cond) >= 3 and cond[-1] == var and cond[-2] in (">", ">=") and \
                        not any(t in ("&&", "||", "<", "<=", ">", ">=", "==", "!=") for t in cond[:-2]):
                    out[semis[0] + 1:semis[1]] = [var, "<" if cond[-2] == ">" else "<="] + cond[:-2]
        i += 1
    return out


def function_body(toks, name):
    """tokens of the body of the first function definition `name ( ... ) {`"""
    for i in range(len(toks) - 1):
        if toks[i] == name and toks[i + 1] == "(":
            depth = 0
            j = i + 1
            while j < len(toks):
                if toks[j] == "(":
                    depth += 1
                elif toks[j] == ")":
                    depth -= 1
                    if depth == 0:
                        break
                j += 1
            if j + 1 < len(toks) and toks[j + 1] == "{":
                depth = 0
                k = j + 1
                while k < len(toks):
                    if toks[k] == "{":
                        depth += 1
                    elif toks[k] == "}":
                        depth -= 1
                        if depth == 0:
                            return toks[j + 2:k]
                    k += 1
    raise UnknownShape("function %s not found" % name)


ID = r"([A-Za-z_]\w*)"
NUM = r"((?:\d+\.?\d*|\.\d+)(?:[eE][+-]?\d+)?)"
INC = lambda v: r"(?:%s \+\+|\+\+ %s|%s \+= 1)" % (v, v, v)


def frac(s):
    return Fraction(s)


def lean_frac(q):
    q = Fraction(q)
    return "(%d, %d)" % (q.numerator, q.denominator)


def find(pattern, text, what, allow_many=False):
    ms = list(re.finditer(pattern, text))
    if not ms:
        raise UnknownShape("cannot find %s" % what)
    if len(ms) > 1 and not allow_many:
        raise UnknownShape("ambiguous %s (%d matches)" % (what, len(ms)))
    return ms[0]


def decl_value(body, ident):
    m = re.search(r"(?:^| |,)%s = %s (?:,|;)" % (re.escape(ident), NUM), body)
    if not m:
        raise UnknownShape("no initialiser for %s" % ident)
    return frac(m.group(1))


def generate(repo):
    src = open(os.path.join(repo, "include/tapkee/external/barnes_hut_sne/tsne.hpp")).read()
    body = " ".join(function_body(tokens(src), "run"))
    stages = []          # (position, name)

    # --- exact / Barnes-Hut switch
    m = find(r"bool %s = \( %s == %s \)" % (ID, ID, NUM), body, "the exact/Barnes-Hut switch")
    exact_id, theta_id = m.group(1), m.group(2)
    if frac(m.group(3)) != 0:
        raise UnknownShape("exact mode is not `theta == 0`")
    # --- input stage
    m = find(r"zeroMean \( %s \. data \( \) , %s , %s \) ;" % (ID, ID, ID), body, "zeroMean(X)")
    x_id, n_id, d_id = m.groups()
    stages.append((m.start(), "zeroMeanX"))
    m = find(r"(if \( %s \. maxCoeff \( \) > 0 \) )?%s \. array \( \) /= %s \. maxCoeff \( \) ;" % (x_id, x_id, x_id), body, "max-normalisation")
    stages.append((m.start(), "maxNormalise"))
    # dense branch
    m = find(r"computeGaussianPerplexity \( %s \. data \( \) , %s , %s , %s \. data \( \) , %s \) ;" % (x_id, n_id, d_id, ID, ID), body, "dense perplexity call")
    p_id, perp_id = m.group(1), m.group(2)
    stages.append((m.start(), "perplexityDense"))
    pd = r"%s \. data \( \) " % p_id
    m = re.search(r"for \( int %s = 0 ; \1 < %s ; %s \) \{ for \( int %s = \1 \+ 1 ; \2 < %s ; %s \) \{ (.*?) \} \}" % (
        ID, n_id, INC(r"\1"), ID, n_id, INC(r"\2")), body)
    dense_sym_ok = False
    if m:
        a, b2, inner = m.group(1), m.group(2), m.group(3)
        want = (r"%s\[ %s \* %s \+ %s \] \+= %s\[ %s \* %s \+ %s \] ; %s\[ %s \* %s \+ %s \] = %s\[ %s \* %s \+ %s \] ;" % (
            pd, a, n_id, b2, pd, b2, n_id, a, pd, b2, n_id, a, pd, a, n_id, b2))
        dense_sym_ok = re.fullmatch(want, inner.strip() + "") is not None or re.fullmatch(want, inner.strip()) is not None
        stages.append((m.start(), "symmetriseDense"))
    m2 = re.search(r"%s \. array \( \) /= %s \. array \( \) \. sum \( \) ;" % (p_id, p_id), body)
    dense_norm_ok = m2 is not None
    if m2:
        stages.append((m2.start(), "normaliseDense"))
    # sparse branch
    m = find(r"computeGaussianPerplexity \( %s \. data \( \) , %s , %s , & %s , & %s , & %s , %s , \( int \) \( %s \* %s \) \) ;" % (
        x_id, n_id, d_id, ID, ID, ID, perp_id, NUM, perp_id), body, "K-NN perplexity call")
    row_id, col_id, val_id, kmult = m.group(1), m.group(2), m.group(3), frac(m.group(4))
    stages.append((m.start(), "perplexityKnn"))
    m = find(r"symmetrizeMatrix \( & %s , & %s , & %s , %s \) ;" % (row_id, col_id, val_id, n_id), body, "symmetrizeMatrix call")
    stages.append((m.start(), "symmetriseCsr"))
    m3 = re.search(r"%s \+= %s \[ %s \] ; for \( int %s = 0 ; \3 < %s \[ %s \] ; %s \) %s \[ \3 \] /= \1 ;" % (
        ID, val_id, ID, ID, row_id, n_id, INC(r"\3"), val_id), body)
    if not m3:
        m3 = re.search(r"%s \+= %s \[ %s \] ; for \( int %s = 0 ; \3 < %s \[ %s \] ; %s \) %s \[ \3 \] /= \1 ;" % (
            ID, val_id, ID, ID, row_id, n_id, INC(r"\3"), val_id), body)
    sparse_norm_ok = m3 is not None
    if m3:
        stages.append((m3.start(), "normaliseCsr"))
    # exaggeration
    m = find(r"%s \. array \( \) \*= %s ;" % (p_id, NUM), body, "dense exaggeration")
    ex_dense = frac(m.group(1))
    stages.append((m.start(), "exaggerate"))
    m = find(r"%s \[ %s \] \*= %s ;" % (val_id, ID, NUM), body, "sparse exaggeration")
    ex_sparse = frac(m.group(2))
    # init
    m = find(r"%s \[ %s \] = tapkee :: gaussian_random \( \) \* %s ;" % (ID, ID, NUM), body, "random initialisation")
    y_id, init_scale = m.group(1), frac(m.group(3))
    stages.append((m.start(), "initY"))
    # main loop
    m = find(r"for \( int %s = 0 ; \1 < %s ; %s \) \{ if \( %s \) computeExactGradient" % (ID, ID, INC(r"\1"), exact_id), body, "main loop")
    iter_id, maxiter_id = m.group(1), m.group(2)
    stages.append((m.start(), "loop"))
    max_iter = decl_value(body, maxiter_id)
    m = find(r"computeExactGradient \( %s \. data \( \) , %s , %s , %s , %s \. data \( \) \) ; else computeGradient \( %s \. data \( \) , %s , %s , %s , %s , %s , %s , %s \. data \( \) , %s \) ;" % (
        p_id, y_id, n_id, ID, ID, p_id, row_id, col_id, val_id, y_id, n_id, r"\1", r"\2", theta_id), body, "gradient calls")
    nodims_id, dy_id = m.group(1), m.group(2)
    stages.append((m.start(), "gradient"))
    g = lambda v: r"%s \. data \( \) \[ %s \]" % (v, ID)
    m = find(r"%s \. data \( \) \[ %s \] = \( sign \( %s \. data \( \) \[ \2 \] \) != sign \( %s \. data \( \) \[ \2 \] \) \) \? \( \1 \. data \( \) \[ \2 \] \+ %s \) : \( \1 \. data \( \) \[ \2 \] \* %s \) ;" % (
        ID, ID, dy_id, ID, NUM, NUM), body, "gains update")
    gains_id, uy_id, gain_add, gain_mul = m.group(1), m.group(3), frac(m.group(4)), frac(m.group(5))
    stages.append((m.start(), "gains"))
    m = find(r"if \( %s \. data \( \) \[ %s \] < %s \) %s \. data \( \) \[ \1 \] = %s ;" % (gains_id, ID, NUM, gains_id, NUM), body, "gains floor")
    gain_min_test, gain_min = frac(m.group(2)), frac(m.group(3))
    if gain_min_test != gain_min:
        raise UnknownShape("gains floor test and value differ")
    stages.append((m.start(), "gainsFloor"))
    m = find(r"%s \. data \( \) \[ %s \] = %s \* %s \. data \( \) \[ \1 \] - %s \* %s \. data \( \) \[ \1 \] \* %s \. data \( \) \[ \1 \] ;" % (
        uy_id, ID, ID, uy_id, ID, gains_id, dy_id), body, "velocity update")
    mom_id, eta_id = m.group(2), m.group(3)
    stages.append((m.start(), "velocity"))
    m = find(r"%s \[ %s \] = %s \[ \1 \] \+ %s \. data \( \) \[ \1 \] ;" % (y_id, ID, y_id, uy_id), body, "position update")
    stages.append((m.start(), "position"))
    m = find(r"zeroMean \( %s , %s , %s \) ;" % (y_id, n_id, nodims_id), body, "zeroMean(Y)")
    stages.append((m.start(), "zeroMeanY"))
    # un-lie
    m = find(r"if \( %s == ([^)]*?) \) \{ if \( %s \) %s \. array \( \) /= %s ; else \{ for \( int %s = 0 ; \3 < %s \[ %s \] ; %s \) %s \[ \3 \] /= %s ; \} \}" % (
        iter_id, exact_id, p_id, NUM, ID, row_id, n_id, INC(r"\3"), val_id, NUM), body, "end of the early exaggeration")
    stop_expr, unlie_dense, unlie_sparse = m.group(1).strip(), frac(m.group(2)), frac(m.group(4))
    stages.append((m.start(), "stopLying"))
    stop_simple = re.fullmatch(ID, stop_expr) is not None
    stop_iter = decl_value(body, stop_expr) if stop_simple else Fraction(-1)
    m = find(r"if \( %s == ([^)]*?) \) %s = %s ;" % (iter_id, mom_id, ID), body, "momentum switch")
    mom_expr, final_id = m.group(1).strip(), m.group(2)
    stages.append((m.start(), "momentumSwitch"))
    mom_simple = re.fullmatch(ID, mom_expr) is not None
    mom_iter = decl_value(body, mom_expr) if mom_simple else Fraction(-1)
    momentum, final_momentum, eta = decl_value(body, mom_id), decl_value(body, final_id), decl_value(body, eta_id)
    if ex_dense != ex_sparse or unlie_dense != unlie_sparse:
        raise UnknownShape("dense and sparse exaggeration factors differ")
    stages.sort()
    names = [n for _, n in stages]
    L = []
    L.append("/- GENERATED by tools/translate_tsne_run.py from the body of tsne::TSNE::run (tsne.hpp).  Do not edit;")
    L.append("   regenerated on every check run.  Rationals are (numerator, denominator) pairs. -/")
    L.append("namespace TapkeeVerif.Gen.TsneRun")
    L.append("")
    L.append("/-- recognised stages of `run`, in source order -/")
    L.append("def stages : List String := [%s]" % ", ".join('"%s"' % n for n in names))
    L.append("/-- `K = (int)(kMult * perplexity)` in the call of the K-NN perplexity routine -/")
    L.append("def kMult : Nat × Nat := %s" % lean_frac(kmult))
    L.append("def maxIter : Nat × Nat := %s" % lean_frac(max_iter))
    L.append("/-- early exaggeration: `P *= exaggeration` before the loop, `P /= unExaggeration` when `iter == stopLyingIter` -/")
    L.append("def exaggeration : Nat × Nat := %s" % lean_frac(ex_dense))
    L.append("def unExaggeration : Nat × Nat := %s" % lean_frac(unlie_dense))
    L.append("/-- the end-of-exaggeration test is `iter == <one declared constant>` (else the value below is meaningless) -/")
    L.append("def stopLyingSimple : Bool := %s" % ("true" if stop_simple else "false"))
    L.append("def stopLyingIter : Int := %d" % int(stop_iter))
    L.append("def momSwitchSimple : Bool := %s" % ("true" if mom_simple else "false"))
    L.append("def momSwitchIter : Int := %d" % int(mom_iter))
    L.append("def momentum : Nat × Nat := %s" % lean_frac(momentum))
    L.append("def finalMomentum : Nat × Nat := %s" % lean_frac(final_momentum))
    L.append("def eta : Nat × Nat := %s" % lean_frac(eta))
    L.append("def gainAdd : Nat × Nat := %s" % lean_frac(gain_add))
    L.append("def gainMul : Nat × Nat := %s" % lean_frac(gain_mul))
    L.append("def gainMin : Nat × Nat := %s" % lean_frac(gain_min))
    L.append("def initScale : Nat × Nat := %s" % lean_frac(init_scale))
    L.append("/-- the body of the dense symmetrisation loop is `P[n][m] += P[m][n]; P[m][n] = P[n][m];` over `n < m` -/")
    L.append("def denseSymmetriseBody : Bool := %s" % ("true" if dense_sym_ok else "false"))
    L.append("/-- `P /= P.sum()` is present in the dense branch -/")
    L.append("def denseNormalise : Bool := %s" % ("true" if dense_norm_ok else "false"))
    L.append("/-- `sum_P = Σ val_P; val_P[i] /= sum_P` is present in the sparse branch -/")
    L.append("def sparseNormalise : Bool := %s" % ("true" if sparse_norm_ok else "false"))
    L.append("")
    L.append("end TapkeeVerif.Gen.TsneRun")
    L.append("")
    return "\n".join(L)


if __name__ == "__main__":
    import sys
    print(generate(sys.argv[1] if len(sys.argv) > 1 else "/repo"))
