#!/usr/bin/env python3
"""Translator step for C04 (DESIGN §2.2 (T)): regenerates lean/TapkeeVerif/Gen/IsomapSteps.lean from /repo.

  * routines/isomap.hpp, landmark overload of compute_shortest_distances_matrix: the index of the frontier flag set
    before the relax loop (`f[<expr>] = true;` following `heap.insert(landmarks[k], 0.0)`), as a Lean function of the
    landmark position `r` (= `k`) and the landmark vertex `l` (= `landmarks[k]`); likewise for the first overload;
  * methods/isomap.hpp, IsomapImplementation::embed: the statements between compute_shortest_distances_matrix and
    eigendecomposition_via, as a list of matrix steps (square / symmetrise / center / scale by a literal);
  * routines/eigendecomposition.hpp, eigendecomposition_impl_dense: whether `dense_wm += dense_wm.transpose(); dense_wm /= 2.0`
    precedes the solver.

Data and index expressions only, never proofs.  Anything it does not recognise raises (reported as a broken tie)."""
import os
import re
import sys
from fractions import Fraction


def strip_comments(src):
    src = re.sub(r"/\*.*?\*/", "", src, flags=re.S)
    return re.sub(r"//[^\n]*", "", src)


def flag_index(body, what):
    """the `f[...] = true;` statement between the initial heap insertion and the while loop"""
    m = re.search(r"heap\.insert\(\s*([^,]+?)\s*,\s*0\.0\s*\)\s*;\s*#endif(.*?)while\s*\(\s*!heap\.empty\(\)\s*\)", body, flags=re.S)
    if not m:
        raise ValueError("%s: initial heap insertion / while loop not found" % what)
    src_expr = re.sub(r"\s+", "", m.group(1))
    stmts = [s.strip() for s in m.group(2).split(";") if s.strip()]
    if len(stmts) != 1:
        raise ValueError("%s: expected exactly one statement between the insertion and the loop, found %r" % (what, stmts))
    fm = re.fullmatch(r"f\[\s*(.+?)\s*\]\s*=\s*true", stmts[0])
    if not fm:
        raise ValueError("%s: unrecognised statement %r" % (what, stmts[0]))
    return src_expr, re.sub(r"\s+", "", fm.group(1))


def overloads(src):
    """bodies of the two compute_shortest_distances_matrix overloads, in source order"""
    out = []
    for m in re.finditer(r"compute_shortest_distances_matrix\s*\(([^)]*)\)\s*\{", src):
        i = m.end() - 1
        depth = 0
        for j in range(i, len(src)):
            if src[j] == "{":
                depth += 1
            elif src[j] == "}":
                depth -= 1
                if depth == 0:
                    out.append((m.group(1), src[i:j + 1]))
                    break
    if len(out) != 2:
        raise ValueError("expected two overloads of compute_shortest_distances_matrix, found %d" % len(out))
    return out


def lean_rat(x):
    x = Fraction(x)
    return "(%d) (%d)" % (x.numerator, x.denominator)


def isomap_steps(src):
    m = re.search(r"__TAPKEE_IMPLEMENTATION\(Isomap\)(.*?)__TAPKEE_END_IMPLEMENTATION", src, flags=re.S)
    if not m:
        raise ValueError("IsomapImplementation not found")
    body = m.group(1)
    m = re.search(r"(\w+)\s*=\s*compute_shortest_distances_matrix\([^;]*\)\s*;(.*?)EigendecompositionResult\s+\w+\s*=\s*eigendecomposition_via\(\s*(\w+)\s*,\s*(\w+)\s*,",
                  body, flags=re.S)
    if not m:
        raise ValueError("embed(): geodesic matrix / eigendecomposition_via not found")
    var, mid, strategy, arg = m.groups()
    if arg != var:
        raise ValueError("embed(): eigendecomposition_via is applied to %r, not to the geodesic matrix %r" % (arg, var))
    if strategy != "LargestEigenvalues":
        raise ValueError("embed(): unexpected eigen strategy %r" % strategy)
    steps = []
    v = re.escape(var)
    for st in [s.strip() for s in mid.split(";") if s.strip()]:
        st1 = re.sub(r"\s+", "", st)
        if re.fullmatch(r"%s=%s\.array\(\)\.square\(\)" % (v, v), st1):
            steps.append(".square")
        elif re.fullmatch(r"centerMatrix\(%s\)" % v, st1):
            steps.append(".center")
        elif re.fullmatch(r"%s\.array\(\)\*=(-?[0-9.]+)" % v, st1):
            lit = re.fullmatch(r"%s\.array\(\)\*=(-?[0-9.]+)" % v, st1).group(1)
            steps.append(".scale " + lean_rat(Fraction(lit)))
        elif (re.fullmatch(r"%s=\(?\(%s\+%s\.transpose\(\)\)/2(\.0)?\)?(\.eval\(\))?" % (v, v, v), st1) or
              re.fullmatch(r"%s=\(?\(?0?\.5\*\(%s\+%s\.transpose\(\)\)\)?\)?(\.eval\(\))?" % (v, v, v), st1) or
              re.fullmatch(r"%s=\(?\(%s\+%s\.transpose\(\)\)\*0?\.5\)?(\.eval\(\))?" % (v, v, v), st1)):
            steps.append(".symmetrise")
        else:
            raise ValueError("embed(): unrecognised statement %r" % st)
    return steps


def dense_symmetrises(src):
    m = re.search(r"eigendecomposition_impl_dense\s*\([^)]*\)\s*\{(.*?)DenseSelfAdjointEigenSolver\s+solver\((\w+)\)", src, flags=re.S)
    if not m:
        raise ValueError("eigendecomposition_impl_dense not found")
    pre, arg = m.groups()
    stm = [re.sub(r"\s+", "", s) for s in pre.split(";") if s.strip()]
    stm = [s for s in stm if not s.startswith("timed_context")]
    if stm == ["DenseSymmetricMatrixdense_wm=wm", "dense_wm+=dense_wm.transpose().eval()", "dense_wm/=2.0"] and arg == "dense_wm":
        return True
    if stm == ["DenseSymmetricMatrixdense_wm=wm"] and arg == "dense_wm":
        return False
    raise ValueError("eigendecomposition_impl_dense: unrecognised preamble %r" % stm)


def generate(repo):
    inc = os.path.join(repo, "include", "tapkee")
    routines = strip_comments(open(os.path.join(inc, "routines", "isomap.hpp")).read())
    (sig1, b1), (sig2, b2) = overloads(routines)
    if "Landmarks" in sig1 or "Landmarks" not in sig2:
        raise ValueError("overload order changed")
    src1, flag1 = flag_index(b1, "first overload")
    src2, flag2 = flag_index(b2, "landmark overload")
    names = {"k": "r", "landmarks[k]": "l"}
    if src1 != "k" or src2 != "landmarks[k]":
        raise ValueError("unexpected source vertex expressions %r / %r" % (src1, src2))
    if flag1 != "k":
        raise ValueError("first overload: unexpected frontier flag index %r" % flag1)
    if flag2 not in names:
        raise ValueError("landmark overload: unexpected frontier flag index %r" % flag2)
    steps = isomap_steps(strip_comments(open(os.path.join(inc, "methods", "isomap.hpp")).read()))
    sym = dense_symmetrises(strip_comments(open(os.path.join(inc, "routines", "eigendecomposition.hpp")).read()))
    return """/-
GENERATED by tools/translate_c04.py from /repo (include/tapkee/routines/isomap.hpp, methods/isomap.hpp,
routines/eigendecomposition.hpp) — do not edit; regenerated on every run of check.py C04.
-/
namespace TapkeeVerif.Gen.Isomap
set_option linter.unusedVariables false

/-- index of the frontier flag set before the relax loop of the landmark overload
    (`f[%s] = true`), as a function of the landmark position `r` (C++ `k`) and the landmark vertex `l`
    (C++ `landmarks[k]`) -/
def landmarkFlag (r l : Nat) : Nat := %s

/-- one statement of `IsomapImplementation::embed` between the geodesic matrix and the eigensolver -/
inductive Step where
  /-- `m = m.array().square()` -/
  | square
  /-- `m = (m + m.transpose()) / 2` -/
  | symmetrise
  /-- `centerMatrix(m)` -/
  | center
  /-- `m.array() *= num/den` -/
  | scale (num : Int) (den : Nat)
  deriving Repr, DecidableEq

/-- the statements, in source order -/
def isomapSteps : List Step := [%s]

/-- `eigendecomposition_impl_dense` replaces its input by `(A + Aᵀ)/2` before calling the solver -/
def denseSolverSymmetrises : Bool := %s

end TapkeeVerif.Gen.Isomap
""" % (flag2, names[flag2] if names[flag2] == "r" else "l", ", ".join(steps), "true" if sym else "false")


if __name__ == "__main__":
    sys.stdout.write(generate(sys.argv[1] if len(sys.argv) > 1 else "/repo"))
