#!/usr/bin/env python3
"""Translator step for C04 (DESIGN §2.2 (T)): regenerates lean/TapkeeVerif/Gen/IsomapSteps.lean from /repo.

  * routines/isomap.hpp, landmark overload of compute_shortest_distances_matrix: the index of the frontier flag set
    before the relax loop (`f[<expr>] = true;` following `heap.insert(landmarks[k], 0.0)`), as a Lean function of the
    landmark position `r` (= `k`) and the landmark vertex `l` (= `landmarks[k]`); likewise for the first overload;
  * methods/isomap.hpp, IsomapImplementation::embed: the statements between compute_shortest_distances_matrix and
    eigendecomposition_via, as a list of matrix steps (square / symmetrise / center / scale by a literal);
  * routines/eigendecomposition.hpp, eigendecomposition_impl_dense: whether `dense_wm += dense_wm.transpose(); dense_wm /= 2.0`
    precedes the solver.

Data and index expressions only, never proofs.  Anything it does not recognise raises (reported as a broken tie)."""
import os
import re
import sys
from fractions import Fraction


def strip_comments(src):
    src = re.sub(r"/\*.*?\*/", "", src, flags=re.S)
    return re.sub(r"//[^\n]*", "", src)


NUM = r"[-+]?(?:\d+\.?\d*|\.\d+)(?:[eE][-+]?\d+)?[fFlL]?"
IGNORED = re.compile(r"^(?:tapkee::)?(?:Logging::|LoggingSingleton::|timed_context\b|\(void\))")
WHILE_NONEMPTY = (r"while\s*\(\s*(?:!\s*heap\.empty\(\)|heap\.empty\(\)\s*==\s*false|false\s*==\s*heap\.empty\(\)|"
                  r"heap\.empty\(\)\s*!=\s*true|!\s*\(\s*heap\.empty\(\)\s*\))\s*\)")


def number(lit):
    return Fraction(re.sub(r"[fFlL]$", "", lit))


def statements(text):
    """top-level `;`-separated statements without whitespace; logging / timing statements dropped"""
    out = []
    for st in text.split(";"):
        st1 = re.sub(r"\s+", "", st)
        if st1 and not IGNORED.match(st.strip()):
            out.append(st1)
    return out


def aliases(body):
    """simple local aliases `const IndexType source = landmarks[k];` anywhere in the overload"""
    al = {}
    for m in re.finditer(r"(?:const\s+)?(?:IndexType|int|auto|size_t|std::size_t)\s+(?:const\s+)?(\w+)\s*=\s*(landmarks\[k\]|k)\s*;", body):
        al[m.group(1)] = m.group(2)
    return al


def flag_index(body, what):
    """the `f[...] = true;` statement between the initial heap insertion and the while loop"""
    m = re.search(r"heap\.insert\(\s*([^,]+?)\s*,\s*" + NUM + r"\s*\)\s*;\s*#endif(.*?)" + WHILE_NONEMPTY, body, flags=re.S)
    if not m:
        raise ValueError("%s: initial heap insertion / while loop not found" % what)
    al = aliases(body)
    src_expr = re.sub(r"\s+", "", m.group(1))
    src_expr = al.get(src_expr, src_expr)
    flags = []
    for st in statements(m.group(2)):
        am = re.fullmatch(r"(?:const)?(?:IndexType|int|auto|size_t|std::size_t)(?:const)?(\w+)=(landmarks\[k\]|k)", st)
        if am:
            continue                        # an alias declaration (already collected)
        fm = re.fullmatch(r"f\[(.+?)\]=true", st)
        if not fm:
            raise ValueError("%s: unrecognised statement %r between the insertion and the loop" % (what, st))
        flags.append(al.get(fm.group(1), fm.group(1)))
    if len(flags) != 1:
        raise ValueError("%s: expected exactly one frontier-flag statement, found %r" % (what, flags))
    return src_expr, flags[0]


def overloads(src):
    """bodies of the two compute_shortest_distances_matrix overloads, in source order"""
    out = []
    for m in re.finditer(r"compute_shortest_distances_matrix\s*\(([^)]*)\)\s*\{", src):
        i = m.end() - 1
        depth = 0
        for j in range(i, len(src)):
            if src[j] == "{":
                depth += 1
            elif src[j] == "}":
                depth -= 1
                if depth == 0:
                    out.append((m.group(1), src[i:j + 1]))
                    break
    if len(out) != 2:
        raise ValueError("expected two overloads of compute_shortest_distances_matrix, found %d" % len(out))
    return out


def lean_rat(x):
    x = Fraction(x)
    return "(%d) (%d)" % (x.numerator, x.denominator)


def matrix_step(st, v):
    """one whitespace-free statement about matrix `v` (a regex-escaped name) -> step text, or None"""
    st = st.replace(".eval()", "")
    core = r"\(?%s\+%s\.transpose\(\)\)?" % (v, v)
    if (re.fullmatch(r"%s=%s\.array\(\)\.(?:square|abs2)\(\)" % (v, v), st) or re.fullmatch(r"%s=%s\.cwiseAbs2\(\)" % (v, v), st)
            or re.fullmatch(r"%s=%s\.cwiseProduct\(%s\)" % (v, v, v), st) or re.fullmatch(r"%s\.array\(\)=%s\.array\(\)\.square\(\)" % (v, v), st)
            or re.fullmatch(r"%s=%s\.array\(\)\*%s\.array\(\)" % (v, v, v), st)):
        return ".square"
    if re.fullmatch(r"centerMatrix\(%s\)" % v, st):
        return ".center"
    m = re.fullmatch(r"%s(?:\.array\(\))?\*=(%s)" % (v, NUM), st) or re.fullmatch(r"%s=%s\*(%s)" % (v, v, NUM), st) or \
        re.fullmatch(r"%s=(%s)\*%s" % (v, NUM, v), st)
    if m:
        return ".scale " + lean_rat(number(m.group(1)))
    m = re.fullmatch(r"%s(?:\.array\(\))?/=(%s)" % (v, NUM), st) or re.fullmatch(r"%s=%s/(%s)" % (v, v, NUM), st)
    if m:
        return ".scale " + lean_rat(1 / number(m.group(1)))
    for pat in (r"%s=\(*%s\)*/(%s)\)*", r"%s=\(*%s\)*\*(%s)\)*"):
        m = re.fullmatch(pat % (v, core, NUM), st)
        if m:
            c = number(m.group(1))
            c = 1 / c if "/" in pat else c
            if c == Fraction(1, 2):
                return ".symmetrise"
    m = re.fullmatch(r"%s=\(*(%s)\*\(*%s\)*" % (v, NUM, core), st)
    if m and number(m.group(1)) == Fraction(1, 2):
        return ".symmetrise"
    if re.fullmatch(r"%s\+=%s\.transpose\(\)" % (v, v), st):
        return "+transpose"         # first half of a two-statement symmetrisation
    return None


def fold_symmetrise(steps, what):
    """`m += m.transpose(); m /= 2` (or `*= 0.5`) is one symmetrisation"""
    out = []
    i = 0
    while i < len(steps):
        if steps[i] == "+transpose":
            if i + 1 < len(steps) and steps[i + 1] == ".scale (1) (2)":
                out.append(".symmetrise")
                i += 2
                continue
            raise ValueError("%s: `+= transpose()` not followed by a halving" % what)
        out.append(steps[i])
        i += 1
    return out


def isomap_steps(src):
    m = re.search(r"__TAPKEE_IMPLEMENTATION\(Isomap\)(.*?)__TAPKEE_END_IMPLEMENTATION", src, flags=re.S)
    if not m:
        raise ValueError("IsomapImplementation not found")
    body = m.group(1)
    m = re.search(r"(\w+)\s*=\s*compute_shortest_distances_matrix\([^;]*\)\s*;(.*?)(?:EigendecompositionResult|const\s+auto|auto)\s+\w+\s*=\s*"
                  r"eigendecomposition_via\(\s*(\w+)\s*,\s*(\w+)\s*,", body, flags=re.S)
    if not m:
        raise ValueError("embed(): geodesic matrix / eigendecomposition_via not found")
    var, mid, strategy, arg = m.groups()
    if arg != var:
        raise ValueError("embed(): eigendecomposition_via is applied to %r, not to the geodesic matrix %r" % (arg, var))
    if strategy != "LargestEigenvalues":
        raise ValueError("embed(): unexpected eigen strategy %r" % strategy)
    steps = []
    for st in statements(mid):
        step = matrix_step(st, re.escape(var))
        if step is None:
            raise ValueError("embed(): unrecognised statement %r" % st)
        steps.append(step)
    return fold_symmetrise(steps, "embed()")


def dense_symmetrises(src):
    m = re.search(r"eigendecomposition_impl_dense\s*\([^)]*\)\s*\{(.*?)DenseSelfAdjointEigenSolver\s+solver\((\w+)\)", src, flags=re.S)
    if not m:
        raise ValueError("eigendecomposition_impl_dense not found")
    pre, arg = m.groups()
    stm = statements(pre)
    if not stm or not re.fullmatch(r"(?:DenseSymmetricMatrix|DenseMatrix|auto)%s=wm" % re.escape(arg), stm[0]):
        raise ValueError("eigendecomposition_impl_dense: unrecognised preamble %r" % stm)
    steps = []
    for st in stm[1:]:
        step = matrix_step(st, re.escape(arg))
        if step is None:
            raise ValueError("eigendecomposition_impl_dense: unrecognised statement %r" % st)
        steps.append(step)
    steps = fold_symmetrise(steps, "eigendecomposition_impl_dense")
    if steps == [".symmetrise"]:
        return True
    if steps == []:
        return False
    raise ValueError("eigendecomposition_impl_dense: unexpected preamble steps %r" % steps)


def previous(path):
    """what the last generated file says (used when a part of the source cannot be parsed)"""
    try:
        t = open(path).read()
    except OSError:
        return {}
    out = {}
    m = re.search(r"def landmarkFlag \(r l : Nat\) : Nat := (\w)", t)
    if m:
        out["flag"] = m.group(1)
    m = re.search(r"def isomapSteps : List Step := \[(.*?)\]", t)
    if m:
        out["steps"] = [x.strip() for x in m.group(1).split(",") if x.strip()]
    m = re.search(r"def denseSolverSymmetrises : Bool := (\w+)", t)
    if m:
        out["sym"] = m.group(1) == "true"
    return out


def generate(repo, fallback_path=None, notes=None):
    """`fallback_path`: the previously generated file.  A part of the source that cannot be parsed keeps its previous
    value and is reported in `notes` (the exact model/implementation correspondence then decides whether behaviour
    changed); without a previous value the error is raised."""
    inc = os.path.join(repo, "include", "tapkee")
    prev = previous(fallback_path) if fallback_path else {}
    notes = notes if notes is not None else []

    def part(key, fn):
        try:
            return fn()
        except (ValueError, OSError) as ex:
            if key in prev:
                notes.append("%s: %s (kept previous value %r)" % (key, ex, prev[key]))
                return prev[key]
            raise

    def get_flag():
        routines = strip_comments(open(os.path.join(inc, "routines", "isomap.hpp")).read())
        (sig1, b1), (sig2, b2) = overloads(routines)
        if "Landmarks" in sig1 or "Landmarks" not in sig2:
            raise ValueError("overload order changed")
        src1, flag1 = flag_index(b1, "first overload")
        src2, flag2 = flag_index(b2, "landmark overload")
        names = {"k": "r", "landmarks[k]": "l"}
        if src1 != "k" or src2 != "landmarks[k]":
            raise ValueError("unexpected source vertex expressions %r / %r" % (src1, src2))
        if flag1 != "k":
            raise ValueError("first overload: unexpected frontier flag index %r" % flag1)
        if flag2 not in names:
            raise ValueError("landmark overload: unexpected frontier flag index %r" % flag2)
        return names[flag2]
    flag = part("flag", get_flag)
    flag2 = {"r": "k", "l": "landmarks[k]"}[flag]
    steps = part("steps", lambda: isomap_steps(strip_comments(open(os.path.join(inc, "methods", "isomap.hpp")).read())))
    sym = part("sym", lambda: dense_symmetrises(strip_comments(open(os.path.join(inc, "routines", "eigendecomposition.hpp")).read())))
    return """/-
GENERATED by tools/translate_c04.py from /repo (include/tapkee/routines/isomap.hpp, methods/isomap.hpp,
routines/eigendecomposition.hpp) — do not edit; regenerated on every run of check.py C04.
-/
namespace TapkeeVerif.Gen.Isomap
set_option linter.unusedVariables false

/-- index of the frontier flag set before the relax loop of the landmark overload
    (`f[%s] = true`), as a function of the landmark position `r` (C++ `k`) and the landmark vertex `l`
    (C++ `landmarks[k]`) -/
def landmarkFlag (r l : Nat) : Nat := %s

/-- one statement of `IsomapImplementation::embed` between the geodesic matrix and the eigensolver -/
inductive Step where
  /-- `m = m.array().square()` -/
  | square
  /-- `m = (m + m.transpose()) / 2` -/
  | symmetrise
  /-- `centerMatrix(m)` -/
  | center
  /-- `m.array() *= num/den` -/
  | scale (num : Int) (den : Nat)
  deriving Repr, DecidableEq

/-- the statements, in source order -/
def isomapSteps : List Step := [%s]

/-- `eigendecomposition_impl_dense` replaces its input by `(A + Aᵀ)/2` before calling the solver -/
def denseSolverSymmetrises : Bool := %s

end TapkeeVerif.Gen.Isomap
""" % (flag2, flag, ", ".join(steps), "true" if sym else "false")


if __name__ == "__main__":
    sys.stdout.write(generate(sys.argv[1] if len(sys.argv) > 1 else "/repo"))
