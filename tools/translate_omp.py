#!/usr/bin/env python3
"""Translator (T) of property C15: every `#pragma omp` region of /repo  ->  lean/TapkeeVerif/Gen/OmpRegions.lean

For every parallel region (file, function) it extracts from clang-14's typed JSON AST
  * the worksharing loop variable and its range,
  * every WRITE to a variable declared OUTSIDE the region as (array, row index, column index) with the index
    expressions in terms of the loop variable, inner loop variables (with their ranges) and other values,
  * every READ of such a variable that some iteration writes,
  * whether the access sits inside `#pragma omp critical`,
  * which variables are thread-private (declared inside the region -- the declaration site is checked -- or named
    in private/firstprivate/lastprivate/reduction clauses, or the worksharing loop variable) and which are shared,
and emits them as Lean data + small Lean functions over Nat (`Model/Omp.lean`: `Region`, `Access`).

Front ends: `clang++-14 -std=c++2b -fopenmp -fsyntax-only -Xclang -ast-dump=json -Xclang -ast-dump-filter=<function>`
on a two-line TU (tapkee/tapkee.hpp + src/cli/util.hpp), one run per function that contains a pragma (the unfiltered
dump is 7 GB), in parallel, cached under /verif/.build/c15_ast/<repo_hash>/.  clang-14's JSON does not print the
KIND of OpenMP clauses, so pragma lines and clauses (`private(..)`, `shared(..)`, `default(..)`, `nowait`,
`schedule(..)`, `reduction(..)`) and the name of the enclosing function come from a source-token scan, which is also
the authority for the list of pragmas: a pragma the AST walk did not account for is an error.

Anything the walker does not understand raises `Unsupported` (reported by check.py as a broken tie) -- nothing is skipped.
The analysis is conservative: an lvalue that reaches a call / method / operator without a `const` conversion in the
typed AST counts as written; a view (`row(i)`, `col(j)`, `noalias()`, `transpose()` ...) inherits the mode of its context.
"""
import concurrent.futures
import hashlib
import json
import os
import re
import shutil
import subprocess
import sys

ROOT = os.path.dirname(os.path.dirname(os.path.abspath(__file__)))
sys.path.insert(0, ROOT)
import vlib  # noqa: E402

GEN_PATH = os.path.join(vlib.LEAN_DIR, "TapkeeVerif", "Gen", "OmpRegions.lean")
CLANG = "clang++-14"
CLANG_FLAGS = ["-std=c++2b", "-fopenmp", "-fsyntax-only", "-DFMT_HEADER_ONLY=1", "-DTAPKEE_USE_LGPL_COVERTREE",
               "-Wno-everything", "-isystem", "/root/miniconda/include", "-isystem", "/usr/include/eigen3"]
# build configurations that change the code inside a region (preprocessor conditionals inside the function)
CONFIGS = [("", []), ("fib", ["-DTAPKEE_USE_FIBONACCI_HEAP"])]
KNOWN_CONFIG_MACROS = {"TAPKEE_USE_PRIORITY_QUEUE", "TAPKEE_USE_FIBONACCI_HEAP"}
TRANSLATOR_VERSION = "10"


class Unsupported(Exception):
    pass


# ------------------------------------------------------------------------------------------------ source tokens
def strip_comments_keep_layout(src):
    """blank out comments and string/char literals, keeping offsets and newlines"""
    out = []
    i, n = 0, len(src)
    while i < n:
        c = src[i]
        if src.startswith("//", i):
            j = src.find("\n", i)
            j = n if j < 0 else j
            out.append(" " * (j - i))
            i = j
        elif src.startswith("/*", i):
            j = src.find("*/", i + 2)
            j = n if j < 0 else j + 2
            out.append("".join(ch if ch == "\n" else " " for ch in src[i:j]))
            i = j
        elif c == '"' or c == "'":
            j = i + 1
            while j < n and src[j] != c:
                j += 2 if src[j] == "\\" else 1
            out.append(c + " " * (j - i - 1) + c)
            i = j + 1
        else:
            out.append(c)
            i += 1
    return "".join(out)


def scan_pragmas(repo):
    """authoritative list of OpenMP pragmas: [{file (relative), line, text, func}]"""
    found = []
    for top in ("include", "src"):
        for d, dirs, files in sorted(os.walk(os.path.join(repo, top))):
            dirs.sort()
            for f in sorted(files):
                if not f.endswith((".hpp", ".h", ".cpp", ".cc", ".hh", ".cxx")):
                    continue
                p = os.path.join(d, f)
                raw = open(p, errors="replace").read()
                if "pragma" not in raw:
                    continue
                clean = strip_comments_keep_layout(raw)
                lines = clean.split("\n")
                for ln, text in enumerate(lines, 1):
                    m = re.match(r"\s*#\s*pragma\s+omp\b(.*)", text)
                    if not m:
                        continue
                    full = m.group(1)
                    k = ln
                    while full.rstrip().endswith("\\") and k < len(lines):
                        full = full.rstrip()[:-1] + " " + lines[k]
                        k += 1
                    found.append({"file": os.path.relpath(p, repo), "line": ln, "text": " ".join(full.split()),
                                  "func": enclosing_function(clean, ln)})
    return found


def scan_pragmas_preprocessed(repo, cache_dir):
    """OpenMP directives as the COMPILER sees them: `clang++ -E -fopenmp` turns `_Pragma("omp …")` -- written directly
    or through a macro -- into `#pragma omp …` lines; line markers give file and line.  Default configuration."""
    out = os.path.join(cache_dir, "preprocessed.ii")
    if not (os.path.exists(out) and os.path.getsize(out) > 0):
        tu = write_tu(repo, cache_dir)
        tmp = out + ".tmp%d" % os.getpid()
        with open(tmp, "w") as fh:
            r = subprocess.run([CLANG] + [f for f in CLANG_FLAGS if f != "-fsyntax-only"] +
                               ["-I" + os.path.join(repo, "include"), "-E", tu], stdout=fh, stderr=subprocess.PIPE, text=True)
        if r.returncode != 0:
            os.unlink(tmp)
            raise Unsupported("clang-14 -E failed: %s" % r.stderr[-600:])
        os.rename(tmp, out)
    found = []
    cur_file, cur_line = None, 0
    root = os.path.abspath(repo) + os.sep
    cleaned = {}
    for raw in open(out, errors="replace"):
        m = re.match(r'#\s*(\d+)\s+"([^"]*)"', raw)
        if m:
            cur_line, cur_file = int(m.group(1)), m.group(2)
            continue
        pm = re.match(r"\s*#\s*pragma\s+omp\b(.*)", raw)
        if pm and cur_file and os.path.abspath(cur_file).startswith(root):
            rel = os.path.relpath(os.path.abspath(cur_file), repo)
            if rel.startswith(("include" + os.sep, "src" + os.sep)):
                if rel not in cleaned:
                    cleaned[rel] = strip_comments_keep_layout(open(os.path.join(repo, rel), errors="replace").read())
                found.append({"file": rel, "line": cur_line, "text": " ".join(pm.group(1).split()), "clean": cleaned[rel]})
        cur_line += 1
    return found


CONTROL = {"for", "if", "while", "switch", "catch", "do", "else", "return", "sizeof"}


def enclosing_function(clean, line):
    """(name, first line, last line, conditional macros in the body) of the function definition around `line`"""
    offs = [0]
    for l in clean.split("\n"):
        offs.append(offs[-1] + len(l) + 1)
    pos = offs[line - 1]
    depth = 0
    i = pos
    while i > 0:
        i -= 1
        c = clean[i]
        if c == "}":
            depth += 1
        elif c == "{":
            if depth > 0:
                depth -= 1
                continue
            # an enclosing block opens here: is it a function body?
            j = i - 1
            while j >= 0 and clean[j].isspace():
                j -= 1
            head = clean[max(0, j - 400):j + 1]
            m = re.search(r"\)\s*(?:const\s*)?(?:noexcept\s*)?(?:->\s*[\w:<>,\s&\*]+)?$", head)
            if m:
                # find the matching '(' of the parameter list
                k = max(0, j - 400) + m.start()
                par = 0
                while k >= 0:
                    if clean[k] == ")":
                        par += 1
                    elif clean[k] == "(":
                        par -= 1
                        if par == 0:
                            break
                    k -= 1
                mm = re.search(r"([A-Za-z_]\w*)\s*$", clean[max(0, k - 200):k])
                if mm and mm.group(1) not in CONTROL:
                    # end of the body
                    d2, e = 0, i
                    while e < len(clean):
                        if clean[e] == "{":
                            d2 += 1
                        elif clean[e] == "}":
                            d2 -= 1
                            if d2 == 0:
                                break
                        e += 1
                    body = clean[i:e]
                    macros = set()
                    for pm in re.finditer(r"^\s*#\s*(?:ifdef|ifndef|if|elif)\b(.*)$", body, re.M):
                        macros.update(re.findall(r"[A-Za-z_]\w*", pm.group(1).replace("defined", "")))
                    first = clean.count("\n", 0, k) + 1
                    last = clean.count("\n", 0, e) + 1
                    return {"name": mm.group(1), "first": first, "last": last, "macros": sorted(macros)}
            # not a function: keep climbing (the block we were in is nested in something else)
    raise Unsupported("cannot find the function enclosing the pragma at line %d (token scan)" % line)


def parse_clauses(text):
    """`parallel for shared(a, b) private(j) default(none)` -> (directive words, {clause: [args]})"""
    words = []
    clauses = []
    i = 0
    toks = re.findall(r"[A-Za-z_]\w*|\(|\)|[^\sA-Za-z_()]+", text)
    k = 0
    while k < len(toks):
        t = toks[k]
        if k + 1 < len(toks) and toks[k + 1] == "(":
            depth, j = 0, k + 1
            arg = []
            while j < len(toks):
                if toks[j] == "(":
                    depth += 1
                    if depth > 1:
                        arg.append(toks[j])
                elif toks[j] == ")":
                    depth -= 1
                    if depth == 0:
                        break
                    arg.append(toks[j])
                else:
                    arg.append(toks[j])
                j += 1
            clauses.append((t, "".join(arg)))
            k = j + 1
        else:
            if re.match(r"[A-Za-z_]", t):
                if t in ("nowait", "untied", "ordered", "mergeable", "nogroup"):
                    clauses.append((t, ""))
                elif clauses:
                    raise Unsupported("unexpected token %r after clauses in `#pragma omp %s`" % (t, text))
                else:
                    words.append(t)
            elif t.strip(","):
                raise Unsupported("unexpected token %r in `#pragma omp %s`" % (t, text))
            k += 1
    return words, clauses


KNOWN_DIRECTIVES = {("parallel",), ("for",), ("parallel", "for"), ("critical",), ("barrier",), ("atomic",)}
ATOMIC_WORDS = {"update", "read", "write", "capture", "seq_cst", "relaxed", "acq_rel", "acquire", "release", "hint"}
DATA_PRIVATE = {"private", "firstprivate", "lastprivate", "linear"}


# ------------------------------------------------------------------------------------------------ clang front end
def write_tu(repo, cache_dir):
    tu = os.path.join(cache_dir, "tu.cpp")
    body = "#include <tapkee/tapkee.hpp>\n"
    util = os.path.join(repo, "src", "cli", "util.hpp")
    if os.path.exists(util):
        body += '#include "%s"\n' % util
    vlib.write_if_changed(tu, body)
    return tu


def clang_dump(repo, cache_dir, func, cfg_name, cfg_flags):
    out = os.path.join(cache_dir, "%s-%s.json" % (func, cfg_name or "default"))
    if os.path.exists(out) and os.path.getsize(out) > 0:
        return out
    tu = write_tu(repo, cache_dir)
    cmd = [CLANG] + CLANG_FLAGS + cfg_flags + ["-I" + os.path.join(repo, "include"), "-Xclang", "-ast-dump=json",
                                               "-Xclang", "-ast-dump-filter=" + func, tu]
    tmp = out + ".tmp%d" % os.getpid()
    with open(tmp, "w") as fh:
        r = subprocess.run(cmd, stdout=fh, stderr=subprocess.PIPE, text=True)
    if r.returncode != 0:
        os.unlink(tmp)
        raise Unsupported("clang-14 front end failed on %s [%s]: %s" % (func, cfg_name, r.stderr[-600:]))
    os.rename(tmp, out)
    return out


def load_docs(path):
    s = open(path).read()
    dec = json.JSONDecoder()
    i, docs = 0, []
    n = len(s)
    while i < n:
        while i < n and s[i] in " \n\r\t":
            i += 1
        if i >= n:
            break
        if s[i] != "{":
            j = s.find("\n", i)
            i = n if j < 0 else j + 1
            continue
        d, i = dec.raw_decode(s, i)
        docs.append(d)
    return docs


def resolve_locs(doc):
    """clang's JSON prints `file`/`line` only when they change; make every location absolute (in dump order)"""
    last = {"file": None, "line": None}

    def fix(loc):
        if "file" in loc:
            last["file"] = loc["file"]
        else:
            loc["file"] = last["file"]
        if "line" in loc:
            last["line"] = loc["line"]
        else:
            loc["line"] = last["line"]

    def walk(x):
        if isinstance(x, dict):
            if "offset" in x and "tokLen" in x:
                fix(x)
            elif "spellingLoc" in x or "expansionLoc" in x:
                for k in ("spellingLoc", "expansionLoc"):
                    if k in x:
                        fix(x[k])
            for k, v in x.items():
                if k in ("spellingLoc", "expansionLoc", "includedFrom"):
                    continue
                if isinstance(v, (dict, list)):
                    walk(v)
        elif isinstance(x, list):
            for v in x:
                walk(v)
    walk(doc)


def bare(loc):
    if loc is None:
        return None
    if "expansionLoc" in loc:
        return loc["expansionLoc"]
    if "offset" in loc:
        return loc
    return None


class Sources:
    def __init__(self):
        self.cache = {}

    def text(self, node):
        r = node.get("range")
        if not r:
            return "?"
        b, e = bare(r.get("begin")), bare(r.get("end"))
        if not b or not e or b.get("file") != e.get("file") or not b.get("file"):
            return "?"
        f = b["file"]
        if f not in self.cache:
            try:
                self.cache[f] = open(f, "rb").read()
            except OSError:
                self.cache[f] = b""
        data = self.cache[f]
        t = data[b["offset"]:e["offset"] + e.get("tokLen", 0)].decode(errors="replace")
        return " ".join(t.split())

    def line(self, node):
        r = node.get("range")
        b = bare(r.get("begin")) if r else None
        return (b or {}).get("line")

    def file(self, node):
        r = node.get("range")
        b = bare(r.get("begin")) if r else None
        return (b or {}).get("file")


# ------------------------------------------------------------------------------------------------ AST analysis
ASSIGN_OPS = {"=", "+=", "-=", "*=", "/=", "%=", "<<=", ">>=", "&=", "|=", "^="}
VIEW_ROW = {"row"}
VIEW_COL = {"col"}
# Eigen / std accessors that return a view or proxy onto (part of) the object: the view inherits the mode of its context
VIEW_OTHER = {"noalias", "array", "matrix", "transpose", "adjoint", "block", "rightCols", "leftCols", "topRows",
              "bottomRows", "middleCols", "middleRows", "head", "tail", "segment", "diagonal", "selfadjointView",
              "triangularView", "eval", "derived", "const_cast_derived", "topLeftCorner", "bottomRightCorner",
              "at", "front", "back", "data", "begin", "end", "rbegin", "rend", "coeffRef", "real", "imag"}
# containers whose elements are not separately addressable memory locations (bit-packed) or whose element access may
# restructure the container: a WRITE through them is a write to the whole container
WHOLE_WRITE_TYPES = re.compile(r"std::vector<bool\b|std::bitset|std::_Bit|std::map\b|std::unordered_map|std::multimap|"
                               r"std::set\b|std::unordered_set|std::multiset|std::list\b|std::forward_list|std::deque\b")
APPEND_METHODS = {"push_back", "emplace_back"}
APPEND_FUNCS = {"back_inserter"}
CONTAINER_TYPES = re.compile(r"Eigen::|std::vector|std::array|std::deque|std::map|std::unordered_map|std::basic_string|"
                             r"tapkee::Dense|tapkee::Sparse|Landmarks|Neighbors|LocalNeighbors|std::_Bit")
# classes whose constructors only copy / forward their arguments (perfect-forwarding `U&&` parameters bind lvalues
# without a const conversion in the AST)
VALUE_CTORS = re.compile(r"^(const )?(std::pair|std::tuple|Eigen::Triplet|tapkee::tapkee_internal::HeapElement|"
                         r"tapkee::tapkee_internal::SparseTriplet|std::basic_string|std::vector)\b")
PASS_THROUGH = {"MaterializeTemporaryExpr", "ExprWithCleanups", "CXXBindTemporaryExpr", "ParenExpr", "ConstantExpr",
                "SubstNonTypeTemplateParmExpr", "CXXDefaultInitExpr"}
NO_ACCESS = {"IntegerLiteral", "FloatingLiteral", "CXXBoolLiteralExpr", "StringLiteral", "CharacterLiteral",
             "CXXNullPtrLiteralExpr", "DependentScopeDeclRefExpr", "UnresolvedLookupExpr", "UnaryExprOrTypeTraitExpr",
             "CXXDefaultArgExpr", "CXXScalarValueInitExpr", "ImplicitValueInitExpr", "GNUNullExpr", "TypeTraitExpr",
             "SizeOfPackExpr", "CXXNoexceptExpr"}
EXPLICIT_CASTS = {"CStyleCastExpr", "CXXStaticCastExpr", "CXXFunctionalCastExpr", "CXXConstCastExpr",
                  "CXXReinterpretCastExpr", "CXXDynamicCastExpr"}
GENERIC_STMTS = {"CompoundStmt", "IfStmt", "WhileStmt", "DoStmt", "SwitchStmt", "CaseStmt", "DefaultStmt", "ContinueStmt",
                 "BreakStmt", "NullStmt", "LabelStmt", "AttributedStmt"}


def qual(n):
    return (n.get("type") or {}).get("qualType", "")


def qual_full(n):
    t = n.get("type") or {}
    return "%s | %s" % (t.get("qualType", ""), t.get("desugaredQualType", ""))


def is_const_type(t):
    t = t.strip()
    return t.startswith("const ") or t.endswith(" const") or " const &" in t or t.endswith(" const&")


def strip_expr(n):
    """skip nodes that do not change the designated value (for index expressions)"""
    while True:
        k = n.get("kind")
        if k in PASS_THROUGH or k == "ImplicitCastExpr" or k in EXPLICIT_CASTS:
            inner = [c for c in n.get("inner", []) if c.get("kind")]
            if len(inner) != 1:
                return n
            if k in EXPLICIT_CASTS and not re.search(r"\b(int|long|short|unsigned|size_t|Index|IndexType|char)\b", qual(n)):
                return n
            n = inner[0]
        else:
            return n


class Walker:
    """analysis of one parallel region"""

    def __init__(self, repo, src, func_name, tparams, par_node, pragma_at, cfg_name):
        self.repo = repo
        self.src = src
        self.func = func_name
        self.tparams = tparams
        self.par = par_node
        self.pragma_at = pragma_at          # {(file, line): pragma dict} from the token scan
        self.cfg = cfg_name
        self.private = {}                   # decl id -> name
        self.private_why = {}
        self.alias = {}                     # decl id of a private reference/pointer -> (root decl, dims, const?)
        self.decl_name = {}
        self.decl_type = {}
        self.decl_line = {}
        self.raw = []                       # raw accesses
        self.reentrant = []
        self.guards = []
        self.in_critical = None
        self.in_loop = False
        self.loop = None
        self.used_pragmas = []
        self.clause_text = []
        self.flags = set()
        self.loop_count = 0
        self.after_nowait_loop = False
        self.cur_top = None
        self.loops = []                     # worksharing loops of the region, in order
        self.cur_loop = None
        self.phase = 0                      # barrier-separated phases of the region
        self.sync = None                    # "critical" | "atomic" while inside such a construct
        self.tid_vars = set()               # private ints holding omp_get_thread_num()
        self.reductions = []                # (decl id, name, clause text, loop index)

    # ---------------------------------------------------------------- helpers
    def where(self, n):
        f = self.src.file(n) or "?"
        return "%s:%s" % (os.path.relpath(f, self.repo) if f.startswith("/") else f, self.src.line(n))

    def fail(self, n, msg):
        raise Unsupported("%s at %s in %s: `%s`" % (msg, self.where(n), self.func, self.src.text(n)[:120]))

    def kids(self, n):
        return [c for c in n.get("inner", [])]

    def captured_body(self, n):
        """statement of a CapturedStmt (first child of its CapturedDecl); other children repeat declarations"""
        if n.get("kind") == "CapturedStmt":
            cd = n["inner"][0]
            if cd.get("kind") != "CapturedDecl":
                self.fail(n, "CapturedStmt without CapturedDecl")
            return cd["inner"][0]
        return n

    def pragma_of(self, n):
        f, l = self.src.file(n), self.src.line(n)
        rel = os.path.relpath(f, self.repo) if f else None
        p = self.pragma_at.get((rel, l))
        if p is None:
            # `_Pragma` forms: the position the preprocessor reports may differ by a line from the AST's expansion point
            for d in (-1, 1, -2, 2):
                if (rel, l + d) in self.pragma_at:
                    p = self.pragma_at[(rel, l + d)]
                    l = l + d
                    break
        if p is None:
            self.fail(n, "OpenMP directive in the AST has no matching pragma line in the token scan (%s:%s)" % (rel, l))
        self.used_pragmas.append((rel, l))
        return p

    def directive_parts(self, n):
        """(clause-less children = associated statement, parsed clauses) of an OMP directive"""
        p = self.pragma_of(n)
        words, clauses = parse_clauses(p["text"])
        if words and words[0] == "atomic" and all(x in ATOMIC_WORDS for x in words[1:]):
            words = ["atomic"]
        if tuple(words) not in KNOWN_DIRECTIVES:
            self.fail(n, "unsupported OpenMP directive `omp %s`" % " ".join(words))
        self.clause_text.append("%s:%d omp %s" % (os.path.basename(p["file"]), p["line"], p["text"]))
        stmts = [c for c in n.get("inner", []) if c.get("kind") in ("CapturedStmt", "CompoundStmt", "ForStmt")]
        return p, words, clauses, stmts

    # ---------------------------------------------------------------- region structure
    def run(self):
        p, words, clauses, stmts = self.directive_parts(self.par)
        if len(stmts) != 1:
            self.fail(self.par, "parallel directive without a single associated statement")
        body = self.captured_body(stmts[0])
        self.collect_decls(body)
        self.apply_data_clauses(clauses, self.par)
        if words == ["parallel", "for"]:
            self.check_loop_clauses(clauses, self.par)
            self.omp_for(body, self.par)
        else:
            for (c, a) in clauses:
                if c in ("shared", "default", "num_threads", "if", "proc_bind") or c in DATA_PRIVATE or c == "reduction":
                    continue
                self.fail(self.par, "unsupported clause `%s(%s)` on omp parallel" % (c, a))
            if body.get("kind") != "CompoundStmt":
                body = {"kind": "CompoundStmt", "inner": [body]}
            for st in self.kids(body):
                self.region_stmt(st)
        if not self.loops:
            self.fail(self.par, "parallel region without a worksharing loop")
        return self

    def collect_decls(self, n):
        """every variable declared inside the region is thread-private (declaration site check)"""
        k = n.get("kind")
        if k in ("VarDecl", "DecompositionDecl", "BindingDecl"):
            if n.get("storageClass") == "static" or n.get("tls"):
                self.flags.add("static-local:" + n.get("name", "?"))
            else:
                self.private[n["id"]] = n.get("name", "?")
                self.private_why[n["id"]] = "declared inside the region at %s" % os.path.basename(self.where(n))
            self.decl_name[n["id"]] = n.get("name", "?")
            self.decl_type[n["id"]] = qual(n)
            self.decl_line[n["id"]] = self.src.line(n)
        inner = n.get("inner", [])
        if k == "CapturedDecl":
            inner = inner[:1]
        for c in inner:
            if isinstance(c, dict):
                self.collect_decls(c)

    def refs_by_name(self, n, name, out):
        if n.get("kind") == "DeclRefExpr" and n.get("referencedDecl", {}).get("name") == name \
                and n["referencedDecl"].get("kind") in ("VarDecl", "ParmVarDecl"):
            out.add(n["referencedDecl"]["id"])
        for c in n.get("inner", []):
            if isinstance(c, dict):
                self.refs_by_name(c, name, out)

    def apply_data_clauses(self, clauses, node):
        for (c, a) in clauses:
            if c in DATA_PRIVATE or c == "reduction":
                names = a.split(":")[-1] if c in ("reduction", "linear") else a
                for nm in [x.strip() for x in names.split(",") if x.strip()]:
                    ids = set()
                    self.refs_by_name(node, nm, ids)
                    for i in ids:
                        if i not in self.private:
                            self.private[i] = nm
                            self.private_why[i] = "%s(%s) clause" % (c, a)
                    if c == "reduction":
                        self.flags.add("reduction:" + a)
                        for i in ids:
                            self.reductions.append((i, nm, "reduction(%s)" % a, len(self.loops)))
                    if c in ("lastprivate", "linear"):
                        self.flags.add(c + ":" + nm)
            elif c == "default":
                if a not in ("none", "shared"):
                    self.fail(node, "unsupported default(%s) clause" % a)
            elif c == "shared":
                pass

    def check_loop_clauses(self, clauses, node):
        for (c, a) in clauses:
            if c in ("shared", "default", "num_threads", "if", "proc_bind", "schedule", "nowait") or c in DATA_PRIVATE \
                    or c == "reduction":
                continue
            if c == "collapse" and a.strip() == "1":
                continue
            self.fail(node, "unsupported clause `%s(%s)` on a worksharing loop" % (c, a))

    def region_stmt(self, st):
        k = st.get("kind")
        if k == "OMPForDirective":
            p, words, clauses, stmts = self.directive_parts(st)
            self.check_loop_clauses(clauses, st)
            self.apply_data_clauses(clauses, st)
            self.omp_for(self.captured_body(stmts[0]), st)
            self.loops[-1]["nowait"] = any(c == "nowait" for c, _ in clauses)
            if not self.loops[-1]["nowait"]:
                self.phase += 1         # implicit barrier at the end of the loop
        elif k == "OMPBarrierDirective":
            self.directive_parts(st)
            self.phase += 1
        elif k and k.startswith("OMP") and k not in ("OMPCriticalDirective", "OMPAtomicDirective"):
            self.fail(st, "unsupported OpenMP construct %s inside a parallel region" % k)
        else:
            # executed by every thread of the team, concurrently with the loop iterations of other threads
            self.in_loop = False
            self.stmt(st)

    def omp_for(self, loop, directive):
        self.loop_count += 1
        if loop.get("kind") != "ForStmt":
            self.fail(directive, "worksharing directive not followed by a for statement")
        init, _cv, cond, inc, body = (self.kids(loop) + [None] * 5)[:5]
        var = lo = None
        if init.get("kind") == "BinaryOperator" and init.get("opcode") == "=":
            l, r = self.kids(init)
            l = strip_expr(l)
            if l.get("kind") == "DeclRefExpr":
                var, lo = l["referencedDecl"], r
        elif init.get("kind") == "DeclStmt" and len(self.kids(init)) == 1 and self.kids(init)[0].get("kind") == "VarDecl":
            vd = self.kids(init)[0]
            ini = [c for c in self.kids(vd) if c.get("kind")]
            if len(ini) == 1:
                var, lo = {"id": vd["id"], "name": vd["name"]}, ini[0]
        if var is None:
            self.fail(loop, "worksharing loop initialisation is not `var = lo`")
        vid = var["id"]
        if not (cond.get("kind") == "BinaryOperator" and cond.get("opcode") in ("<", "<=")):
            self.fail(cond, "worksharing loop condition is not `var < hi` / `var <= hi`")
        cl, cr = self.kids(cond)
        if not self.is_ref_to(cl, vid):
            self.fail(cond, "worksharing loop condition does not test the loop variable on the left")
        if not self.is_increment(inc, vid):
            self.fail(inc, "worksharing loop increment is not `++var` / `var++` / `var += c` / `var = var + c`")
        if self.modified_in(vid, body):
            self.fail(body, "worksharing loop variable is modified in the loop body")
        # the iteration variable of the associated loop is private (OpenMP 5.0 §2.19.1.1), wherever it is declared
        if vid not in self.private:
            self.private[vid] = var.get("name", "?")
            self.private_why[vid] = "worksharing loop iteration variable"
        self.loop = {"var": vid, "name": var.get("name", "?"), "lo": lo, "hi": cr, "strict": cond["opcode"] == "<",
                     "lo_text": self.src.text(lo), "hi_text": self.src.text(cr),
                     "line": self.src.line(loop), "file": self.src.file(loop), "phase": self.phase, "nowait": True,
                     "index": len(self.loops)}
        self.loops.append(self.loop)
        # bounds are evaluated once by the encountering thread
        self.in_loop = False
        self.cur_top = loop
        self.expr(lo, "R")
        self.expr(cr, "R")
        self.in_loop = True
        self.cur_loop = self.loop["index"]
        self.stmt(body)
        self.in_loop = False
        self.cur_loop = None

    def is_increment(self, inc, vid):
        """`++v`, `v++`, `v += c`, `v = v + c`, `v = c + v` with a positive literal c"""
        k = inc.get("kind")
        kids = self.kids(inc)

        def poslit(n):
            n = strip_expr(n)
            return n.get("kind") == "IntegerLiteral" and int(n["value"]) > 0
        if k == "UnaryOperator" and inc.get("opcode") == "++" and self.is_ref_to(kids[0], vid):
            return True
        if k == "CompoundAssignOperator" and inc.get("opcode") == "+=" and self.is_ref_to(kids[0], vid) and poslit(kids[1]):
            return True
        if k == "BinaryOperator" and inc.get("opcode") == "=" and self.is_ref_to(kids[0], vid):
            r = strip_expr(kids[1])
            if r.get("kind") == "BinaryOperator" and r.get("opcode") == "+":
                a, b = self.kids(r)
                return (self.is_ref_to(a, vid) and poslit(b)) or (self.is_ref_to(b, vid) and poslit(a))
        return False

    def is_ref_to(self, n, vid):
        n = strip_expr(n)
        return n.get("kind") == "DeclRefExpr" and n.get("referencedDecl", {}).get("id") == vid

    def modified_in(self, vid, n):
        k = n.get("kind")
        if k in ("UnaryOperator",) and n.get("opcode") in ("++", "--", "&") and self.is_ref_to(self.kids(n)[0], vid):
            return True
        if (k == "CompoundAssignOperator" or (k == "BinaryOperator" and n.get("opcode") in ASSIGN_OPS)) \
                and self.is_ref_to(self.kids(n)[0], vid):
            return True
        if k == "CXXConstructExpr" and VALUE_CTORS.search(qual(n)):
            pass
        elif k == "CallExpr" and self.is_callback_call(n):
            pass        # user callbacks are assumed not to modify their arguments (named in the table as re-entrant calls)
        elif k in ("CallExpr", "CXXMemberCallExpr", "CXXConstructExpr", "CXXOperatorCallExpr"):
            # passed by (possibly non-const) reference: an lvalue argument that is not converted to an rvalue / const
            for a in self.kids(n)[1:] if k != "CXXConstructExpr" else self.kids(n):
                if a.get("kind") == "DeclRefExpr" and a.get("referencedDecl", {}).get("id") == vid:
                    return True
        inner = n.get("inner", [])
        if k == "CapturedDecl":
            inner = inner[:1]
        return any(isinstance(c, dict) and self.modified_in(vid, c) for c in inner)

    # ---------------------------------------------------------------- statements
    def stmt(self, n):
        k = n.get("kind")
        if not k:
            return
        if "valueCategory" in n:
            self.cur_top = n
            self.expr(n, "R")
            return
        if k == "DeclStmt":
            for d in self.kids(n):
                if d.get("kind") == "VarDecl":
                    self.var_decl(d)
                elif d.get("kind") in ("TypedefDecl", "TypeAliasDecl", "UsingDecl", "StaticAssertDecl", "EmptyDecl"):
                    pass
                else:
                    self.fail(d, "unsupported declaration %s" % d.get("kind"))
        elif k == "ForStmt":
            self.for_stmt(n)
        elif k == "OMPCriticalDirective":
            p, words, clauses, stmts = self.directive_parts(n)
            name = ""
            m = re.match(r"critical\s*\(\s*(\w+)\s*\)", p["text"])
            if m:
                name = m.group(1)
            if clauses and not m:
                self.fail(n, "unsupported clause on omp critical")
            if self.in_critical is not None:
                self.fail(n, "nested critical sections")
            if getattr(self, "critical_name", name) != name:
                self.fail(n, "critical sections with different names in one region (they do not exclude each other)")
            self.critical_name = name
            self.in_critical = name
            self.sync = "critical"
            for s in stmts:
                self.stmt(self.captured_body(s))
            self.in_critical = None
            self.sync = None
        elif k == "OMPAtomicDirective":
            # an atomic update / read / write of one location is a synchronised access to it: modelled like a critical
            # section (atomic and critical do NOT exclude each other: an array touched under both is refused below)
            self.directive_parts(n)
            if self.in_critical is not None:
                self.fail(n, "atomic inside a critical section")
            body = [c for c in self.kids(n) if c.get("kind")]
            if not body:
                self.fail(n, "atomic directive without a statement")
            self.in_critical = "<atomic>"
            self.sync = "atomic"
            self.stmt(self.captured_body(body[0]))
            self.in_critical = None
            self.sync = None
        elif k.startswith("OMP"):
            self.fail(n, "unsupported OpenMP construct %s" % k)
        elif k == "CapturedStmt":
            self.stmt(self.captured_body(n))
        elif k in GENERIC_STMTS:
            for c in self.kids(n):
                self.stmt(c)
        elif k == "CXXForRangeStmt":
            for c in self.kids(n):
                self.stmt(c)
        elif k == "ReturnStmt":
            self.fail(n, "return inside an OpenMP region")
        else:
            self.fail(n, "unsupported statement kind %s" % k)

    def var_decl(self, d):
        t = qual(d)
        ini = [c for c in self.kids(d) if c.get("kind")]
        is_ref = t.rstrip().endswith("&")
        is_ptr = t.rstrip().endswith("*") or t.rstrip().endswith("*const")
        if ini and (is_ref or is_ptr):
            root = self.root_of(ini[0])
            if root is not None and root[0] not in self.private:
                self.alias[d["id"]] = (root[0], root[1], is_const_type(t))
            elif root is not None and root[0] in self.alias:
                a = self.alias[root[0]]
                self.alias[d["id"]] = (a[0], a[1] + root[1], a[2] or is_const_type(t))
        if ini and self.is_tid_expr(ini[0]) and not self.modified_in(d["id"], self.captured_body(
                [c for c in self.par.get("inner", []) if c.get("kind") in ("CapturedStmt", "CompoundStmt", "ForStmt")][0])):
            self.tid_vars.add(d["id"])
        for c in ini:
            # binding a non-const reference / taking a pointer does not access the object yet; later uses do
            self.cur_top = d
            self.expr(c, "R")

    def is_tid_expr(self, n):
        """omp_get_thread_num(), or a private variable that holds it unmodified"""
        n = strip_expr(n)
        if n.get("kind") == "CallExpr" and self.kids(n):
            c = self.callee_decl(self.kids(n)[0])
            return c.get("kind") == "DeclRefExpr" and c.get("referencedDecl", {}).get("name") == "omp_get_thread_num"
        if n.get("kind") == "DeclRefExpr":
            return n.get("referencedDecl", {}).get("id") in self.tid_vars
        return False

    def for_stmt(self, n):
        init, cv, cond, inc, body = (self.kids(n) + [{}] * 5)[:5]
        g = self.inner_guard(init, cond, inc, body)
        self.stmt(init)
        if cv.get("kind"):
            self.stmt(cv)
        if g:
            self.guards.append(g)
        if cond.get("kind"):
            self.cur_top = cond
            self.expr(cond, "R")
        self.stmt(body)
        if g:
            self.guards.pop()
        if inc.get("kind"):
            self.cur_top = inc
            self.expr(inc, "R")

    def inner_guard(self, init, cond, inc, body):
        """`for (v = lo; v < hi; ++v)` over a private v that the body does not modify -> lo <= v < hi inside the body"""
        var = lo = None
        if init.get("kind") == "BinaryOperator" and init.get("opcode") == "=":
            l, r = self.kids(init)
            if strip_expr(l).get("kind") == "DeclRefExpr":
                var, lo = strip_expr(l)["referencedDecl"]["id"], r
        elif init.get("kind") == "DeclStmt" and len(self.kids(init)) == 1 and self.kids(init)[0].get("kind") == "VarDecl":
            vd = self.kids(init)[0]
            ini = [c for c in self.kids(vd) if c.get("kind")]
            if len(ini) == 1:
                var, lo = vd["id"], ini[0]
        if var is None or var not in self.private:
            return None
        if not (cond.get("kind") == "BinaryOperator" and cond.get("opcode") in ("<", "<=") and self.is_ref_to(self.kids(cond)[0], var)):
            return None
        if not self.is_increment(inc, var):
            return None
        if self.modified_in(var, body):
            return None
        return {"var": var, "lo": lo, "hi": self.kids(cond)[1], "strict": cond["opcode"] == "<"}

    # ---------------------------------------------------------------- expressions
    def root_of(self, n):
        """(decl id, dims) of the variable an lvalue / view expression is rooted at, or None (a temporary)"""
        acc = []

        class Found(Exception):
            pass
        saved = (self.raw, self.reentrant)
        self.raw, self.reentrant = [], []
        try:
            self.expr(n, "R", (), probe=acc)
        finally:
            self.raw, self.reentrant = saved
        return acc[0] if acc else None

    def raw_entry(self, decl, dims, mode, n):
        return {"decl": decl, "dims": tuple(dims), "mode": mode, "node": n, "top": self.cur_top,
                "critical": self.in_critical is not None, "sync": self.sync, "in_loop": self.in_loop,
                "loop": self.cur_loop, "phase": self.phase, "guards": list(self.guards)}

    def record(self, n, decl, dims, mode, probe=None):
        did = decl["id"]
        if probe is not None and not probe:
            probe.append((did, tuple(dims)))
        # a slot indexed by the thread number is owned by one thread: iterations of one thread do not overlap in time,
        # different threads use different slots (treated like thread-private scratch, and named in the table)
        if dims and dims[0][0] == "sub" and self.is_tid_expr(dims[0][1][0]) and did not in self.private:
            self.flags.add("per-thread-slot:%s[omp_get_thread_num()]" % decl.get("name", "?"))
            self.per_thread_slots = getattr(self, "per_thread_slots", set()) | {decl.get("name", "?")}
            return
        if mode != "R" and WHOLE_WRITE_TYPES.search(qual_full(decl) or ""):
            # bit-packed / node-based container: neighbouring elements share memory words or the structure itself
            dims = (("opaque",),)
            self.flags.add("whole-container-write:" + decl.get("name", "?"))
        if did in self.private:
            if did in self.alias:
                root, adims, aconst = self.alias[did]
                m = "R" if aconst and mode != "A" else mode
                self.raw.append(self.raw_entry(root, tuple(adims) + tuple(dims), m, n))
            return
        if decl.get("kind") not in ("VarDecl", "ParmVarDecl"):
            return
        self.decl_name[did] = decl.get("name", "?")
        t = qual(decl) or qual(n)
        self.decl_type.setdefault(did, t)
        if is_const_type(t) and mode != "R":
            mode = "R"
        self.raw.append(self.raw_entry(did, dims, mode, n))

    def is_callback_call(self, n):
        callee = self.callee_decl(self.kids(n)[0])
        if callee.get("kind") == "CXXDependentScopeMemberExpr" and self.kids(callee):
            return self.is_callback_object(self.kids(callee)[0]) is not None
        if callee.get("kind") == "DeclRefExpr":
            return self.is_callback_object(callee) is not None
        return False

    def is_callback_object(self, n):
        """an object whose type is a template type parameter of the function (user callback / iterator)"""
        n = strip_expr(n)
        if n.get("kind") != "DeclRefExpr":
            return None
        t = qual(n).replace("const ", "").replace("&", "").strip()
        if t in self.tparams:
            return n["referencedDecl"].get("name")
        return None

    def expr(self, n, mode, dims=(), probe=None):
        k = n.get("kind")
        if not k:
            return
        E = lambda c, m, d=(): self.expr(c, m, d, None)   # sub-expressions that are not the root chain
        R = lambda c, m, d: self.expr(c, m, d, probe)      # continue along the root chain
        kids = self.kids(n)
        if k in NO_ACCESS:
            return
        if k == "DeclRefExpr":
            rd = n.get("referencedDecl", {})
            if rd.get("kind") in ("VarDecl", "ParmVarDecl"):
                self.record(n, rd, dims, mode, probe)
            elif rd.get("kind") in ("FunctionDecl", "CXXMethodDecl", "EnumConstantDecl", "NonTypeTemplateParmDecl",
                                    "FunctionTemplateDecl", "CXXConstructorDecl", "CXXConversionDecl"):
                pass
            else:
                self.fail(n, "reference to unsupported declaration kind %s" % rd.get("kind"))
            return
        if k in PASS_THROUGH:
            t = qual(n)
            m = "R" if (k == "MaterializeTemporaryExpr" and is_const_type(t) and mode != "A") else mode
            for c in kids:
                R(c, m, dims)
            return
        if k == "ImplicitCastExpr":
            ck = n.get("castKind")
            m = mode
            if ck == "LValueToRValue":
                m = "R"
            elif is_const_type(qual(n)) and mode != "A":
                m = "R"
            for c in kids:
                R(c, m, dims)
            return
        if k in EXPLICIT_CASTS:
            t = qual(n).rstrip()
            m = mode if (t.endswith("&") or t.endswith("*")) and not is_const_type(t) else "R"
            for c in kids:
                if c.get("kind"):
                    R(c, m, dims)
            return
        if k == "UnaryOperator":
            op = n.get("opcode")
            if op in ("++", "--"):
                R(kids[0], "RW", dims)
            elif op == "*":
                self.pointee(kids[0], mode, (("opaque",),) + tuple(dims), probe)
            elif op == "&":
                # the address escapes into a pointer; uses through a private pointer are followed by `alias`
                R(kids[0], mode if mode != "R" else "R", (("opaque",),) + tuple(dims))
            else:
                E(kids[0], "R")
            return
        if k == "BinaryOperator":
            op = n.get("opcode")
            if op == "=":
                E(kids[1], "R")
                R(kids[0], "W", dims)
            elif op in ASSIGN_OPS:
                E(kids[1], "R")
                R(kids[0], "RW", dims)
            elif op == ",":
                E(kids[0], "R")
                R(kids[1], mode, dims)
            elif op in (".*", "->*"):
                self.fail(n, "pointer-to-member access")
            else:
                E(kids[0], "R")
                E(kids[1], "R")
            return
        if k == "CompoundAssignOperator":
            E(kids[1], "R")
            R(kids[0], "RW", dims)
            return
        if k in ("ConditionalOperator", "BinaryConditionalOperator"):
            E(kids[0], "R")
            for c in kids[1:]:
                R(c, mode, dims)
            return
        if k == "ArraySubscriptExpr":
            E(kids[1], "R")
            self.pointee(kids[0], mode, (("sub", (kids[1],)),) + tuple(dims), probe)
            return
        if k in ("MemberExpr", "CXXDependentScopeMemberExpr"):
            if kids:
                if n.get("isArrow"):
                    self.pointee(kids[0], mode, (("opaque",),) + tuple(dims), probe)
                else:
                    R(kids[0], mode, (("opaque",),) + tuple(dims))
            return
        if k == "CXXOperatorCallExpr":
            return self.operator_call(n, mode, dims, probe)
        if k == "CXXMemberCallExpr":
            return self.member_call(n, mode, dims, probe)
        if k == "CallExpr":
            return self.call(n, mode, dims, probe)
        if k in ("CXXConstructExpr", "CXXTemporaryObjectExpr", "CXXUnresolvedConstructExpr", "ParenListExpr", "InitListExpr"):
            m = "R" if k in ("CXXConstructExpr", "CXXTemporaryObjectExpr") and VALUE_CTORS.search(qual(n)) else "RW"
            for c in kids:
                if c.get("kind"):
                    E(c, m)
            return
        if k == "CXXNewExpr":
            for c in kids:
                if c.get("kind"):
                    E(c, "R")
            return
        if k == "CXXDeleteExpr":
            for c in kids:
                self.pointee(c, "RW", (("opaque",),), None)
            return
        if k == "CXXPseudoDestructorExpr":
            return
        self.fail(n, "unsupported expression kind %s" % k)

    def pointee(self, n, mode, dims, probe):
        """access THROUGH a pointer-valued expression (`p[i]`, `*p`, `p->m`, `delete[] p`): the pointer is loaded
        (an rvalue), the access of interest is to the memory it designates, named after the pointer variable"""
        m = mode
        while n.get("kind") in ("ImplicitCastExpr", "ParenExpr") and len(self.kids(n)) == 1:
            if n.get("kind") == "ImplicitCastExpr" and n.get("castKind") not in (
                    "LValueToRValue", "ArrayToPointerDecay", "NoOp", "BitCast"):
                break
            n = self.kids(n)[0]
        t = qual(n).strip()
        if re.match(r"const\b[^*]*\*", t) and m != "R":
            m = "R"         # pointer to const
        if n.get("kind") == "BinaryOperator" and n.get("opcode") in ("+", "-"):
            a, b = self.kids(n)
            pa = "*" in qual(a) or "[" in qual(a)
            ptr, off = (a, b) if pa else (b, a)
            self.expr(off, "R", (), None)
            return self.pointee(ptr, m, (("opaque",),) + tuple(dims[1:]), probe)
        self.expr(n, m, dims, probe)

    def callee_decl(self, c):
        c0 = c
        while c0.get("kind") in ("ImplicitCastExpr", "ParenExpr"):
            c0 = self.kids(c0)[0]
        return c0

    def operator_call(self, n, mode, dims, probe):
        kids = self.kids(n)
        callee = self.callee_decl(kids[0])
        args = kids[1:]
        name = callee.get("referencedDecl", {}).get("name", "") if callee.get("kind") == "DeclRefExpr" else \
            callee.get("name", "")
        op = name.replace("operator", "").strip()
        is_member = callee.get("referencedDecl", {}).get("kind") == "CXXMethodDecl"
        E = lambda c, m, d=(): self.expr(c, m, d, None)
        R = lambda c, m, d: self.expr(c, m, d, probe)
        if not args:
            return
        if op in ASSIGN_OPS:
            for a in args[1:]:
                E(a, "RW")
            R(args[0], "W" if op == "=" else "RW", dims)
            return
        if op in ("()", "[]"):
            obj_t = qual(args[0])
            cb = self.is_callback_object(args[0])
            if cb:
                self.reentrant.append("%s(...)" % cb)
                for a in args[1:]:
                    E(a, "R")
                return
            if not CONTAINER_TYPES.search(obj_t) and not CONTAINER_TYPES.search(qual(strip_expr(args[0]))):
                # a functor call on a non-container object: conservative
                for a in args[1:]:
                    E(a, "RW")
                R(args[0], "RW", dims)
                return
            for a in args[1:]:
                E(a, "R")
            R(args[0], mode, (("sub", tuple(args[1:])),) + tuple(dims))
            return
        if op == "*" and len(args) == 1:
            R(args[0], mode, (("opaque",),) + tuple(dims))
            return
        if op == "->":
            R(args[0], mode, (("opaque",),) + tuple(dims))
            return
        if op in ("++", "--"):
            R(args[0], "RW", dims)
            return
        if op in ("<<", ">>", ","):
            # stream insertion / Eigen comma initialiser: the left operand is modified
            for a in args[1:]:
                E(a, "RW")
            R(args[0], "RW", dims)
            return
        # arithmetic / comparison: operands are read unless the typed AST passes them without a const conversion
        for a in args:
            E(a, "RW")
        return

    def member_call(self, n, mode, dims, probe):
        kids = self.kids(n)
        callee = kids[0]
        args = kids[1:]
        E = lambda c, m, d=(): self.expr(c, m, d, None)
        R = lambda c, m, d: self.expr(c, m, d, probe)
        while callee.get("kind") in ("ParenExpr", "ImplicitCastExpr"):
            callee = self.kids(callee)[0]
        if callee.get("kind") != "MemberExpr":
            self.fail(n, "member call through %s" % callee.get("kind"))
        name = callee.get("name", "")
        obj = self.kids(callee)[0]
        if name in VIEW_ROW and len(args) == 1:
            E(args[0], "R")
            R(obj, mode, (("row", args[0]),) + tuple(dims))
        elif name in VIEW_COL and len(args) == 1:
            E(args[0], "R")
            R(obj, mode, (("col", args[0]),) + tuple(dims))
        elif name in VIEW_OTHER or name.startswith("operator "):
            for a in args:
                E(a, "R" if name != "at" else "R")
            R(obj, mode, (("opaque",),) + tuple(dims))
        elif name in APPEND_METHODS:
            for a in args:
                E(a, "RW")
            R(obj, "A", dims)
        else:
            # a method reached without a `const` conversion of the object is a non-const method: the object is modified
            for a in args:
                E(a, "RW")
            R(obj, "RW", (("opaque",),) + tuple(dims))

    def call(self, n, mode, dims, probe):
        kids = self.kids(n)
        callee = self.callee_decl(kids[0])
        args = kids[1:]
        E = lambda c, m, d=(): self.expr(c, m, d, None)
        ck = callee.get("kind")
        if ck == "CXXDependentScopeMemberExpr":
            base = self.kids(callee)[0] if self.kids(callee) else None
            cb = self.is_callback_object(base) if base else None
            if cb:
                # a user callback invoked concurrently: assumed re-entrant and not to modify its arguments
                self.reentrant.append("%s.%s(...)" % (cb, callee.get("member", "?")))
                for a in args:
                    E(a, "R")
                return
            if base:
                E(base, "RW")
            for a in args:
                E(a, "RW")
            return
        if ck == "DeclRefExpr":
            rd = callee.get("referencedDecl", {})
            if rd.get("kind") in ("VarDecl", "ParmVarDecl"):
                cb = self.is_callback_object(callee)
                if cb:
                    self.reentrant.append("%s(...)" % cb)
                    for a in args:
                        E(a, "R")
                    return
                E(callee, "RW")
                for a in args:
                    E(a, "RW")
                return
            if rd.get("name") in APPEND_FUNCS:
                for a in args:
                    E(a, "A")
                return
            for a in args:
                E(a, "RW")
            # a function handing out a mutable reference / pointer to something that is not one of its arguments
            # (singleton accessors such as Logging::instance()): process-global state, shared by all iterations
            t = qual(n).strip()
            if mode != "R" and n.get("valueCategory") == "lvalue" and not is_const_type(t) and not args:
                self.record(n, {"id": "global:" + rd.get("name", "?"), "name": rd.get("name", "?") + "()", "kind": "VarDecl",
                                "type": {"qualType": t}}, dims, mode, probe)
            return
        if ck in ("UnresolvedLookupExpr", "UnresolvedMemberExpr", "MemberExpr", "DependentScopeDeclRefExpr"):
            if ck in ("UnresolvedMemberExpr", "MemberExpr") and self.kids(callee):
                E(self.kids(callee)[0], "RW")
            for a in args:
                E(a, "A" if callee.get("name") in APPEND_FUNCS else "RW")
            return
        self.fail(n, "call through unsupported callee kind %s" % ck)


# ------------------------------------------------------------------------------------------------ index expressions
class IndexCtx:
    def __init__(self, walker, written):
        self.w = walker
        self.written = written      # shared decl ids with a write / append somewhere in the region
        self.syms = []              # region-level loop-invariant shared scalars (source text)

    def sym(self, text):
        if text not in self.syms:
            self.syms.append(text)
        return ("sym", self.syms.index(text))

    def ix(self, n, vars_):
        """index expression tree over ('lit',n) ('loop',) ('sym',k) ('var',k) ('add',a,b) ('mul',a,b)"""
        w = self.w
        n = strip_expr(n)
        k = n.get("kind")

        def var(name):
            if name not in vars_:
                vars_.append(name)
            return ("var", vars_.index(name))
        if k == "IntegerLiteral":
            return ("lit", int(n["value"]))
        if k == "DeclRefExpr":
            rd = n.get("referencedDecl", {})
            did = rd.get("id")
            if did == w.loop["var"]:
                return ("loop",)
            if did in w.private:
                if did in w.alias:
                    return var(w.src.text(n))
                nm = rd.get("name", "?")
                same = sorted(i for i, v in w.private.items() if v == nm)
                return var(nm if len(same) <= 1 else "%s#%d" % (nm, same.index(did) + 1))
            if rd.get("kind") in ("VarDecl", "ParmVarDecl"):
                if did in self.written and not is_const_type(qual(rd) or qual(n)):
                    return var(w.src.text(n))       # a shared scalar that iterations modify: no stable value
                return self.sym(rd.get("name", "?"))
            if rd.get("kind") in ("EnumConstantDecl", "NonTypeTemplateParmDecl"):
                return self.sym(rd.get("name", "?"))
        if k == "BinaryOperator" and n.get("opcode") in ("+", "*"):
            a, b = w.kids(n)
            return ("add" if n["opcode"] == "+" else "mul", self.ix(a, vars_), self.ix(b, vars_))
        # anything else (subtraction, division, calls, container elements ...) is an opaque iteration-private value
        return var(w.src.text(n))

    def invariant(self, n):
        """loop bounds: must not depend on iteration-private values"""
        vars_ = []
        t = self.ix(n, vars_)
        if vars_:
            # an opaque but loop-invariant expression (OpenMP's canonical loop form requires invariance): name it
            return self.sym(self.w.src.text(strip_expr(n)))
        return t


def dims_to_rc(dims):
    """subscript / view chain (from the variable outwards) -> (row node | None, col node | None)"""
    row = col = None
    filled = 0          # 0 nothing, 1 row fixed, 2 both fixed, -1 only column fixed
    for d in dims:
        if d[0] == "sub":
            idx = d[1]
            if len(idx) == 2 and filled == 0:
                row, col = idx
                filled = 2
            elif len(idx) == 1 and filled == 0:
                row = idx[0]
                filled = 1
            elif len(idx) == 1 and filled == 1:
                col = idx[0]
                filled = 2
            elif len(idx) == 1 and filled == -1:
                row = idx[0]
                filled = 2
            else:
                break
        elif d[0] == "row" and filled == 0:
            row = d[1]
            filled = 1
        elif d[0] == "col" and filled == 0:
            col = d[1]
            filled = -1
        else:
            break
    return row, col


def lean_ix(t):
    if t is None:
        return "none"
    return "some " + lean_term(t, top=False)


def lean_term(t, top=True):
    if t[0] == "lit":
        return str(t[1])
    if t[0] == "loop":
        return "i"
    if t[0] == "sym":
        return "s %d" % t[1] if top else "(s %d)" % t[1]
    if t[0] == "var":
        return "v %d" % t[1] if top else "(v %d)" % t[1]
    a, b = lean_term(t[1], False), lean_term(t[2], False)
    return "(%s %s %s)" % (a, "+" if t[0] == "add" else "*", b)


def lean_str(s):
    return '"' + s.replace("\\", "\\\\").replace('"', '\\"').replace("\n", " ") + '"'


def lean_list(xs):
    return "[" + ", ".join(xs) + "]"


def finish_regions(w, base):
    """one table per worksharing loop of the parallel region (loops separated by a barrier are independent phases; loops
    that may overlap through `nowait` see each other's accesses as `foreign`)"""
    out = []
    # statements executed by every thread in a phase that has no loop
    phases_with_loop = {L["phase"] for L in w.loops}
    for a in w.raw:
        if a["loop"] is None and a["phase"] not in phases_with_loop and a["mode"] != "R" and not a["critical"]:
            raise Unsupported("statement executed by every thread of the team (no worksharing loop in its barrier phase) writes "
                              "the shared variable %s at %s in %s" % (w.decl_name.get(a["decl"], "?"), w.where(a["node"]), w.func))
    for L in w.loops:
        name = base if len(w.loops) == 1 else "%s_loop%d" % (base, L["index"] + 1)
        w.loop = L
        sel = []
        for a in w.raw:
            if a["loop"] == L["index"]:
                sel.append((a, False))
            elif a["loop"] is None and a["phase"] == L["phase"]:
                sel.append((a, False))
            elif a["loop"] is not None and w.loops[a["loop"]]["phase"] == L["phase"]:
                sel.append((a, True))
        out.append(finish_region(w, name, L, sel))
    return out


def finish_region(w, name, L, sel):
    """second pass: classify variables, translate index expressions, dedupe"""
    written = {a["decl"] for a, _ in sel if a["mode"] in ("W", "RW", "A")}
    ictx = IndexCtx(w, written)
    lo = ictx.invariant(L["lo"])
    hi = ictx.invariant(L["hi"])
    if not L["strict"]:
        hi = ("add", hi, ("lit", 1))
    arrays = []
    accesses = []
    seen = set()
    sync_of = {}
    for a, foreign in sel:
        if a["decl"] not in written:
            continue
        nm = w.decl_name[a["decl"]]
        if nm not in arrays:
            arrays.append(nm)
        if a["critical"]:
            sync_of.setdefault(nm, set()).add(a.get("sync") or "critical")
        vars_ = []
        rown, coln = dims_to_rc(a["dims"])
        row = ictx.ix(rown, vars_) if rown is not None else None
        col = ictx.ix(coln, vars_) if coln is not None else None
        guards = []
        # constraints of the enclosing inner loops on the variables the indices mention (transitively)
        changed = True
        used = set()
        gl = list(a["guards"])
        while changed:
            changed = False
            for gi, g in enumerate(gl):
                if gi in used:
                    continue
                gname = ictx.ix({"kind": "DeclRefExpr", "referencedDecl": {"id": g["var"], "name": w.private[g["var"]],
                                                                           "kind": "VarDecl"}}, list(vars_))
                if gname[0] == "var" and gname[1] < len(vars_):
                    used.add(gi)
                    glo = ictx.ix(g["lo"], vars_)
                    ghi = ictx.ix(g["hi"], vars_)
                    guards.append((glo, gname, ghi, g["strict"]))
                    changed = True
        kind = {"R": "read", "W": "write", "RW": "write", "A": "append"}[a["mode"]]
        gtxt = " && ".join("decide (%s ≤ %s) && decide (%s %s %s)" % (
            lean_term(g[0]), lean_term(g[1]), lean_term(g[1]), "<" if g[3] else "≤", lean_term(g[2])) for g in guards) or "true"
        key = (nm, kind, a["critical"], a["in_loop"], foreign, lean_ix(row), lean_ix(col), gtxt, tuple(vars_))
        srcs = "%s:%s %s" % (os.path.basename(w.src.file(a["node"]) or "?"), w.src.line(a["node"]),
                             stmt_text(w, a.get("top") or a["node"]))
        if key in seen:
            continue
        seen.add(key)
        accesses.append({"arr": arrays.index(nm), "arrName": nm, "kind": kind, "critical": a["critical"],
                         "inLoop": a["in_loop"], "foreign": foreign, "vars": vars_, "guard": gtxt, "row": lean_ix(row),
                         "col": lean_ix(col), "src": srcs + (" [atomic]" if a.get("sync") == "atomic" else ""), "rw": a["mode"]})
    # reduction(op: x): every thread accumulates into a private copy and combines it into x at the end, under the
    # runtime's lock: one critical append of the partial result per thread
    for (did, nm, text, li) in w.reductions:
        if nm not in arrays:
            arrays.append(nm)
        sync_of.setdefault(nm, set()).add("reduction")
        accesses.append({"arr": arrays.index(nm), "arrName": nm, "kind": "append", "critical": True, "inLoop": False,
                         "foreign": False, "vars": [], "guard": "true", "row": "none", "col": "none",
                         "src": "%s: combination of the private copies" % text, "rw": "A"})
    for nm, kinds in sync_of.items():
        if len(kinds) > 1:
            raise Unsupported("shared variable %s is accessed under different synchronisation constructs %s in %s "
                              "(they do not exclude each other)" % (nm, sorted(kinds), w.func))
    shared_ro = sorted({w.decl_name[a["decl"]] for a, _ in sel if a["decl"] not in written})
    f = L["file"]
    return {
        "name": name, "file": os.path.relpath(f, w.repo) if f else "?", "func": w.func, "config": w.cfg,
        "line": w.src.line(w.par),
        "loopVar": L["name"], "loopLo": L["lo_text"], "loopHi": L["hi_text"] + ("" if L["strict"] else " (inclusive)"),
        "syms": ictx.syms, "lo": lean_term(lo), "hi": lean_term(hi), "arrays": arrays,
        "privateVars": sorted(set("%s — %s" % (w.private[i], w.private_why[i]) for i in w.private) |
                              set("%s[omp_get_thread_num()] — per-thread slot" % n for n in getattr(w, "per_thread_slots", set()))),
        "privateNames": sorted(set(w.private.values())),
        # thread-private scratch that outlives an iteration (declared between `omp parallel` and the loop)
        "carriedScratch": sorted(set(w.private[i] for i in w.private if i != L["var"] and w.decl_line.get(i)
                                     and w.decl_line[i] < (L["line"] or 0)) |
                                 set("%s[tid]" % n for n in getattr(w, "per_thread_slots", set()))),
        "sharedReadOnly": shared_ro, "reentrantCalls": sorted(set(w.reentrant)), "clauses": w.clause_text,
        "flags": sorted(w.flags), "accesses": accesses,
    }


def stmt_text(w, node):
    return w.src.text(node)[:100]


# ------------------------------------------------------------------------------------------------ driver
def find_nodes(n, kinds, out):
    if n.get("kind") in kinds:
        out.append(n)
    inner = n.get("inner", [])
    if n.get("kind") == "CapturedDecl":
        inner = inner[:1]
    for c in inner:
        if isinstance(c, dict):
            find_nodes(c, kinds, out)


def analyse(repo, cache_dir, log=lambda *a: None):
    pragmas = scan_pragmas(repo)
    # the compiler's own view: adds directives written as `_Pragma("omp …")` or hidden in macros
    for q in scan_pragmas_preprocessed(repo, cache_dir):
        near = [p for p in pragmas if p["file"] == q["file"] and abs(p["line"] - q["line"]) <= 2
                and p["text"].split()[:1] == q["text"].split()[:1]]
        if near:
            continue
        # locate the `_Pragma` / macro use in the source: the marker arithmetic of -E may be off by a line
        lines = q["clean"].split("\n")
        line = q["line"]
        for d in (0, -1, 1, -2, 2):
            if 0 < line + d <= len(lines) and re.search(r"_Pragma|\b[A-Z][A-Z0-9_]{2,}\b", lines[line + d - 1]):
                line = line + d
                break
        pragmas.append({"file": q["file"], "line": line, "text": q["text"], "func": enclosing_function(q["clean"], line),
                        "via": "_Pragma/macro"})
    pragmas.sort(key=lambda p: (p["file"], p["line"]))
    if not pragmas:
        raise Unsupported("no OpenMP pragma found under %s" % repo)
    pragma_at = {(p["file"], p["line"]): p for p in pragmas}
    funcs = {}
    for p in pragmas:
        funcs.setdefault(p["func"]["name"], set()).update(p["func"]["macros"])
    jobs = []
    for fn, macros in sorted(funcs.items()):
        # conditionals on other macros: only the default configuration of that code is analysed (a pragma the default
        # configuration does not compile is an error below)
        for cfg_name, cfg_flags in CONFIGS:
            if cfg_name and not (macros & KNOWN_CONFIG_MACROS):
                continue
            jobs.append((fn, cfg_name, cfg_flags))
    with concurrent.futures.ThreadPoolExecutor(max_workers=min(12, len(jobs))) as ex:
        paths = list(ex.map(lambda j: clang_dump(repo, cache_dir, j[0], j[1], j[2]), jobs))
    src = Sources()
    regions = []
    used = {}
    for (fn, cfg_name, _), path in zip(jobs, paths):
        docs = load_docs(path)
        seen_lines = set()
        found = []
        for d in docs:
            resolve_locs(d)
        docs.sort(key=lambda d: 0 if d.get("kind") == "FunctionTemplateDecl" else 1)
        for d in docs:
            if d.get("kind") not in ("FunctionTemplateDecl", "FunctionDecl", "CXXMethodDecl"):
                continue
            if d.get("name") != fn:
                continue
            tparams = [c.get("name") for c in d.get("inner", []) if c.get("kind") == "TemplateTypeParmDecl"]
            fdecls = [c for c in d.get("inner", []) if c.get("kind") in ("FunctionDecl", "CXXMethodDecl")] \
                if d.get("kind") == "FunctionTemplateDecl" else [d]
            for fd in fdecls[:1]:      # the template pattern (instantiations repeat it)
                pars = []
                find_nodes(fd, ("OMPParallelDirective", "OMPParallelForDirective"), pars)
                others = []
                find_nodes(fd, ("OMPForDirective", "OMPCriticalDirective", "OMPSingleDirective", "OMPMasterDirective",
                                "OMPBarrierDirective", "OMPAtomicDirective", "OMPSectionsDirective", "OMPTaskDirective",
                                "OMPSimdDirective", "OMPForSimdDirective", "OMPParallelForSimdDirective",
                                "OMPTargetDirective", "OMPTaskLoopDirective", "OMPOrderedDirective",
                                "OMPParallelSectionsDirective", "OMPFlushDirective", "OMPTaskwaitDirective"), others)
                for par in pars:
                    key = (src.file(par), src.line(par))
                    if key in seen_lines:
                        continue
                    seen_lines.add(key)
                    found.append((par, tparams))
                for o in others:
                    used.setdefault((cfg_name, os.path.relpath(src.file(o), repo), src.line(o)), False)
        found.sort(key=lambda x: (src.file(x[0]), src.line(x[0])))
        for idx, (par, tparams) in enumerate(found):
            w = Walker(repo, src, fn, tparams, par, pragma_at, cfg_name).run()
            for u in w.used_pragmas:
                used[(cfg_name, u[0], u[1])] = True
            base = fn if len(found) == 1 else "%s_%d" % (fn, idx + 1)
            name = base + ("_" + cfg_name if cfg_name else "")
            regions.extend(finish_regions(w, name))
    # every pragma of the token scan must have been accounted for in the default configuration ...
    for p in pragmas:
        if not used.get(("", p["file"], p["line"])) and not any(used.get(("", p["file"], p["line"] + d)) for d in (-2, -1, 1, 2)):
            raise Unsupported("`#pragma omp %s` at %s:%d was not reached by the AST walk (orphaned directive, or inside "
                              "code the default configuration does not compile)" % (p["text"], p["file"], p["line"]))
    # ... and every directive of the AST in a region
    for (cfg, f, l), ok in used.items():
        if not ok and any(used.get((cfg, f, l + d)) for d in (-2, -1, 1, 2)):
            continue        # `_Pragma` form: AST expansion point and preprocessor line differ by a line
        if not ok:
            raise Unsupported("OpenMP directive at %s:%s [%s] lies outside every analysed parallel region" % (f, l, cfg or "default"))
    # a second configuration that reads exactly like the default one adds nothing
    return pragmas, regions


def emit_lean(pragmas, regions):
    o = []
    o.append("import TapkeeVerif.Model.Omp")
    o.append("/-! GENERATED by tools/translate_omp.py from the `#pragma omp` regions of the tapkee working tree — do not edit.")
    o.append("    One `Region` per parallel region (and per build configuration that changes its body); see `Model/Omp.lean`. -/")
    o.append("set_option linter.unusedVariables false")
    o.append("namespace TapkeeVerif.Gen.OmpRegions")
    o.append("open TapkeeVerif.Omp")
    o.append("")
    o.append("/-- every OpenMP pragma of the source tree: (file, directive text) -/")
    o.append("def pragmas : List (String × String) := " + lean_list(
        "(%s, %s)" % (lean_str(p["file"]), lean_str(p["text"])) for p in pragmas))
    o.append("")
    for r in regions:
        o.append("def %s : Region where" % r["name"])
        o.append("  name := %s" % lean_str(r["name"]))
        o.append("  file := %s" % lean_str(r["file"]))
        o.append("  func := %s" % lean_str(r["func"]))
        o.append("  config := %s" % lean_str(r["config"]))
        o.append("  loopVar := %s" % lean_str(r["loopVar"]))
        o.append("  loopLo := %s" % lean_str(r["loopLo"]))
        o.append("  loopHi := %s" % lean_str(r["loopHi"]))
        o.append("  syms := %s" % lean_list(lean_str(s) for s in r["syms"]))
        o.append("  lo := fun s => %s" % r["lo"])
        o.append("  hi := fun s => %s" % r["hi"])
        o.append("  arrays := %s" % lean_list(lean_str(s) for s in r["arrays"]))
        o.append("  privateVars := %s" % lean_list(lean_str(s) for s in r["privateVars"]))
        o.append("  sharedReadOnly := %s" % lean_list(lean_str(s) for s in r["sharedReadOnly"]))
        o.append("  reentrantCalls := %s" % lean_list(lean_str(s) for s in r["reentrantCalls"]))
        o.append("  clauses := %s" % lean_list(lean_str(s) for s in r["clauses"] + ["flag " + f for f in r["flags"]]))
        o.append("  accesses := [")
        for k, a in enumerate(r["accesses"]):
            o.append("    { arr := %d, arrName := %s, kind := .%s, critical := %s, inLoop := %s,%s" % (
                a["arr"], lean_str(a["arrName"]), a["kind"], "true" if a["critical"] else "false",
                "true" if a["inLoop"] else "false", " foreign := true," if a.get("foreign") else ""))
            o.append("      vars := %s," % lean_list(lean_str(v) for v in a["vars"]))
            o.append("      guard := fun s v i => %s," % a["guard"])
            o.append("      row := fun s v i => %s," % a["row"])
            o.append("      col := fun s v i => %s," % a["col"])
            o.append("      src := %s }%s" % (lean_str(a["src"]), "," if k + 1 < len(r["accesses"]) else ""))
        o.append("  ]")
        o.append("")
    o.append("def allRegions : List Region := " + lean_list(r["name"] for r in regions))
    o.append("def regionNames : List String := " + lean_list(lean_str(r["name"]) for r in regions))
    o.append("")
    o.append("end TapkeeVerif.Gen.OmpRegions")
    return "\n".join(o) + "\n"


def emit_proofs(regions):
    """one disjointness theorem per region of the table, each stated over the generated constant and closed by the
    generic tactic: a region whose proof fails breaks the build, a new / renamed region needs no hand-written theorem"""
    o = ["import TapkeeVerif.Gen.OmpRegions", "import TapkeeVerif.Proofs.OmpTactic",
         "/-! GENERATED by tools/translate_omp.py — do not edit.  `disjoint_<region>` for every region of `Gen/OmpRegions.lean`. -/",
         "namespace TapkeeVerif.Gen.OmpRegionProofs", "open TapkeeVerif.Omp TapkeeVerif.Gen.OmpRegions", ""]
    for r in regions:
        o.append(("/-- %s:%s `%s` in [%s, %s) " % (r["file"], r["line"], r["loopVar"], r["loopLo"], r["loopHi"])).replace("-/", "- /") + "-/")
        o.append("theorem disjoint_%s : %s.RaceFree := by\n  race_free %s" % (r["name"], r["name"], r["name"]))
    o.append("")
    o.append("/-- every region of the table is race free -/")
    o.append("theorem all_race_free : ∀ r ∈ allRegions, r.RaceFree := by")
    o.append("  intro r hr")
    o.append("  simp only [allRegions, List.mem_cons, List.mem_nil_iff, or_false] at hr")
    o.append("  rcases hr with " + " | ".join("rfl" for _ in regions))
    for r in regions:
        o.append("  · exact disjoint_%s" % r["name"])
    o.append("")
    o.append("end TapkeeVerif.Gen.OmpRegionProofs")
    return "\n".join(o) + "\n"


PROOFS_PATH = os.path.join(vlib.LEAN_DIR, "TapkeeVerif", "Gen", "OmpRegionProofs.lean")


def translate(repo=None, repo_hash=None, out_path=GEN_PATH, log=lambda *a: None):
    repo = repo or vlib.REPO
    repo_hash = repo_hash or vlib.repo_hash()
    base = os.path.join(vlib.BUILD_DIR, "c15_ast")
    key = hashlib.sha256((repo_hash + TRANSLATOR_VERSION + os.path.abspath(repo)).encode()).hexdigest()[:16]
    cache_dir = os.path.join(base, key)
    os.makedirs(cache_dir, exist_ok=True)
    # drop caches of other trees, but never one a concurrent run may still be writing (younger than two hours)
    try:
        import time
        for d in os.listdir(base):
            dp = os.path.join(base, d)
            if d != key and time.time() - os.path.getmtime(dp) > 7200:
                shutil.rmtree(dp, ignore_errors=True)
    except OSError:
        pass
    with vlib.Lock("c15_translate"):
        pragmas, regions = analyse(repo, cache_dir, log)
    text = emit_lean(pragmas, regions)
    changed = vlib.write_if_changed(out_path, text)
    if out_path == GEN_PATH:
        changed = vlib.write_if_changed(PROOFS_PATH, emit_proofs(regions)) or changed
    summary = {"pragmas": pragmas, "regions": regions, "changed": changed}
    with open(os.path.join(vlib.BUILD_DIR, "c15_regions.json"), "w") as fh:
        json.dump(summary, fh, indent=1, default=str)
    return summary


if __name__ == "__main__":
    out = sys.argv[1] if len(sys.argv) > 1 else GEN_PATH
    try:
        s = translate(out_path=out, log=print)
    except Unsupported as ex:
        print("UNSUPPORTED:", ex)
        sys.exit(2)
    for r in s["regions"]:
        print("%-40s %s:%s loop %s in [%s, %s)  shared-written=%s  accesses=%d critical=%d" % (
            r["name"], r["file"], r["line"], r["loopVar"], r["loopLo"], r["loopHi"], r["arrays"], len(r["accesses"]),
            sum(1 for a in r["accesses"] if a["critical"])))
    print("changed" if s["changed"] else "unchanged", out)
