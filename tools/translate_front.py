"""Translator for the keyword / validation / dispatch front end (DESIGN §2.2 (T); properties C13, C14).

Regenerates, from the working tree of the repository under proof,

    lean/TapkeeVerif/Gen/Methods.lean      method table, traits, dispatch order, auxiliary method enums
    lean/TapkeeVerif/Gen/Keywords.lean     keyword rows (identifier, name, C++ type, default, documented default), `defaults` set
    lean/TapkeeVerif/Gen/Validate.lean     per method the ordered `checked().satisfies(..)[.orThrow()]` steps (+ base ctor, find_neighbors_with)
    lean/TapkeeVerif/Gen/EmbedBodies.lean  per method the ordered events of `embed()` (parameter reads, callback uses, inlined helpers)
    lean/TapkeeVerif/Gen/EmbedFront.lean   order of the steps of tapkee::embed / initialize / embedUsing; catch -> rethrow map
    .build/gen-<repo hash>/front_tables.inc  X-macro lists of the same identifiers for the C++ harnesses

It emits Lean *data* only.  Sources are read through `g++ -E` (macros `__TAPKEE_IMPLEMENTATION`,
`tapkee_method_handle`, the `#ifdef` alternatives resolved exactly as in the harness build) and tokenised; the doc
comments of defines/keywords.hpp are read from the raw file.  Every statement shape that is not recognised raises
`TranslateError` (reported by check.py as a broken tie) - nothing is skipped silently.
"""
import hashlib
import os
import re
import subprocess
import sys
from fractions import Fraction

sys.path.insert(0, os.path.dirname(os.path.dirname(os.path.abspath(__file__))))
import vlib  # noqa: E402


class TranslateError(Exception):
    pass


PP_DEFINES = ["-DTAPKEE_VERIF", "-DTAPKEE_USE_LGPL_COVERTREE", "-DFMT_HEADER_ONLY=1"]
CALLBACK_MEMBERS = {"kernel": "kernel", "kernel_distance": "kernel", "distance": "distance",
                    "plain_distance": "distance", "features": "features"}
ERR_CLASSES = ["no_data_error", "unsupported_method_error", "not_enough_memory_error", "cancelled_exception",
               "eigendecomposition_error", "missed_parameter_error", "wrong_parameter_error",
               "wrong_parameter_type_error", "multiple_parameter_error", "bad_alloc"]


# ------------------------------------------------------------------------------------------------ preprocessing
def preprocess(repo, repo_hash):
    """g++ -E of a TU including tapkee/tapkee.hpp, split per source file; cached by repo hash"""
    cache = os.path.join(vlib.BUILD_DIR, "front-pp-%s.i" % repo_hash)
    if not os.path.exists(cache):
        tu = os.path.join(vlib.BUILD_DIR, "front-tu-%s-%d.cpp" % (repo_hash, os.getpid()))
        with open(tu, "w") as f:
            f.write("#include <tapkee/tapkee.hpp>\n#include <tapkee/chain_interface.hpp>\n")
        cmd = ["g++", "-E", "-std=gnu++23"] + PP_DEFINES + ["-I" + os.path.join(repo, "include"), "-isystem",
                                                              "/root/miniconda/include", "-isystem",
                                                              "/usr/include/eigen3", tu, "-o", cache + ".tmp%d" % os.getpid()]
        r = vlib.sh(cmd)
        os.unlink(tu)
        if r.returncode != 0:
            raise TranslateError("g++ -E failed: " + r.stdout[-600:])
        os.rename(cache + ".tmp%d" % os.getpid(), cache)
        for f in os.listdir(vlib.BUILD_DIR):      # drop stale caches
            if f.startswith("front-pp-") and f.endswith(".i") and f != os.path.basename(cache):
                try:
                    os.unlink(os.path.join(vlib.BUILD_DIR, f))
                except OSError:
                    pass
    files = {}
    cur = None
    inc = os.path.join(repo, "include") + "/"
    for line in open(cache, errors="replace"):
        m = re.match(r'# \d+ "([^"]*)"', line)
        if m:
            p = m.group(1)
            cur = p[len(inc):] if p.startswith(inc) else None
            continue
        if cur is not None:
            files.setdefault(cur, []).append(line)
    return {k: "".join(v) for k, v in files.items()}


TOKEN_RE = re.compile(r"""
    (?P<ws>\s+)
  | (?P<str>"(?:[^"\\]|\\.)*")
  | (?P<chr>'(?:[^'\\]|\\.)*')
  | (?P<num>(?:\d+\.\d*|\.\d+|\d+)(?:[eE][+-]?\d+)?[uUlLfF]*)
  | (?P<id>[A-Za-z_]\w*)
  | (?P<op>::|->|\+\+|--|<<=|>>=|<=|>=|==|!=|&&|\|\||\+=|-=|\*=|/=|%=|&=|\|=|\^=|[{}()\[\];,.<>+\-*/%!=&|^~?:\#])
""", re.X)


def tokenize(src):
    src = re.sub(r"/\*.*?\*/", " ", src, flags=re.S)
    src = re.sub(r"//[^\n]*", " ", src)
    toks = []
    pos = 0
    while pos < len(src):
        m = TOKEN_RE.match(src, pos)
        if not m:
            raise TranslateError("cannot tokenise near: %r" % src[pos:pos + 40])
        pos = m.end()
        if m.lastgroup != "ws":
            toks.append(m.group(0))
    return toks


OPEN = {"(": ")", "[": "]", "{": "}"}


def match_close(toks, i):
    """index of the token closing the bracket opened at toks[i]"""
    want = [OPEN[toks[i]]]
    j = i + 1
    while j < len(toks):
        t = toks[j]
        if t in OPEN:
            want.append(OPEN[t])
        elif t in (")", "]", "}"):
            if t != want[-1]:
                raise TranslateError("unbalanced brackets near " + " ".join(toks[max(0, j - 8):j + 3]))
            want.pop()
            if not want:
                return j
        j += 1
    raise TranslateError("unclosed bracket " + " ".join(toks[i:i + 10]))


def find_seq(toks, seq, start=0):
    n = len(seq)
    for i in range(start, len(toks) - n + 1):
        if toks[i:i + n] == seq:
            return i
    return -1


def split_top(toks, sep=","):
    """split a token list at top-level separators (angle brackets are NOT treated as brackets)"""
    out, cur, depth = [], [], 0
    for t in toks:
        if t in OPEN:
            depth += 1
        elif t in (")", "]", "}"):
            depth -= 1
        if t == sep and depth == 0:
            out.append(cur)
            cur = []
        else:
            cur.append(t)
    if cur or out:
        out.append(cur)
    return out


def statements(toks):
    """split a function body (tokens between the braces) into top-level statements.
    A statement is a token list; compound statements keep their blocks."""
    out = []
    i = 0
    n = len(toks)
    while i < n:
        start = i
        t = toks[i]
        if t == ";":
            i += 1
            continue
        if t in ("if", "for", "while"):
            if toks[i + 1] != "(":
                raise TranslateError("malformed %s" % t)
            j = match_close(toks, i + 1) + 1
            j = _stmt_end(toks, j)
            if t == "if":
                while j < n and toks[j] == "else":
                    j = _stmt_end(toks, j + 1)
            out.append(toks[start:j])
            i = j
            continue
        if t == "{":
            j = match_close(toks, i) + 1
            out.append(toks[start:j])
            i = j
            continue
        if t in ("do", "switch", "try", "goto"):
            raise TranslateError("unsupported statement keyword %r" % t)
        j = _stmt_end(toks, i)
        out.append(toks[start:j])
        i = j
    return out


def _stmt_end(toks, i):
    """index just past the statement starting at i"""
    t = toks[i]
    if t == "{":
        return match_close(toks, i) + 1
    if t in ("if", "for", "while"):
        j = match_close(toks, i + 1) + 1
        j = _stmt_end(toks, j)
        if t == "if":
            while j < len(toks) and toks[j] == "else":
                j = _stmt_end(toks, j + 1)
        return j
    j = i
    while j < len(toks):
        if toks[j] in OPEN:
            j = match_close(toks, j) + 1
            continue
        if toks[j] == ";":
            return j + 1
        j += 1
    raise TranslateError("statement without terminator: " + " ".join(toks[i:i + 12]))


def function_body(toks, head):
    """tokens of the body of the first function whose head token sequence is `head` followed by '(' ... ')' [const] '{'"""
    i = find_seq(toks, head + ["("])
    if i < 0:
        return None
    j = match_close(toks, i + len(head))
    k = j + 1
    while toks[k] != "{":
        if toks[k] == ";":
            raise TranslateError("declaration without body: " + " ".join(head))
        k += 1
    e = match_close(toks, k)
    return toks[k + 1:e], toks[i + len(head) + 1:j], toks[j + 1:k]


# ------------------------------------------------------------------------------------------------ Lean emission helpers
def lean_str(s):
    return '"' + s.replace("\\", "\\\\").replace('"', '\\"') + '"'


def lean_rat(fr):
    fr = Fraction(fr)
    if fr.denominator == 1:
        return "(%d : Rat)" % fr.numerator if fr.numerator >= 0 else "(-%d : Rat)" % -fr.numerator
    num = "%d" % fr.numerator if fr.numerator >= 0 else "(-%d)" % -fr.numerator
    return "(mkRat %s %d)" % (num, fr.denominator)


def lean_int(i):
    return "%d" % i if i >= 0 else "(-%d)" % -i


def lean_list(items, indent="  "):
    if not items:
        return "[]"
    return "[\n" + ",\n".join(indent + "  " + x for x in items) + "\n" + indent + "]"


def lean_bool(b):
    return "true" if b else "false"


HEADER = """/- GENERATED by tools/translate_front.py from the working tree of the repository under proof.
   DO NOT EDIT: regenerated (and rewritten only if different) by every `check.py C13|C14` run.
   Source: %s -/
"""


# ------------------------------------------------------------------------------------------------ methods
def parse_methods(pp):
    toks = tokenize(pp["tapkee/defines/methods.hpp"])
    traits = {}
    i = 0
    while True:
        i = find_seq(toks, ["static", "const", "DimensionReductionTraits"], i)
        if i < 0:
            break
        name = toks[i + 3]
        if toks[i + 4] != "{":
            raise TranslateError("traits initialiser of %s not a braced list" % name)
        e = match_close(toks, i + 4)
        vals = [x for x in split_top(toks[i + 5:e])]
        if len(vals) != 3 or any(v not in (["true"], ["false"]) for v in vals):
            raise TranslateError("traits %s: expected three bool literals, got %s" % (name, vals))
        traits[name] = tuple(v == ["true"] for v in vals)
        i = e
    # order of the fields of DimensionReductionTraits must be kernel, distance, features
    si = find_seq(toks, ["struct", "DimensionReductionTraits", "{"])
    if si < 0:
        raise TranslateError("struct DimensionReductionTraits not found")
    se = match_close(toks, si + 2)
    fields = [s[-2] for s in statements(toks[si + 3:se])]
    if fields != ["needs_kernel", "needs_distance", "needs_features"]:
        raise TranslateError("DimensionReductionTraits fields changed: %s" % fields)
    # the DimensionReductionMethod ctor must copy the three flags straight
    ci = find_seq(toks, ["struct", "DimensionReductionMethod"])
    cb = toks[ci:match_close(toks, toks.index("{", ci)) + 1]
    for fld in fields:
        if find_seq(cb, [fld, "(", "traits", ".", fld, ")"]) < 0:
            raise TranslateError("DimensionReductionMethod ctor does not initialise %s from traits.%s" % (fld, fld))

    def named(kind):
        rows = []
        j = 0
        while True:
            j = find_seq(toks, ["static", "const", kind], j)
            if j < 0:
                break
            ident = toks[j + 3]
            if toks[j + 4] != "(":
                raise TranslateError("%s %s: unexpected initialiser" % (kind, ident))
            e = match_close(toks, j + 4)
            args = split_top(toks[j + 5:e])
            rows.append((ident, args))
            j = e
        return rows

    methods = []
    for ident, args in named("DimensionReductionMethod"):
        if len(args) != 2 or len(args[0]) != 1 or not args[0][0].startswith('"') or len(args[1]) != 1:
            raise TranslateError("method %s: unexpected ctor arguments %s" % (ident, args))
        if args[1][0] not in traits:
            raise TranslateError("method %s: unknown traits constant %s" % (ident, args[1][0]))
        methods.append({"ident": ident, "name": eval(args[0][0]), "traits_name": args[1][0], "needs": traits[args[1][0]]})
    aux = {}
    for kind in ("NeighborsMethod", "EigenMethod", "ComputationStrategy"):
        rows = []
        for ident, args in named(kind):
            if len(args) != 1 or not args[0][0].startswith('"'):
                raise TranslateError("%s %s: unexpected ctor arguments" % (kind, ident))
            rows.append((ident, eval(args[0][0])))
        aux[kind] = rows
    strategies = []
    for ident, args in named("EigendecompositionStrategy"):
        if len(args) != 2 or not re.fullmatch(r"\d+", args[1][0]):
            raise TranslateError("EigendecompositionStrategy %s: unexpected arguments" % ident)
        strategies.append((ident, eval(args[0][0]), int(args[1][0])))
    # mutable defaults: static NeighborsMethod default_neighbors_method = CoverTree;
    defaults = {}
    for var, kind in (("default_neighbors_method", "NeighborsMethod"), ("default_eigen_method", "EigenMethod"),
                      ("default_computation_strategy", "ComputationStrategy")):
        j = find_seq(toks, ["static", kind, var, "="])
        if j < 0:
            raise TranslateError("definition of %s not found" % var)
        defaults[var] = toks[j + 4]
        if toks[j + 5] != ";" or defaults[var] not in [r[0] for r in aux[kind]]:
            raise TranslateError("unexpected initialiser of %s" % var)
    # dispatch order + per-method dispatch sequence
    mt = tokenize(pp["tapkee/methods.hpp"])
    return methods, aux, strategies, defaults, mt


def mname(ident):
    """Lean constructor name for a C++ identifier"""
    return ident


# ------------------------------------------------------------------------------------------------ keywords
TYPE_MAP = [
    (["ComputationStrategy"], "strategy"), (["DimensionReductionMethod"], "method"), (["EigenMethod"], "eigen"),
    (["NeighborsMethod"], "neighbors"), (["IndexType"], "int"), (["ScalarType"], "real"), (["bool"], "bool"),
    (["void", "(", "*", ")", "(", "double", ")"], "progressFn"), (["bool", "(", "*", ")", "(", ")"], "cancelFn"),
]


def type_of(toks):
    for pat, ty in TYPE_MAP:
        if toks == pat:
            return ty
    raise TranslateError("unknown keyword value type: " + " ".join(toks))


def number_value(tok):
    """(is_int, Fraction) of a numeric literal; a floating literal denotes the double it parses to"""
    if re.fullmatch(r"\d+", tok):
        return True, Fraction(int(tok))
    if re.fullmatch(r"(?:\d+\.\d*|\.\d+|\d+)(?:[eE][+-]?\d+)?", tok):
        return False, Fraction(float(tok))
    raise TranslateError("unsupported numeric literal " + tok)


def check_typedefs(pp):
    t = tokenize(pp["tapkee/defines/types.hpp"])
    if find_seq(t, ["typedef", "double", "ScalarType", ";"]) < 0 and find_seq(t, ["using", "ScalarType", "=", "double", ";"]) < 0:
        raise TranslateError("ScalarType is no longer `double`")
    if find_seq(t, ["typedef", "int", "IndexType", ";"]) < 0 and find_seq(t, ["using", "IndexType", "=", "int", ";"]) < 0:
        raise TranslateError("IndexType is no longer `int`")


def literal_value(ty, toks, methods, aux, mdefaults):
    """Lean `Val` term of a default-value expression of a keyword of type ty"""
    if ty == "int":
        if len(toks) == 1:
            isint, v = number_value(toks[0])
            if isint:
                return "Val.int %s" % lean_int(int(v))
        raise TranslateError("IndexType default is not an integer literal: " + " ".join(toks))
    if ty == "real":
        neg = toks[0] == "-"
        body = toks[1:] if neg else toks
        if len(body) == 1:
            _, v = number_value(body[0])
            return "Val.real (XReal.fin %s)" % lean_rat(-v if neg else v)
        raise TranslateError("ScalarType default is not a literal: " + " ".join(toks))
    if ty == "bool":
        if toks in (["true"], ["false"]):
            return "Val.bool %s" % toks[0]
        raise TranslateError("bool default is not a literal")
    if ty == "method":
        if len(toks) == 1 and toks[0] in [m["ident"] for m in methods]:
            return "Val.method Meth.%s" % mname(toks[0])
        raise TranslateError("unknown method default " + " ".join(toks))
    for kind, tyname, ctor, enum in (("NeighborsMethod", "neighbors", "neighbors", "NbrMeth"),
                                     ("EigenMethod", "eigen", "eigen", "EigMeth"),
                                     ("ComputationStrategy", "strategy", "strategy", "Strat")):
        if ty == tyname:
            t = toks[0] if len(toks) == 1 else None
            t = mdefaults.get(t, t)
            if t in [r[0] for r in aux[kind]]:
                return "Val.%s %s.%s" % (ctor, enum, t)
            raise TranslateError("unknown %s default %s" % (kind, " ".join(toks)))
    if ty in ("progressFn", "cancelFn"):
        # NULL expands to __null / nullptr / 0 after preprocessing
        if toks in (["__null"], ["nullptr"], ["0"], ["NULL"]):
            return "Val.progressFn true" if ty == "progressFn" else "Val.cancelFn none"
        raise TranslateError("function-pointer default is not NULL: " + " ".join(toks))
    raise TranslateError("no literal reader for type " + ty)


def parse_keywords(repo, pp, methods, aux, mdefaults):
    toks = tokenize(pp["tapkee/defines/keywords.hpp"])
    rows = []
    i = 0
    while True:
        i = find_seq(toks, ["const", "stichwort", "::", "ParameterKeyword", "<"], i)
        if i < 0:
            break
        # template argument up to the matching '>' (function-pointer types contain parentheses but no '<')
        j = i + 5
        depth = 0
        while not (toks[j] == ">" and depth == 0):
            if toks[j] in OPEN:
                depth += 1
            elif toks[j] in (")", "]", "}"):
                depth -= 1
            j += 1
        ty = type_of(toks[i + 5:j])
        ident = toks[j + 1]
        if toks[j + 2] not in ("(", "{"):
            raise TranslateError("keyword %s: unexpected initialiser" % ident)
        e = match_close(toks, j + 2)
        args = split_top(toks[j + 3:e])
        if len(args) != 2 or len(args[0]) != 1 or not args[0][0].startswith('"'):
            raise TranslateError("keyword %s: expected (name, default)" % ident)
        rows.append({"ident": ident, "name": eval(args[0][0]), "ty": ty, "default_toks": args[1],
                     "default": literal_value(ty, args[1], methods, aux, mdefaults)})
        i = e
    if not rows:
        raise TranslateError("no keywords found")
    # documented defaults from the raw doc comments
    raw = open(os.path.join(repo, "include/tapkee/defines/keywords.hpp")).read()
    for r in rows:
        m = re.search(r"/\*\*((?:(?!\*/).)*?)\*/\s*const\s+stichwort::ParameterKeyword<[^;]*?>\s+%s\s*\(" % re.escape(r["ident"]),
                      raw, re.S)
        if not m:
            raise TranslateError("no doc comment in front of keyword " + r["ident"])
        doc = " ".join(l.strip().lstrip("*").strip() for l in m.group(1).split("\n"))
        r["doc"] = doc
        sentences = re.findall(r"\bDefault(?: value)? is ([^;]*?)(?:\.\s|\.$|;)", doc + " ")
        if len(sentences) > 1:
            raise TranslateError("several default sentences for keyword " + r["ident"])
        r["documented"] = None
        r["documented_text"] = None
        if sentences:
            text = sentences[0].strip()
            r["documented_text"] = text
            mm = re.fullmatch(r"@ref tapkee::(\w+) if available, @ref tapkee::(\w+) otherwise", text)
            if mm:
                kind = {"neighbors": "NeighborsMethod", "eigen": "EigenMethod", "strategy": "ComputationStrategy"}.get(r["ty"])
                if not kind:
                    raise TranslateError("conditional documented default on keyword %s of type %s" % (r["ident"], r["ty"]))
                avail = [x[0] for x in aux[kind]]
                pick = mm.group(1) if mm.group(1) in avail else mm.group(2)
                dt = [pick]
            else:
                mm = re.fullmatch(r"@ref tapkee::(\w+)", text)
                dt = [mm.group(1)] if mm else tokenize(text)
            r["documented"] = literal_value(r["ty"], dt, methods, aux, {})
        elif re.search(r"no default value is provided", doc):
            r["documented_text"] = "(no default value is provided)"
    # the defaults set
    dt = tokenize(pp["tapkee/parameters/defaults.hpp"])
    i = find_seq(dt, ["const", "stichwort", "::", "ParametersSet", "defaults", "=", "("])
    if i < 0:
        raise TranslateError("definition of tapkee_internal::defaults not found")
    e = match_close(dt, i + 6)
    indefaults = []
    for item in split_top(dt[i + 7:e]):
        # tapkee :: kw = stichwort :: by_default
        if len(item) == 7 and item[0:2] == ["tapkee", "::"] and item[3:] == ["=", "stichwort", "::", "by_default"]:
            indefaults.append(item[2])
        else:
            raise TranslateError("unrecognised item in defaults: " + " ".join(item))
    idents = [r["ident"] for r in rows]
    for k in indefaults:
        if k not in idents:
            raise TranslateError("defaults mentions unknown keyword " + k)
    if dt[e + 1] != ";":
        raise TranslateError("unexpected tokens after the defaults expression")
    return rows, indefaults


# ------------------------------------------------------------------------------------------------ bound expressions
class BParser:
    """C++ arithmetic over literals, n_vectors, current_dimension, parameters[kw], static_cast<IndexType|ScalarType>(..)
    -> (lean term, is_int)"""

    def __init__(self, toks, kwtypes=None, env=None):
        self.t = toks
        self.i = 0
        self.kwtypes = kwtypes or {}
        self.env = env if env is not None else getattr(BParser, "env", {})   # local definitions of the enclosing validate()

    def peek(self, k=0):
        return self.t[self.i + k] if self.i + k < len(self.t) else None

    def take(self):
        t = self.peek()
        self.i += 1
        return t

    def expect(self, tok):
        if self.take() != tok:
            raise TranslateError("expected %r in bound expression %s" % (tok, " ".join(self.t)))

    def parse(self):
        r = self.sum()
        if self.peek() is not None:
            raise TranslateError("unsupported bound expression: " + " ".join(self.t))
        return r

    def sum(self):
        l = self.prod()
        while self.peek() in ("+", "-"):
            op = self.take()
            r = self.prod()
            l = ("BExpr.%s %s %s" % ("add" if op == "+" else "sub", paren(l[0]), paren(r[0])), l[1] and r[1])
        return l

    def prod(self):
        l = self.unary()
        while self.peek() in ("*", "/"):
            op = self.take()
            r = self.unary()
            l = ("BExpr.%s %s %s" % ("mul" if op == "*" else "div", paren(l[0]), paren(r[0])), l[1] and r[1])
        return l

    def unary(self):
        if self.peek() == "-":
            self.take()
            a = self.unary()
            return ("BExpr.neg %s" % paren(a[0]), a[1])
        return self.atom()

    def atom(self):
        t = self.take()
        if t == "(":
            r = self.sum()
            self.expect(")")
            return r
        if t in self.env:
            return self.env[t]
        if t == "n_vectors":
            return ("BExpr.nVectors", True)
        if t == "current_dimension":
            return ("BExpr.currentDimension", True)
        if t == "static_cast":
            self.expect("<")
            ty = self.take()
            self.expect(">")
            self.expect("(")
            a = self.sum()
            self.expect(")")
            if ty == "IndexType":
                return ("BExpr.toInt %s" % paren(a[0]), True)
            if ty == "ScalarType":
                return ("BExpr.toReal %s" % paren(a[0]), False)
            raise TranslateError("static_cast to %s in bound expression %s" % (ty, " ".join(self.t)))
        if t == "parameters":
            self.expect("[")
            kw = self.take()
            self.expect("]")
            if self.kwtypes.get(kw) not in ("int", "real"):
                raise TranslateError("bound expression reads non-numeric / unknown keyword %s: %s" % (kw, " ".join(self.t)))
            return ("BExpr.param Kw.%s" % kw, self.kwtypes[kw] == "int")
        if t is not None and re.match(r"[\d.]", t):
            isint, v = number_value(t)
            if isint:
                return ("BExpr.intLit %s" % lean_int(int(v)), True)
            return ("BExpr.realLit %s" % lean_rat(v), False)
        raise TranslateError("unsupported token %r in bound expression %s" % (t, " ".join(self.t)))


def paren(s):
    return s if re.fullmatch(r"[\w.]+", s) else "(" + s + ")"


PREDICATES = {"Positivity": 0, "NonNegativity": 0, "InRange": 2, "InClosedRange": 2}


def parse_check(toks, kwidents, kwtypes=None):
    """parameters [ KW ] . checked ( ) . satisfies ( PRED < T > ( ARGS ) ) [. orThrow ( )] ;   ->  VStep lean term"""
    if toks[:2] != ["parameters", "["] or toks[3] != "]" or toks[2] not in kwidents:
        raise TranslateError("not a parameter check: " + " ".join(toks))
    kw = toks[2]
    rest = toks[4:]
    if rest[:7] != [".", "checked", "(", ")", ".", "satisfies", "("] or rest[7] not in PREDICATES:
        raise TranslateError("unrecognised check chain: " + " ".join(toks))
    pred = rest[7]
    if rest[8] != "<":
        raise TranslateError("predicate without template argument: " + " ".join(toks))
    gt = rest.index(">", 8)
    ty = type_of(rest[9:gt])
    if ty not in ("int", "real"):
        raise TranslateError("predicate over non-numeric type: " + " ".join(toks))
    if rest[gt + 1] != "(":
        raise TranslateError("predicate not constructed by call: " + " ".join(toks))
    ce = match_close(rest, gt + 1)
    args = [a for a in split_top(rest[gt + 2:ce]) if a]
    if len(args) != PREDICATES[pred]:
        raise TranslateError("%s expects %d arguments: %s" % (pred, PREDICATES[pred], " ".join(toks)))
    if rest[ce + 1] != ")":
        raise TranslateError("satisfies( takes exactly one predicate: " + " ".join(toks))
    tail = rest[ce + 2:]
    if tail == [".", "orThrow", "(", ")", ";"]:
        throws = True
    elif tail == [";"]:
        throws = False
    else:
        raise TranslateError("unrecognised tail of check: " + " ".join(toks))
    lean_ty = "Ty.int" if ty == "int" else "Ty.real"
    if pred in ("Positivity", "NonNegativity"):
        p = "Pred.%s %s" % ("positivity" if pred == "Positivity" else "nonNegativity", lean_ty)
    else:
        bs = []
        for a in args:
            term, isint = BParser(a, kwtypes if kwtypes is not None else getattr(parse_check, 'kwtypes', {})).parse()
            if ty == "int" and not isint:
                raise TranslateError("floating bound converted to IndexType: " + " ".join(toks))
            bs.append(paren(term))
        p = "Pred.%s %s %s %s" % ("inRange" if pred == "InRange" else "inClosedRange", lean_ty, bs[0], bs[1])
    return "{ kw := Kw.%s, pred := %s, orThrow := %s }" % (kw, p, lean_bool(throws)), kw


LOCAL_TYPES = {"IndexType": True, "int": True, "ScalarType": False, "double": False, "auto": None}
CONTROL_WORDS = {"parameters", "throw", "return", "goto", "exit", "abort", "orThrow", "checked", "satisfies", "Parameter",
                 "throwIfInvalid", "invalidate", "terminate", "raise", "assert"}


def validate_items(body, kwidents, kwtypes, where, helpers, depth=0):
    """VStmt lean terms of a validate() body.  Understood: checks, guarded checks, local numeric definitions (substituted
    into later bounds), calls of argument-less member helpers (inlined), and statements that touch neither the parameters
    nor the control flow (opaque: logging, assertions on sizes, ... - they cannot change which exception is raised)."""
    if depth > 4:
        raise TranslateError("helper recursion in %s::validate()" % where)
    items = []
    for st in statements(body):
        if is_check_stmt(st):
            items.append("VStmt.check %s" % parse_check(st, kwidents)[0])
            continue
        if st[0] == "if":
            items.append(parse_guarded(st, kwidents, kwtypes, where))
            continue
        if st[:4] == ["Parameter", "::", "create", "("]:
            items.append(parse_check_value(st, kwtypes, where))
            continue
        # helper call:  name ( ) ;   /  this -> name ( ) ;
        core = st[2:] if st[:2] == ["this", "->"] else st
        if len(core) == 4 and core[1:] == ["(", ")", ";"] and core[0] in helpers:
            params, hb = helpers[core[0]]
            if params:
                raise TranslateError("helper %s with parameters called from %s::validate()" % (core[0], where))
            items += validate_items(hb, kwidents, kwtypes, where, helpers, depth + 1)
            continue
        # local definition:  [const] T name = expr ;
        d = [t for t in st if t != "const"]
        if len(d) >= 5 and d[0] in LOCAL_TYPES and re.fullmatch(r"[A-Za-z_]\w*", d[1]) and d[2] == "=" and d[-1] == ";":
            term, isint = BParser(d[3:-1], kwtypes).parse()
            want = LOCAL_TYPES[d[0]]
            if want is True and not isint:
                term, isint = "BExpr.toInt %s" % paren(term), True
            elif want is False and isint:
                term, isint = "BExpr.toReal %s" % paren(term), False
            BParser.env[d[1]] = (term, isint)
            continue
        if not (set(st) & CONTROL_WORDS) and not any(t in helpers for t in st):
            continue        # opaque statement
        raise TranslateError("unrecognised statement in %s::validate(): %s" % (where, " ".join(st)))
    return items


def parse_check_value(st, kwtypes, where):
    """Parameter :: create ( "name" , EXPR ) . checked ( ) . satisfies ( PRED < T > ( ARGS ) ) [. orThrow ( )] ;"""
    c = match_close(st, 3)
    args = split_top(st[4:c])
    if len(args) != 2 or len(args[0]) != 1 or not args[0][0].startswith('"'):
        raise TranslateError("unrecognised Parameter::create in %s::validate(): %s" % (where, " ".join(st)))
    vterm, visint = BParser(args[1], kwtypes).parse()
    rest = st[c + 1:]
    if rest[:7] != [".", "checked", "(", ")", ".", "satisfies", "("] or rest[7] not in PREDICATES or rest[8] != "<":
        raise TranslateError("unrecognised check chain in %s::validate(): %s" % (where, " ".join(st)))
    pred = rest[7]
    gt = rest.index(">", 8)
    ty = type_of(rest[9:gt])
    if ty not in ("int", "real") or (ty == "int") != visint:
        raise TranslateError("computed value and predicate type differ in %s::validate(): %s" % (where, " ".join(st)))
    ce = match_close(rest, gt + 1)
    pargs = [a for a in split_top(rest[gt + 2:ce]) if a]
    if len(pargs) != PREDICATES[pred] or rest[ce + 1] != ")":
        raise TranslateError("unrecognised predicate in %s::validate(): %s" % (where, " ".join(st)))
    tail = rest[ce + 2:]
    if tail == [".", "orThrow", "(", ")", ";"]:
        throws = True
    elif tail == [";"]:
        throws = False
    else:
        raise TranslateError("unrecognised tail of check in %s::validate(): %s" % (where, " ".join(st)))
    lean_ty = "Ty.int" if ty == "int" else "Ty.real"
    if pred in ("Positivity", "NonNegativity"):
        p = "Pred.%s %s" % ("positivity" if pred == "Positivity" else "nonNegativity", lean_ty)
    else:
        bs = []
        for a in pargs:
            term, isint = BParser(a, kwtypes).parse()
            if ty == "int" and not isint:
                raise TranslateError("floating bound converted to IndexType: " + " ".join(st))
            bs.append(paren(term))
        p = "Pred.%s %s %s %s" % ("inRange" if pred == "InRange" else "inClosedRange", lean_ty, bs[0], bs[1])
    return "VStmt.checkValue %s (%s) %s" % (paren(vterm), p, lean_bool(throws))


def opaque(st, extra=()):
    """a statement of the front end that touches neither the parameters, nor the callbacks, nor the control flow"""
    bad = CONTROL_WORDS | set(CALLBACK_MEMBERS) | {"n_vectors", "current_dimension", "begin", "end", "method", "context", "output",
                                                    "kernel_callback", "distance_callback", "features_callback", "catch", "try"} | set(extra)
    return not (set(st) & bad)


CMP = {">": "Cmp.gt", ">=": "Cmp.ge", "<": "Cmp.lt", "<=": "Cmp.le", "==": "Cmp.eq"}


def parse_guarded(st, kwidents, kwtypes, where):
    """if ( <bexpr> <cmp> <bexpr> ) <check> ;    (no else)"""
    c = match_close(st, 1)
    cond = st[2:c]
    body = st[c + 1:]
    if body and body[0] == "{":
        e = match_close(body, 0)
        if e != len(body) - 1:
            raise TranslateError("conditional with else in %s::validate()" % where)
        inner = statements(body[1:e])
        if len(inner) != 1:
            raise TranslateError("conditional block with %d statements in %s::validate()" % (len(inner), where))
        body = inner[0]
    if "else" in body or not is_check_stmt(body):
        raise TranslateError("unrecognised conditional in %s::validate(): %s" % (where, " ".join(st)))
    # split the condition at its single top-level comparison operator (not inside brackets / static_cast<>)
    depth = 0
    pos = None
    for k, t in enumerate(cond):
        if t in OPEN:
            depth += 1
        elif t in (")", "]", "}"):
            depth -= 1
        elif depth == 0 and t in CMP and not (t in ("<", ">") and k > 0 and (cond[k - 1] == "static_cast" or (k >= 2 and cond[k - 2] == "<" and cond[k - 3:k - 2] == ["static_cast"]))):
            if pos is not None:
                raise TranslateError("condition with several comparisons in %s::validate(): %s" % (where, " ".join(cond)))
            pos = k
    if pos is None:
        raise TranslateError("condition without comparison in %s::validate(): %s" % (where, " ".join(cond)))
    lhs, _ = BParser(cond[:pos], kwtypes).parse()
    rhs, _ = BParser(cond[pos + 1:], kwtypes).parse()
    return "VStmt.guarded %s %s %s %s" % (paren(lhs), CMP[cond[pos]], paren(rhs), parse_check(body, kwidents)[0])


def is_check_stmt(toks):
    return toks[:2] == ["parameters", "["] and find_seq(toks, [".", "checked", "("]) == 4


# ------------------------------------------------------------------------------------------------ implementation classes
def implementation_classes(pp, methods):
    """method ident -> (validate body tokens, embed body tokens)"""
    out = {}
    idents = [m["ident"] for m in methods]
    for fname, src in sorted(pp.items()):
        if not fname.startswith("tapkee/methods/") or fname == "tapkee/methods/base.hpp":
            continue
        toks = tokenize(src)
        i = 0
        while True:
            j = -1
            for k in range(i, len(toks) - 1):
                if toks[k] == "class" and toks[k + 1].endswith("Implementation") and toks[k + 1] != "DynamicImplementation":
                    j = k
                    break
            if j < 0:
                break
            cname = toks[j + 1]
            ident = cname[:-len("Implementation")]
            if ident not in idents:
                raise TranslateError("implementation class %s has no method constant" % cname)
            b = toks.index("{", j)
            e = match_close(toks, b)
            body = toks[b + 1:e]
            members = class_members(body, cname)
            if "validate" not in members or "embed" not in members:
                raise TranslateError("%s lacks validate() or embed()" % cname)
            if members["validate"][0] or members["embed"][0]:
                raise TranslateError("%s: validate()/embed() take arguments" % cname)
            if ident in out:
                raise TranslateError("two implementation classes for " + ident)
            local_helpers = {k: v for k, v in members.items() if k not in ("validate", "embed")}
            out[ident] = (members["validate"][1], members["embed"][1], fname, local_helpers)
            i = e
    missing = [m for m in idents if m not in out]
    if missing:
        raise TranslateError("methods without implementation class: %s" % missing)
    return out


def class_members(body, cname):
    """member functions with bodies of an Implementation class (ctor, typedef, using are skipped explicitly)"""
    members = {}
    i = 0
    n = len(body)
    while i < n:
        t = body[i]
        if t in ("public", "protected", "private") and body[i + 1] == ":":
            i += 2
            continue
        if t in ("typedef", "using"):
            i = body.index(";", i) + 1
            continue
        if t == "template" and body[i + 1] == "<":
            depth, k = 0, i + 1
            while True:
                if body[k] == "<":
                    depth += 1
                elif body[k] == ">":
                    depth -= 1
                    if depth == 0:
                        break
                k += 1
            i = k + 1
            continue
        if t == cname:      # constructor
            p = match_close(body, i + 1)
            k = body.index("{", p)
            i = match_close(body, k) + 1
            continue
        if t == "static" or t == "constexpr":       # static constants
            i = body.index(";", i) + 1
            continue
        # return-type tokens, name, '(' ... ')' [const] '{' ... '}'
        k = i
        while k < n and body[k] != "(":
            if body[k] in (";", "{", "}"):
                raise TranslateError("unrecognised class member in %s: %s" % (cname, " ".join(body[i:k + 3])))
            k += 1
        name = body[k - 1]
        p = match_close(body, k)
        q = p + 1
        while q < n and body[q] in ("const", "noexcept", "override"):
            q += 1
        if q >= n or body[q] != "{":
            raise TranslateError("member %s of %s has no inline body" % (name, cname))
        e = match_close(body, q)
        params = [a[-1] for a in split_top(body[k + 1:p]) if a]
        members[name] = (params, body[q + 1:e])
        i = e + 1
    return members


# ------------------------------------------------------------------------------------------------ embed() events
class EventScanner:
    """ordered events of a statement (DESIGN §6 C13/C14): parameter reads, `.is(..)` tests, inlined helpers,
    uses of callback members.  Arguments are evaluated before the callee runs, so for a call the reads inside
    the argument list come first, then the inlined helper body, then the uses of the callback members passed."""

    def __init__(self, kwidents, helpers):
        self.kw = kwidents
        self.helpers = helpers       # name -> (param names, body events builder)

    def scan(self, toks, bind=None):
        """returns list of events; event = ('read', kw) | ('is', kw, lit) | ('use', cb, member) | ('check', leanterm, kw) | ('dim',)"""
        bind = bind or {}
        ev = []
        i = 0
        n = len(toks)
        while i < n:
            t = toks[i]
            if t == "parameters" and i + 3 < n and toks[i + 1] == "[":
                if toks[i + 2] not in self.kw or toks[i + 3] != "]":
                    raise TranslateError("parameters[...] with a non-keyword index: " + " ".join(toks[i:i + 6]))
                kw = toks[i + 2]
                j = i + 4
                if toks[j:j + 3] == [".", "is", "("]:
                    c = match_close(toks, j + 2)
                    ev.append(("is", kw, toks[j + 3:c]))
                    i = c + 1
                    continue
                if toks[j:j + 3] == [".", "checked", "("]:
                    # up to and including orThrow()/; handled by the caller for whole statements; inline form:
                    k = j
                    while k < n and toks[k] != ";":
                        if toks[k] in OPEN:
                            k = match_close(toks, k)
                        k += 1
                    term, ckw = parse_check(toks[i:k] + [";"], self.kw)
                    ev.append(("check", term, ckw))
                    i = k
                    continue
                if j < n and toks[j] == ".":
                    raise TranslateError("unknown operation on a parameter: " + " ".join(toks[i:j + 3]))
                ev.append(("read", kw))
                i = j
                continue
            if t == "parameters":
                # the whole set handed on / other uses are not understood
                raise TranslateError("`parameters` used other than by parameters[keyword]: " + " ".join(toks[max(0, i - 3):i + 4]))
            # member access on a callback: features.dimension()
            mem = self.member_at(toks, i, bind)
            if mem is not None:
                name, length = mem
                j = i + length
                if j < n and toks[j] == ".":
                    if toks[j + 1] == "dimension" and CALLBACK_MEMBERS[name] == "features":
                        ev.append(("dim",))
                        i = match_close(toks, j + 2) + 1
                        continue
                    # direct invocation of a callback inside embed(): treat as a use
                    ev.append(("use", CALLBACK_MEMBERS[name], name))
                    i = j + 2
                    continue
                ev.append(("use", CALLBACK_MEMBERS[name], name))
                i = j
                continue
            # call: IDENT ( args )
            if re.fullmatch(r"[A-Za-z_]\w*", t) and i + 1 < n and toks[i + 1] == "(" and t not in ("if", "for", "while", "return", "sizeof", "static_cast"):
                c = match_close(toks, i + 1)
                args = split_top(toks[i + 2:c])
                prev = toks[i - 1] if i > 0 else None
                if t in self.helpers and prev not in (".", "->", "::"):
                    params, body = self.helpers[t]
                    if len(args) != len(params):
                        raise TranslateError("helper %s called with %d arguments" % (t, len(args)))
                    inner, uses, b2 = [], [], {}
                    for p, a in zip(params, args):
                        m = self.member_at(a, 0, bind)
                        if m is not None and m[1] == len(a):
                            b2[p] = m[0]
                        else:
                            inner += self.scan(a, bind)
                    ev += inner + self.scan(body, b2)
                else:
                    inner, uses = [], []
                    for a in args:
                        m = self.member_at(a, 0, bind)
                        if m is not None and m[1] == len(a):
                            uses.append(("use", CALLBACK_MEMBERS[m[0]], m[0]))
                        else:
                            inner += self.scan(a, bind)
                    ev += inner + uses
                i = c + 1
                continue
            i += 1
        return ev

    @staticmethod
    def member_at(toks, i, bind):
        """(member name, token length) if toks[i:] starts with a callback member (`kernel`, `this->features`, a bound helper parameter)"""
        if i >= len(toks):
            return None
        prev = toks[i - 1] if i > 0 else None
        if toks[i] == "this" and toks[i + 1:i + 2] == ["->"] and i + 2 < len(toks) and toks[i + 2] in CALLBACK_MEMBERS:
            return toks[i + 2], 3
        if prev in (".", "->", "::"):
            return None
        if toks[i] in bind:
            return bind[toks[i]], 1
        if toks[i] in CALLBACK_MEMBERS:
            return toks[i], 1
        return None


def lean_events(evs):
    out = []
    for e in evs:
        if e[0] == "read":
            out.append("Ev.read Kw.%s" % e[1])
        elif e[0] == "use":
            out.append("Ev.use Cb.%s %s" % (e[1], lean_str(e[2])))
        elif e[0] == "check":
            out.append("Ev.check %s" % e[1])
        elif e[0] == "dim":
            out.append("Ev.dimension")
        elif e[0] == "is":
            pass     # a bare `.is()` outside an if-condition has no effect on control flow of the model
        else:
            raise TranslateError("unknown event " + repr(e))
    return out


def is_literal(toks, aux):
    """Lean `Val` of the literal inside `.is( … )`"""
    if toks in (["true"], ["false"]):
        return "Val.bool %s" % toks[0]
    if len(toks) == 1:
        for kind, ctor, enum in (("NeighborsMethod", "neighbors", "NbrMeth"), ("EigenMethod", "eigen", "EigMeth"),
                                 ("ComputationStrategy", "strategy", "Strat")):
            if toks[0] in [r[0] for r in aux[kind]]:
                return "Val.%s %s.%s" % (ctor, enum, toks[0])
        if re.fullmatch(r"\d+", toks[0]):
            return "Val.int %s" % toks[0]
    raise TranslateError("unsupported literal in .is(): " + " ".join(toks))


def head_name(stmt):
    """a short human-readable label of a statement: the first called function / declared variable"""
    for k in range(len(stmt) - 1):
        if re.fullmatch(r"[A-Za-z_]\w*", stmt[k]) and stmt[k + 1] == "(" and stmt[k] not in ("if", "for", "while", "static_cast"):
            return stmt[k]
    return stmt[0]


def embed_statements(body, scanner, aux):
    """EStmt lean terms of an embed() body"""
    out = []
    nstmts = 0
    for st in statements(body):
        nstmts += 1
        if st[0] == "if":
            c = match_close(st, 1)
            cond = st[2:c]
            cev = scanner.scan(cond)
            rest = st[c + 1:]
            te = _stmt_end(rest, 0)
            thn = rest[:te]
            els = rest[te + 1:] if te < len(rest) and rest[te] == "else" else []
            if te < len(rest) and rest[te] != "else":
                raise TranslateError("malformed if statement")

            def branch(b):
                if not b:
                    return []
                inner = b[1:-1] if b[0] == "{" else b
                res = []
                for s2 in statements(inner):
                    if s2[0] in ("if",):
                        ev2 = scanner.scan(s2)
                        if ev2:
                            raise TranslateError("nested conditional with parameter/callback events in embed()")
                        continue
                    ev2 = lean_events(scanner.scan(s2))
                    if ev2:
                        res.append("(%s, %s)" % (lean_str(head_name(s2)), "[" + ", ".join(ev2) + "]"))
                return res
            tb, eb = branch(thn), branch(els)
            iss = [e for e in cev if e[0] == "is"]
            others = [e for e in cev if e[0] != "is"]
            if (len(iss) == 1 and not others and len(cond) >= 8 and cond[:2] == ["parameters", "["] and
                    cond[3:7] == ["]", ".", "is", "("] and match_close(cond, 6) == len(cond) - 1):
                out.append("EStmt.ifIs Kw.%s (%s) [%s] [%s]" % (iss[0][1], is_literal(iss[0][2], aux), ", ".join(tb), ", ".join(eb)))
            elif not cev and not tb and not eb:
                continue
            else:
                raise TranslateError("conditional in embed() whose condition is not `parameters[kw].is(literal)` but whose branches read parameters or use callbacks: " + " ".join(cond))
            continue
        evs = lean_events(scanner.scan(st))
        if evs:
            out.append("EStmt.plain %s [%s]" % (lean_str(head_name(st)), ", ".join(evs)))
    return out, nstmts


# ------------------------------------------------------------------------------------------------ base.hpp
def parse_base(pp, kwidents):
    toks = tokenize(pp["tapkee/methods/base.hpp"])
    ci = find_seq(toks, ["class", "ImplementationBase"])
    if ci < 0:
        raise TranslateError("class ImplementationBase not found")
    b = toks.index("{", ci)
    e = match_close(toks, b)
    cls = toks[b + 1:e]
    # first constructor (the one taking the iterators)
    fb = function_body(cls, ["ImplementationBase"])
    if fb is None:
        raise TranslateError("ImplementationBase constructor not found")
    body, params, inits = fb
    pnames = [p[-1] for p in split_top(params)]
    if len(pnames) != 7:
        raise TranslateError("ImplementationBase ctor signature changed: %s" % pnames)
    # member-init wiring kernel(k), distance(d), features(f)
    wiring = {}
    for it in split_top(inits[1:] if inits and inits[0] == ":" else inits):
        if len(it) >= 4 and it[1] == "(":
            wiring[it[0]] = it[2:-1]
    want = {"kernel": [pnames[2]], "distance": [pnames[3]], "features": [pnames[4]]}
    for mname_, arg in want.items():
        if wiring.get(mname_) != arg:
            raise TranslateError("ImplementationBase ctor: member %s is initialised from %s, expected %s" % (mname_, wiring.get(mname_), arg))
    if find_seq(wiring.get("plain_distance", []), ["(", "distance", ")"]) < 0 or find_seq(wiring.get("kernel_distance", []), ["(", "kernel", ")"]) < 0:
        raise TranslateError("plain_distance / kernel_distance no longer wrap distance / kernel")
    steps = []
    for st in statements(body):
        if st == ["n_vectors", "=", "(", "end", "-", "begin", ")", ";"]:
            steps.append("FrontStep.countN")
        elif st == ["if", "(", "n_vectors", "==", "0", ")", "throw", "no_data_error", "(", ")", ";"]:
            steps.append("FrontStep.noData")
        elif is_check_stmt(st):
            term, _ = parse_check(st, kwidents)
            steps.append("FrontStep.check (%s)" % term)
        elif st == ["if", "(", "!", "is_dummy", "<", "FeaturesCallback", ">", "::", "value", ")", "current_dimension", "=",
                    "features", ".", "dimension", "(", ")", ";", "else", "current_dimension", "=", "0", ";"]:
            steps.append("FrontStep.dimension")
        elif opaque(st):
            continue            # no effect on parameters, callbacks or control flow: not a step of the model
        else:
            raise TranslateError("unrecognised statement in ImplementationBase ctor: " + " ".join(st))
    # helpers
    helpers = {}
    for h in ("find_neighbors_with", "eigendecomposition_via"):
        fb = function_body(cls, [h])
        if fb is None:
            raise TranslateError("helper %s not found in ImplementationBase" % h)
        hb, hp, _ = fb
        helpers[h] = ([p[-1] for p in split_top(hp)], hb)
    return steps, helpers


# ------------------------------------------------------------------------------------------------ embed.hpp / methods.hpp
def exc_class(toks):
    """(ns, class) of `const std::bad_alloc&` / `tapkee::wrong_parameter_error`"""
    t = [x for x in toks if x not in ("const", "&")]
    if t and re.fullmatch(r"[A-Za-z_]\w*", t[-1]) and len(t) >= 2 and t[-2] != "::":
        t = t[:-1]          # exception variable name
    if len(t) == 3 and t[1] == "::" and t[0] in ("std", "stichwort", "tapkee") and t[2] in ERR_CLASSES:
        return t[0], t[2]
    if len(t) == 1 and t[0] in ERR_CLASSES:
        return "tapkee", t[0]
    raise TranslateError("unknown exception class " + " ".join(toks))


def parse_embed_front(pp, kwidents, ctor_steps, mt, methods, kwtypes):
    toks = tokenize(pp["tapkee/embed.hpp"])
    fi = find_seq(toks, ["TapkeeOutput", "embed", "("])
    if fi < 0:
        raise TranslateError("tapkee::embed not found")
    p = match_close(toks, fi + 2)
    params = [x[-1] for x in split_top(toks[fi + 3:p])]
    if len(params) != 6:
        raise TranslateError("tapkee::embed signature changed")
    b = p + 1
    e = match_close(toks, b)
    body = toks[b + 1:e]
    ti = body.index("try")
    te = match_close(body, ti + 1)
    pre = statements(body[:ti])
    for st in pre:
        if st not in (["Eigen", "::", "initParallel", "(", ")", ";"], ["TapkeeOutput", "output", ";"]) and not opaque(st, ("parameters",)):
            raise TranslateError("unrecognised statement before the try block of embed(): " + " ".join(st))
    steps = []
    embed_using = parse_embed_using(mt, methods)
    for st in statements(body[ti + 2:te]):
        if st == ["parameters", ".", "check", "(", ")", ";"]:
            steps.append("FrontStep.checkDuplicates")
        elif st == ["parameters", ".", "merge", "(", "tapkee_internal", "::", "defaults", ")", ";"]:
            steps.append("FrontStep.mergeDefaults")
        elif st[:4] == ["parameters", ".", "visit", "("] and "message_debug" in st:
            steps.append("FrontStep.echo")
        elif len(st) > 6 and st[-5:-3] == ["parameters", "["] and st[-2:] == ["]", ";"] and st[-6] == "=":
            kw = st[-3]
            if kw not in kwidents:
                raise TranslateError("read of unknown keyword " + kw)
            decl = st[:-6]
            # type tokens = declaration without the variable name
            if "(" in decl:      # function pointer: T ( * name ) ( args )
                k = decl.index("*")
                ty = type_of(decl[:k + 1] + decl[k + 2:])
            else:
                ty = type_of(decl[:-1])
            if ty != kwtypes[kw]:
                raise TranslateError("embed() converts keyword %s to %s, its declared type is %s" % (kw, ty, kwtypes[kw]))
            steps.append("FrontStep.read Kw.%s" % kw)
        elif st[:4] == ["tapkee_internal", "::", "Context", "context"]:
            args = split_top(st[5:match_close(st, 4)])
            if [a[0] for a in args] != ["progress_function_ptr", "cancel_function_ptr"]:
                raise TranslateError("Context constructed from unexpected arguments")
            steps.append("FrontStep.context")
        elif st[:5] == ["Logging", "::", "instance", "(", ")"]:
            continue            # logging: not a step of the model
        elif st[:5] == ["output", "=", "tapkee_internal", "::", "initialize"]:
            c = match_close(st, 5)
            args = [a for a in split_top(st[6:c])]
            want = [[params[0]], [params[1]], [params[2]], [params[3]], [params[4]], [params[5]], ["context"]]
            if args != want:
                raise TranslateError("initialize() receives %s, expected the arguments of embed() in order" % args)
            if st[c + 1:] != [".", "embedUsing", "(", "selected_method", ")", ";"]:
                raise TranslateError("unexpected continuation after initialize(...)")
            steps += ctor_steps
            steps += embed_using
        elif opaque(st):
            continue            # no effect on parameters, callbacks or control flow: not a step of the model
        else:
            raise TranslateError("unrecognised statement in embed(): " + " ".join(st))
    # catch clauses
    rethrow = []
    i = te + 1
    while i < len(body) and body[i] == "catch":
        c = match_close(body, i + 1)
        ns, cls = exc_class(body[i + 2:c])
        hb = match_close(body, c + 1)
        handler = body[c + 2:hb]
        if handler[0] != "throw":
            raise TranslateError("catch handler does not rethrow")
        k = handler.index("(")
        ns2, cls2 = exc_class(handler[1:k])
        rethrow.append((ns, cls, ns2, cls2))
        i = hb + 1
    rest = statements(body[i:])
    if rest != [["return", "output", ";"]]:
        raise TranslateError("unexpected statements after the catch clauses of embed()")
    # initialize() must pass the callbacks straight through
    ii = find_seq(mt, ["initialize", "("])
    ip = match_close(mt, ii + 1)
    ipar = [x[-1] for x in split_top(mt[ii + 2:ip])]
    ib = mt.index("{", ip)
    ibody = mt[ib + 1:match_close(mt, ib)]
    k = find_seq(ibody, [">", "("])
    if ibody[0] != "return" or k < 0:
        raise TranslateError("initialize() body changed")
    iargs = split_top(ibody[k + 2:match_close(ibody, k + 1)])
    if iargs != [[x] for x in ipar]:
        raise TranslateError("initialize() no longer forwards its arguments in order: %s" % iargs)
    # stichwort exception classes
    st = tokenize(pp["stichwort/exceptions.hpp"])
    sclasses = []
    for k in range(len(st) - 1):
        if st[k] == "class" and st[k + 2] == ":":
            if st[k + 1] not in ERR_CLASSES:
                raise TranslateError("unknown stichwort exception class " + st[k + 1])
            sclasses.append(st[k + 1])
    return steps, rethrow, sclasses


def parse_embed_using(mt, methods):
    ci = find_seq(mt, ["class", "DynamicImplementation"])
    fb = function_body(mt[ci:], ["TapkeeOutput", "embedUsing"])
    if fb is None:
        raise TranslateError("DynamicImplementation::embedUsing not found")
    body, _, _ = fb
    steps = []
    dispatch = []
    idents = [m["ident"] for m in methods]
    cbname = {"kernel": "KernelCallback", "distance": "DistanceCallback", "features": "FeaturesCallback"}
    for st in statements(body):
        if st[:2] == ["timed_context", "tctx__"]:
            continue
        elif st == ["if", "(", "this", "->", "context", ".", "is_cancelled", "(", ")", ")", "throw", "cancelled_exception", "(", ")", ";"]:
            steps.append("FrontStep.cancel")
        elif st[:4] == ["if", "(", "method", "."] and st[4].startswith("needs_"):
            cb = st[4][len("needs_"):]
            if cb not in cbname:
                raise TranslateError("unknown needs_ flag " + st[4])
            want = ["if", "(", "method", ".", "needs_" + cb, "&&", "is_dummy", "<", cbname[cb], ">", "::", "value", ")", "{", "throw",
                    "unsupported_method_error", "("]
            if st[:len(want)] != want or not st[len(want)].startswith('"') or st[len(want) + 1:] != [")", ";", "}"]:
                raise TranslateError("unrecognised needs_ check: " + " ".join(st))
            steps.append("FrontStep.needs Cb.%s" % cb)
        elif st[:4] == ["const", "auto", "&", "self"]:
            continue
        elif st[:5] == ["if", "(", "method", "==", st[4]] and st[5] == ")":
            x = st[4]
            if x not in idents:
                raise TranslateError("dispatch on unknown method " + x)
            blk = st[7:match_close(st, 6)]
            inner = statements(blk)
            if len(inner) != 3:
                raise TranslateError("dispatch block of %s changed" % x)
            if inner[0][:4] != ["auto", "implementation", "=", x + "Implementation"] or inner[0][-5:] != [">", "(", "self", ")", ";"]:
                raise TranslateError("dispatch block of %s constructs an unexpected class" % x)
            seq = []
            for s2 in inner[1:]:
                if s2 == ["implementation", ".", "validate", "(", ")", ";"]:
                    seq.append("DispatchStep.validate")
                elif s2 == ["return", "implementation", ".", "embed", "(", ")", ";"]:
                    seq.append("DispatchStep.embed")
                else:
                    raise TranslateError("unrecognised statement in dispatch block of %s: %s" % (x, " ".join(s2)))
            dispatch.append((x, seq))
            if not steps or steps[-1] != "FrontStep.dispatch":
                steps.append("FrontStep.dispatch")
        elif st == ["return", "TapkeeOutput", "(", ")", ";"]:
            continue
        elif opaque(st):
            continue            # no effect on parameters, callbacks or control flow: not a step of the model
        else:
            raise TranslateError("unrecognised statement in embedUsing(): " + " ".join(st))
    parse_embed_using.dispatch = dispatch
    return steps


# ------------------------------------------------------------------------------------------------ predicates.hpp
class PBodyParser:
    """`return <expr>;` of a predicate's operator()(T v): comparisons of v / lower / upper / literals under && || !"""

    def __init__(self, toks, where):
        self.t, self.i, self.where = toks, 0, where

    def peek(self):
        return self.t[self.i] if self.i < len(self.t) else None

    def take(self):
        t = self.peek()
        self.i += 1
        return t

    def fail(self, msg):
        raise TranslateError("%s in predicate %s: %s" % (msg, self.where, " ".join(self.t)))

    def parse(self):
        r = self.disj()
        if self.peek() is not None:
            self.fail("trailing tokens")
        return r

    def disj(self):
        l = self.conj()
        while self.peek() == "||":
            self.take()
            l = "PBody.or (%s) (%s)" % (l, self.conj())
        return l

    def conj(self):
        l = self.neg()
        while self.peek() == "&&":
            self.take()
            l = "PBody.and (%s) (%s)" % (l, self.neg())
        return l

    def neg(self):
        if self.peek() == "!":
            self.take()
            return "PBody.not (%s)" % self.neg()
        if self.peek() == "(":
            # parenthesised boolean expression or parenthesised comparison
            save = self.i
            self.take()
            r = self.disj()
            if self.take() != ")":
                self.fail("unbalanced parentheses")
            return r
        return self.comparison()

    def atom(self):
        t = self.take()
        if t == "v":
            return "PAtom.v"
        if t in ("lower", "upper"):
            return "PAtom." + t
        neg = False
        if t == "-":
            neg, t = True, self.take()
        if t is not None and re.match(r"[\d.]", t):
            _, val = number_value(t)
            return "PAtom.lit %s" % lean_rat(-val if neg else val)
        self.fail("unsupported operand %r" % t)

    def comparison(self):
        a = self.atom()
        op = self.take()
        if op not in CMP:
            self.fail("expected a comparison operator, got %r" % op)
        b = self.atom()
        return "PBody.cmp %s %s %s" % (paren(a), CMP[op], paren(b))


def parse_predicates(pp):
    toks = tokenize(pp["tapkee/predicates.hpp"])
    out = {}
    for name, ctor in (("Positivity", "positivity"), ("NonNegativity", "nonNegativity"), ("InRange", "inRange"),
                       ("InClosedRange", "inClosedRange")):
        i = find_seq(toks, ["struct", name])
        if i < 0:
            raise TranslateError("predicate %s not found" % name)
        b = toks.index("{", i)
        body = toks[b + 1:match_close(toks, b)]
        fb = function_body(body, ["operator", "(", ")"])
        if fb is None:
            raise TranslateError("predicate %s has no operator()" % name)
        fbody, params, _ = fb
        pn = [a[-1] for a in split_top(params)]
        if pn != ["v"]:
            # normalise the parameter name
            if len(pn) != 1:
                raise TranslateError("predicate %s: operator() takes %d arguments" % (name, len(pn)))
            fbody = ["v" if t == pn[0] else t for t in fbody]
        sts = statements(fbody)
        if len(sts) != 1 or sts[0][0] != "return" or sts[0][-1] != ";":
            raise TranslateError("predicate %s: operator() is not a single return statement" % name)
        out[ctor] = PBodyParser(sts[0][1:-1], name).parse()
        # the constructor must store its arguments in lower / upper in order
        if PREDICATES[name] == 2:
            c = function_body(body, [name])
            if c is None:
                raise TranslateError("predicate %s has no constructor" % name)
            _, cparams, inits = c
            cp = [a[-1] for a in split_top(cparams)]
            if find_seq(inits, ["lower", "(", cp[0], ")"]) < 0 or find_seq(inits, ["upper", "(", cp[1], ")"]) < 0:
                raise TranslateError("predicate %s: constructor does not initialise lower/upper from its arguments in order" % name)
    return out


# ------------------------------------------------------------------------------------------------ main entry
def translate(ctx=None, repo=None, repo_hash=None, outdir=None):
    repo = repo or vlib.REPO
    repo_hash = repo_hash or (ctx.repo_hash if ctx else vlib.repo_hash())
    outdir = outdir or os.path.join(vlib.LEAN_DIR, "TapkeeVerif", "Gen")
    pp = preprocess(repo, repo_hash)
    for need in ("tapkee/defines/methods.hpp", "tapkee/defines/keywords.hpp", "tapkee/parameters/defaults.hpp",
                 "tapkee/methods/base.hpp", "tapkee/embed.hpp", "tapkee/methods.hpp", "stichwort/exceptions.hpp",
                 "tapkee/defines/types.hpp"):
        if need not in pp:
            raise TranslateError("header %s not reached by the preprocessor" % need)
    check_typedefs(pp)
    methods, aux, strategies, mdefaults, mt = parse_methods(pp)
    kwrows, indefaults = parse_keywords(repo, pp, methods, aux, mdefaults)
    kwidents = [r["ident"] for r in kwrows]
    kwtypes = {r["ident"]: r["ty"] for r in kwrows}
    parse_check.kwtypes = kwtypes
    ctor_steps, helpers = parse_base(pp, kwidents)
    scanner = EventScanner(kwidents, helpers)
    impls = implementation_classes(pp, methods)
    front_steps, rethrow, sclasses = parse_embed_front(pp, kwidents, ctor_steps, mt, methods, kwtypes)
    dispatch = parse_embed_using.dispatch
    files = {}
    if "tapkee/predicates.hpp" not in pp:
        raise TranslateError("header tapkee/predicates.hpp not reached by the preprocessor")
    pbodies = parse_predicates(pp)
    L = [HEADER % "include/tapkee/predicates.hpp", "import TapkeeVerif.Model.FrontTypes", "namespace TapkeeVerif.Gen",
         "open TapkeeVerif.Front", "",
         "/-- the expression `operator()(T v)` of each predicate template returns (comparisons are IEEE comparisons) -/",
         "def predBody : PredKind → PBody"]
    for ctor in ("positivity", "nonNegativity", "inRange", "inClosedRange"):
        L.append("  | .%s => %s" % (ctor, pbodies[ctor]))
    L.append("\nend TapkeeVerif.Gen\n")
    files["Predicates.lean"] = "\n".join(L)
    src_note = "include/tapkee/{defines/methods.hpp, methods.hpp}"

    # ---- Gen/Methods
    L = [HEADER % src_note, "import TapkeeVerif.Model.FrontTypes", "namespace TapkeeVerif.Gen", "open TapkeeVerif.Front", ""]
    L.append("/-- `static const DimensionReductionMethod X(...)` constants of defines/methods.hpp, in source order -/")
    L.append("inductive Meth where")
    for m in methods:
        L.append("  | %s" % mname(m["ident"]))
    L.append("  deriving DecidableEq, Repr, Inhabited\n")
    for kind, enum in (("NeighborsMethod", "NbrMeth"), ("EigenMethod", "EigMeth"), ("ComputationStrategy", "Strat")):
        L.append("inductive %s where" % enum)
        for ident, _ in aux[kind]:
            L.append("  | %s" % ident)
        L.append("  deriving DecidableEq, Repr, Inhabited\n")
    L.append("def Meth.all : List Meth := [%s]\n" % ", ".join(".%s" % mname(m["ident"]) for m in methods))
    L.append("def Meth.ident : Meth → String")
    for m in methods:
        L.append("  | .%s => %s" % (mname(m["ident"]), lean_str(m["ident"])))
    L.append("\n/-- the `name()` string (what the debug echo prints) -/")
    L.append("def Meth.cname : Meth → String")
    for m in methods:
        L.append("  | .%s => %s" % (mname(m["ident"]), lean_str(m["name"])))
    L.append("\n/-- declared needs (needs_kernel, needs_distance, needs_features) through the traits constant named in the source -/")
    L.append("def Meth.traits : Meth → Traits")
    for m in methods:
        L.append("  | .%s => { needsKernel := %s, needsDistance := %s, needsFeatures := %s }  -- %s" % (
            mname(m["ident"]), lean_bool(m["needs"][0]), lean_bool(m["needs"][1]), lean_bool(m["needs"][2]), m["traits_name"]))
    for kind, enum in (("NeighborsMethod", "NbrMeth"), ("EigenMethod", "EigMeth"), ("ComputationStrategy", "Strat")):
        L.append("\ndef %s.all : List %s := [%s]" % (enum, enum, ", ".join("." + i for i, _ in aux[kind])))
        L.append("def %s.ident : %s → String" % (enum, enum))
        for ident, _ in aux[kind]:
            L.append("  | .%s => %s" % (ident, lean_str(ident)))
        L.append("def %s.cname : %s → String" % (enum, enum))
        for ident, nm in aux[kind]:
            L.append("  | .%s => %s" % (ident, lean_str(nm)))
    L.append("\n/-- order of the `tapkee_method_handle(X)` lines of DynamicImplementation::embedUsing, with the calls each block makes -/")
    L.append("def dispatch : List (Meth × List DispatchStep) := " + lean_list(
        ["(.%s, [%s])" % (mname(x), ", ".join(s)) for x, s in dispatch]))
    L.append("\n/-- EigendecompositionStrategy constants: (identifier, name, skip) -/")
    L.append("def eigenStrategies : List (String × String × Nat) := " + lean_list(
        ["(%s, %s, %d)" % (lean_str(a), lean_str(b), c) for a, b, c in strategies]))
    L.append("\nend TapkeeVerif.Gen\n")
    files["Methods.lean"] = "\n".join(L)

    # ---- Gen/Keywords
    L = [HEADER % "include/tapkee/defines/keywords.hpp (declarations and doc comments), parameters/defaults.hpp",
         "import TapkeeVerif.Model.FrontVal", "namespace TapkeeVerif.Gen", "open TapkeeVerif.Front", ""]
    L.append("inductive Kw where")
    for r in kwrows:
        L.append("  | %s" % r["ident"])
    L.append("  deriving DecidableEq, Repr, Inhabited\n")
    L.append("def Kw.all : List Kw := [%s]\n" % ", ".join("." + r["ident"] for r in kwrows))
    L.append("def Kw.ident : Kw → String")
    for r in kwrows:
        L.append("  | .%s => %s" % (r["ident"], lean_str(r["ident"])))
    L.append("\n/-- the parameter name string the keyword carries -/")
    L.append("def Kw.cname : Kw → String")
    for r in kwrows:
        L.append("  | .%s => %s" % (r["ident"], lean_str(r["name"])))
    L.append("\n/-- template argument of `ParameterKeyword<T>` -/")
    L.append("def Kw.ty : Kw → Ty")
    for r in kwrows:
        L.append("  | .%s => Ty.%s" % (r["ident"], r["ty"]))
    L.append("\n/-- second constructor argument (`default_value`) -/")
    L.append("def Kw.default : Kw → Val")
    for r in kwrows:
        L.append("  | .%s => %s  -- %s" % (r["ident"], r["default"], " ".join(r["default_toks"])))
    L.append("\n/-- the \"Default value is …\" sentence of the keyword's doc comment, read as a value of the keyword's type\n    (`none`: the comment has no such sentence) -/")
    L.append("def Kw.documented : Kw → Option Val")
    for r in kwrows:
        L.append("  | .%s => %s  -- %s" % (r["ident"], ("some (%s)" % r["documented"]) if r["documented"] else "none",
                                         r["documented_text"] or "(no sentence)"))
    L.append("\n/-- keywords assigned `by_default` in `tapkee_internal::defaults`, in source order -/")
    L.append("def defaultsList : List Kw := [%s]" % ", ".join("." + k for k in indefaults))
    L.append("\nend TapkeeVerif.Gen\n")
    files["Keywords.lean"] = "\n".join(L)

    # ---- Gen/Validate
    L = [HEADER % "include/tapkee/methods/*.hpp validate(), methods/base.hpp (constructor, find_neighbors_with)",
         "import TapkeeVerif.Model.FrontSyntax", "namespace TapkeeVerif.Gen", "open TapkeeVerif.Front", ""]
    L.append("/-- `validate()` of each implementation class: the checks in source order -/")
    L.append("def validate : Meth → List VStmt")
    for m in methods:
        vb = impls[m["ident"]][0]
        BParser.env = {}
        items = validate_items(vb, kwidents, kwtypes, m["ident"], impls[m["ident"]][3])
        BParser.env = {}
        L.append("  | .%s => %s" % (mname(m["ident"]), lean_list(items, "    ")))
    L.append("\nend TapkeeVerif.Gen\n")
    files["Validate.lean"] = "\n".join(L)

    # ---- Gen/EmbedBodies
    L = [HEADER % "include/tapkee/methods/*.hpp embed(), helpers of methods/base.hpp inlined",
         "import TapkeeVerif.Model.FrontSyntax", "namespace TapkeeVerif.Gen", "open TapkeeVerif.Front", ""]
    L.append("/-- `embed()` of each implementation class: statements that read a parameter or hand a callback member on,\n    in source order; inside a statement arguments (parameter reads) come before the callee's own events -/")
    L.append("def embedBody : Meth → List EStmt")
    proj = []
    for m in methods:
        eb = impls[m["ident"]][1]
        sc = EventScanner(kwidents, dict(helpers, **impls[m["ident"]][3])) if impls[m["ident"]][3] else scanner
        items, nst = embed_statements(eb, sc, aux)
        L.append("  | .%s => %s" % (mname(m["ident"]), lean_list(items, "    ")))
        rets = [s for s in statements(eb) if s[0] == "return"]
        if len(rets) != 1:
            raise TranslateError("%s::embed() does not have exactly one top-level return" % m["ident"])
        proj.append((m["ident"], "unimplementedProjectingFunction" not in rets[0]))
    L.append("\n/-- does `embed()` return a real projecting function (not `unimplementedProjectingFunction()`)? -/")
    L.append("def returnsProjection : Meth → Bool")
    for ident, p in proj:
        L.append("  | .%s => %s" % (mname(ident), lean_bool(p)))
    L.append("\nend TapkeeVerif.Gen\n")
    files["EmbedBodies.lean"] = "\n".join(L)

    # ---- Gen/EmbedFront
    L = [HEADER % "include/tapkee/embed.hpp, methods.hpp (initialize, embedUsing), methods/base.hpp (constructor), stichwort/exceptions.hpp",
         "import TapkeeVerif.Model.FrontSyntax", "namespace TapkeeVerif.Gen", "open TapkeeVerif.Front", ""]
    L.append("/-- what `tapkee::embed` does, in order: its try block with `initialize(...)` (= base constructor) and\n    `.embedUsing(method)` inlined -/")
    L.append("def frontSteps : List FrontStep := " + lean_list(front_steps))
    L.append("\n/-- catch clauses of `tapkee::embed`: (caught class, rethrown class) -/")
    L.append("def rethrow : List (Err × Err) := " + lean_list(
        ["(⟨Ns.%s, ErrClass.%s⟩, ⟨Ns.%s, ErrClass.%s⟩)" % r for r in rethrow]))
    L.append("\n/-- exception classes defined by stichwort -/")
    L.append("def stichwortClasses : List ErrClass := [%s]" % ", ".join("ErrClass." + c for c in sclasses))
    L.append("\nend TapkeeVerif.Gen\n")
    files["EmbedFront.lean"] = "\n".join(L)

    changed = []
    for name, content in files.items():
        if vlib.write_if_changed(os.path.join(outdir, name), content):
            changed.append(name)

    # ---- C++ tables for the harnesses
    gdir = os.path.join(vlib.BUILD_DIR, "gen-" + repo_hash)
    cty = {"int": "tapkee::IndexType", "real": "tapkee::ScalarType", "bool": "bool", "method": "tapkee::DimensionReductionMethod",
           "neighbors": "tapkee::NeighborsMethod", "eigen": "tapkee::EigenMethod", "strategy": "tapkee::ComputationStrategy",
           "progressFn": "void (*)(double)", "cancelFn": "bool (*)()"}
    C = ["// GENERATED by tools/translate_front.py - identifiers found in the repository's headers",
         "#define VERIF_KEYWORDS(X) \\"]
    C += ["    X(%s, %s) \\" % (r["ident"], r["ty"]) for r in kwrows]
    C += ["", "#define VERIF_METHODS(X) \\"] + ["    X(%s) \\" % m["ident"] for m in methods]
    C += ["", "#define VERIF_NEIGHBORS_METHODS(X) \\"] + ["    X(%s) \\" % i for i, _ in aux["NeighborsMethod"]]
    C += ["", "#define VERIF_EIGEN_METHODS(X) \\"] + ["    X(%s) \\" % i for i, _ in aux["EigenMethod"]]
    C += ["", "#define VERIF_STRATEGIES(X) \\"] + ["    X(%s) \\" % i for i, _ in aux["ComputationStrategy"]]
    C += ["", ""]
    vlib.write_if_changed(os.path.join(gdir, "front_tables.inc"), "\n".join(C))
    for f in os.listdir(vlib.BUILD_DIR):
        if f.startswith("gen-") and f != "gen-" + repo_hash:
            p = os.path.join(vlib.BUILD_DIR, f)
            try:
                if os.path.getmtime(p) < __import__("time").time() - 6 * 3600:
                    __import__("shutil").rmtree(p, ignore_errors=True)
            except OSError:
                pass
    info = {
        "methods": methods, "keywords": kwrows, "defaults": indefaults, "aux": aux, "gen_dir": gdir, "changed": changed,
        "dispatch": [d[0] for d in dispatch], "rethrow": rethrow,
    }
    if ctx is not None:
        ctx.log("translator: %d methods, %d keywords, Gen files rewritten: %s" % (len(methods), len(kwrows), changed or "none"))
    return info


if __name__ == "__main__":
    info = translate()
    print("changed:", info["changed"])
