#!/bin/bash
# usage: tools/multiseed.sh "<seeds>" "<props>"  -- quick checks on the unchanged tree at several seeds; prints one line per run
python3 check.py setup > multiseed_setup.log 2>&1 || echo "SETUP FAILED"
for s in $1; do for p in $2; do
  VERIF_SEED=$s python3 check.py $p quick > ms_${p}_$s.log 2>&1; rc=$?
  echo "seed=$s $p exit=$rc $(grep -c '^VIOLATION' ms_${p}_$s.log) violations; $(grep '^VIOLATION' ms_${p}_$s.log | head -2 | tr '\n' ' ')"
done; done
echo MULTISEED-DONE
