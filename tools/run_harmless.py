#!/usr/bin/env python3
"""Apply each behaviour-preserving refactoring under /verif/harmless/<id>/patch.diff to a scratch copy of /repo and run
the quick checks whose subject the touched files are (TAPKEE_REPO).  A check that exits non-zero here is a FALSE ALARM
(or, per the brief, a `no-failing-input-found` report when only a tie broke).  Writes harmless/RESULTS.json."""
import json, os, re, shutil, subprocess, sys, tempfile, time
ROOT = os.path.dirname(os.path.dirname(os.path.abspath(__file__)))
H = os.path.join(ROOT, "harmless")
MAP = [(r"fibonacci_heap", ["C16", "C04"]), (r"neighbors/(neighbors|vptree|covertree)", ["C02", "C03", "C12", "C01"]),
       (r"neighbors/connected", ["C03", "C12", "C01"]), (r"routines/isomap", ["C04", "C15", "C11"]),
       (r"utils/matrix|routines/multidimensional_scaling", ["C05", "C12", "C15", "C04", "C11"]),
       (r"routines/pca|projection\.hpp", ["C06", "C07", "C19"]), (r"routines/locally_linear", ["C08", "C10", "C15", "C01"]),
       (r"routines/(laplacian_eigenmaps|diffusion_maps)", ["C09", "C10", "C15"]), (r"routines/landmarks", ["C11", "C15", "C01"]),
       (r"routines/(eigendecomposition|generalized|matrix_operations)", ["C05", "C06", "C08", "C01"]),
       (r"methods/", ["C14", "C13", "C01", "C07"]), (r"stichwort/|parameters/|defines/keywords|embed\.hpp|chain_interface", ["C14", "C13"]),
       (r"barnes_hut_sne/quadtree", ["C18", "C17"]), (r"barnes_hut_sne/(tsne|vptree)|methods/tsne", ["C17", "C01"]),
       (r"routines/spe|routines/random_projection|routines/fa|defines/random", ["C19", "C01"]), (r"src/cli", ["C20", "C15"]),
       (r"kernel_pca|methods/multidimensional", ["C05"]), (r"methods/pca", ["C06"]), (r"methods/isomap", ["C04", "C05"]),
       (r"callbacks/", ["C13"]), (r"utils/sparse", ["C08", "C09", "C12"])]
def main():
    ids = sys.argv[1:] or sorted(d for d in os.listdir(H) if os.path.isdir(os.path.join(H, d)))
    rp = os.path.join(H, "RESULTS.json")
    results = json.load(open(rp)) if os.path.exists(rp) else {}
    for hid in ids:
        patch = os.path.join(H, hid, "patch.diff")
        files = re.findall(r"^\+\+\+ b/(\S+)", open(patch).read(), re.M)
        checks = []
        for f in files:
            for pat, cs in MAP:
                if re.search(pat, f):
                    checks += [c for c in cs if c not in checks]
            # C01's index-site inventory (tools/translate_sites.py) reads every header of these directories
            if re.search(r"include/tapkee/(routines|methods|neighbors|utils|external)/", f) and "C01" not in checks:
                checks.append("C01")
        only = os.environ.get("HARMLESS_ONLY")          # e.g. HARMLESS_ONLY=C01: run just these checks
        if only:
            checks = [c for c in checks if c in only.split(",")]
        scratch = tempfile.mkdtemp(prefix="harmless-", dir="/var/tmp")
        try:
            repo = os.path.join(scratch, "repo")
            subprocess.run(["rsync", "-a", "--exclude", "_build", "--exclude", "bin", "--exclude", "lib", "--exclude", ".git", "/repo/", repo + "/"], check=True)
            subprocess.run(["git", "init", "-q"], cwd=repo, check=True)
            r = subprocess.run(["git", "apply", "--whitespace=nowarn", patch], cwd=repo, capture_output=True, text=True)
            if r.returncode:
                r = subprocess.run(["patch", "-p1", "--fuzz=3", "-i", patch], cwd=repo, capture_output=True, text=True)
            if r.returncode:
                results[hid] = {"applied": False}; print(hid, "PATCH DOES NOT APPLY"); continue
            out = {}
            for c in checks:
                t = time.time()
                rr = subprocess.run([sys.executable, os.path.join(ROOT, "check.py"), c, "quick"], cwd=ROOT,
                                    env=dict(os.environ, TAPKEE_REPO=repo, VERIF_SEED=os.environ.get("VERIF_SEED", "1")), capture_output=True, text=True)
                viol = [l for l in rr.stdout.split("\n") if l.startswith("VIOLATION")]
                what = [l.strip() for l in rr.stdout.split("\n") if l.startswith("  -> ")]
                out[c] = {"exit": rr.returncode, "violations": viol[:4], "what": what[:4], "wall_s": round(time.time() - t, 1)}
                print(hid, c, "exit", rr.returncode, (viol[:1] + what[:1]))
            if only and results.get(hid, {}).get("checks"):     # partial re-run: keep the other checks' earlier results
                out = dict(results[hid]["checks"], **out)
            results[hid] = {"applied": True, "files": files, "checks": out, "false_alarms": [c for c, v in out.items() if v["exit"] != 0]}
        finally:
            shutil.rmtree(scratch, ignore_errors=True)
        json.dump(results, open(rp, "w"), indent=1)
if __name__ == "__main__":
    main()
