#!/usr/bin/env python3
"""Run every registered check's quick command at several seeds on the current tree; summary table.
Usage: tools/run_all.py [--seeds 1,2,3] [--tier quick] [ids...]"""
import json, os, subprocess, sys, time
from concurrent.futures import ThreadPoolExecutor
ROOT = os.path.dirname(os.path.dirname(os.path.abspath(__file__)))
args = sys.argv[1:]
seeds = [1]
tier = "quick"
ids = []
while args:
    a = args.pop(0)
    if a == "--seeds": seeds = [int(x) for x in args.pop(0).split(",")]
    elif a == "--tier": tier = args.pop(0)
    else: ids.append(a)
man = json.load(open(os.path.join(ROOT, "MANIFEST.json")))
ids = ids or [c["property_id"] for c in man["checks"]]
def one(job):
    pid, seed = job
    t = time.time()
    r = subprocess.run([sys.executable, "check.py", pid, tier], cwd=ROOT, env=dict(os.environ, VERIF_SEED=str(seed)),
                       capture_output=True, text=True)
    lines = [l for l in r.stdout.split("\n") if l.startswith(("VIOLATION", "KNOWN-FINDING"))]
    return pid, seed, r.returncode, round(time.time() - t), lines, r.stdout[-600:] if r.returncode not in (0, 1) else ""
bad = 0
for seed in seeds:
    with ThreadPoolExecutor(max_workers=4) as ex:
        for pid, s, rc, w, lines, tail in ex.map(one, [(p, seed) for p in ids]):
            print("%s seed=%d exit=%d %ds %s %s" % (pid, s, rc, w, lines[:3], tail))
            bad += rc != 0
sys.exit(1 if bad else 0)
