#!/usr/bin/env python3
"""Switch Props/C01.lean from the OPEN form of a finding (`*_refuted` + `*_partial`, true of the unrepaired code)
to its CLOSED form (the full theorem, true once the repair is committed in the repository).

    python3 tools/c01_close_finding.py F-HLLE-CT [F-EIG-SEGMENT ...]      # edit lean/TapkeeVerif/Props/C01.lean in place
    python3 tools/c01_close_finding.py --list

Blocks in the Lean file:
    -- >>> OPEN <id>            /- >>> CLOSED <id>
    … refutation …              … full theorem …
    -- <<< OPEN <id>            <<< CLOSED <id> -/
Closing deletes every OPEN block of the id and uncomments every CLOSED block of the id.  Run
`python3 check.py C01 quick` afterwards: the full theorems are re-checked against the regenerated expressions."""
import os
import re
import sys

PROPS = os.path.join(os.path.dirname(os.path.dirname(os.path.abspath(__file__))), "lean", "TapkeeVerif", "Props", "C01.lean")


def close(src, fid):
    n_open = len(re.findall(r"^-- >>> OPEN %s$" % re.escape(fid), src, flags=re.M))
    src = re.sub(r"^-- >>> OPEN %s\n.*?^-- <<< OPEN %s\n" % (re.escape(fid), re.escape(fid)), "", src, flags=re.M | re.S)
    n_closed = len(re.findall(r"^/- >>> CLOSED %s$" % re.escape(fid), src, flags=re.M))
    src = re.sub(r"^/- >>> CLOSED %s\n(.*?)^<<< CLOSED %s -/\n" % (re.escape(fid), re.escape(fid)),
                 lambda m: "-- (closed %s)\n%s" % (fid, m.group(1)), src, flags=re.M | re.S)
    return src, n_open, n_closed


def main():
    a = sys.argv[1:]
    src = open(PROPS).read()
    if not a or a[0] == "--list":
        ids = sorted(set(re.findall(r"^-- >>> OPEN (\S+)$", src, flags=re.M)))
        print("open findings in Props/C01.lean:", " ".join(ids) or "(none)")
        return 0
    for fid in a:
        src, no, nc = close(src, fid)
        print("%s: removed %d OPEN block(s), enabled %d CLOSED block(s)" % (fid, no, nc))
        if no == 0 and nc == 0:
            print("  (nothing to do: unknown id or already closed)")
    open(PROPS, "w").write(src)
    return 0


if __name__ == "__main__":
    sys.exit(main())
