#!/usr/bin/env python3
"""Rewrites the generated parts of DESIGN.md (between <!-- GEN:x --> ... <!-- /GEN:x --> markers):
   findings  <- KNOWN_FINDINGS.json + fixes/*.md     seeded <- seeded/*/meta.json + seeded/RESULTS.json
   status    <- MANIFEST.json + evidence/*.json"""
import json, os, re, glob
ROOT = os.path.dirname(os.path.dirname(os.path.abspath(__file__)))
def load(p, d=None):
    try: return json.load(open(os.path.join(ROOT, p)))
    except Exception: return d
kf = load("KNOWN_FINDINGS.json", {"open": [], "fixed": []})
def findings():
    rows = ["| finding | property | /repo commit | what failed (first seen by the machinery as) |", "|---|---|---|---|"]
    for l in kf["fixed"]:
        m = re.match(r"fixed: property=(\S+) (\S+) (.*)", l)
        if not m: continue
        fid = re.search(r"F-[A-Z0-9-]+", m.group(3))
        rows.append("| %s | %s | `%s` (fix:) | %s |" % (fid.group(0) if fid else "-", m.group(1), m.group(2), m.group(3).replace("|", "/")[:420]))
    for o in kf["open"]:
        fid = re.search(r"F-[A-Z0-9-]+", o["what"])
        rows.append("| %s | %s | OPEN (known finding, signature `%s`) | %s |" % (fid.group(0) if fid else "-", o["property"], o["signature"].replace("|", "/"), o["what"].replace("|", "/")[:420]))
    return "\n".join(rows)
def seeded():
    res = load("seeded/RESULTS.json", {})
    rows = ["| seeded change | breaks | what was changed | needs, to manifest | checks run -> result |", "|---|---|---|---|---|"]
    for d in sorted(glob.glob(os.path.join(ROOT, "seeded", "*", "meta.json"))):
        sid = os.path.basename(os.path.dirname(d)); m = json.load(open(d)); r = res.get(sid, {})
        if m.get("obsolete"):
            out = "OBSOLETE: " + m["obsolete"]
        elif r.get("checks"):
            out = "; ".join("%s: %s" % (c, ("CAUGHT (" + ("failing input" if any("no-failing" not in v for v in x["violations"]) else "no-failing-input-found") + ")") if x["exit"] == 1 and x["violations"] else "missed") for c, x in r["checks"].items())
        elif r.get("applied") is False: out = "patch no longer applies to the repaired tree"
        else: out = "not run yet"
        note = " " + m["orchestrator_note"] if m.get("orchestrator_note") else ""
        hist = (" History: " + m["history"]) if m.get("history") else ""
        rows.append("| %s | %s | %s | %s | %s%s%s |" % (sid, m.get("property"), str(m.get("summary", "")).replace("|", "/")[:300], str(m.get("needs", "")).replace("|", "/")[:300], out, hist, note))
    return "\n".join(rows)
def status():
    man = load("MANIFEST.json", {"checks": []})
    rows = ["| property | obligations discharged | evaluations (last quick run) | traces vs implementation | wall s |", "|---|---|---|---|---|"]
    for c in man["checks"]:
        ev = load("evidence/%s.json" % c["property_id"], None)
        if ev: cov = ev["coverage"]; rows.append("| %s | %s/%s | %s | %s | %s |" % (c["property_id"], cov.get("discharged"), cov.get("obligations"), cov.get("evaluations"), cov.get("traces_validated_against_impl"), ev.get("wall_s")))
        else: rows.append("| %s | (no evidence yet) | | | |" % c["property_id"])
    return "\n".join(rows)
def manifest():
    man = load("MANIFEST.json", {"checks": []})
    out = []
    for c in man["checks"]:
        out.append("### %s — as built\n\n*Technique.* %s\n\n*What is proved and how it is tied to the code.* %s\n\n*Trusted / partial.* %s\n" % (
            c["property_id"], c.get("technique", ""), c["level_claimed"]["text"], c["level_note"]))
    na = man.get("not_applicable", [])
    out.append("`not_applicable`: " + (", ".join(n["property_id"] for n in na) if na else "none — all 20 properties are claimed at level `proof`."))
    return "\n".join(out)
def harmless():
    res = load("harmless/RESULTS.json", {})
    rows = ["| refactoring | files | checks run | result |", "|---|---|---|---|"]
    for hid in sorted(res):
        r = res[hid]
        if not r.get("applied"):
            rows.append("| %s | | | patch does not apply |" % hid); continue
        fa = r.get("false_alarms", [])
        det = "; ".join("%s: %s" % (c, (r["checks"][c]["what"] or r["checks"][c]["violations"] or ["exit %s" % r["checks"][c]["exit"]])[0][:160].replace("|", "/")) for c in fa)
        rows.append("| %s | %s | %s | %s |" % (hid, ", ".join(os.path.basename(f) for f in r.get("files", [])), " ".join(r.get("checks", {})), "no alarm" if not fa else "ALARM: " + det))
    n = len([1 for r in res.values() if r.get("applied")]); bad = len([1 for r in res.values() if r.get("false_alarms")])
    rows.append("\n%d of %d refactorings raise no alarm in any check run on them." % (n - bad, n))
    return "\n".join(rows)
p = os.path.join(ROOT, "DESIGN.md"); s = open(p).read()
for name, fn in (("findings", findings), ("seeded", seeded), ("status", status), ("manifest", manifest), ("harmless", harmless)):
    s = re.sub(r"<!-- GEN:%s -->.*?<!-- /GEN:%s -->" % (name, name), lambda m: "<!-- GEN:%s -->\n%s\n<!-- /GEN:%s -->" % (name, fn(), name), s, flags=re.S)
open(p, "w").write(s)
print("DESIGN.md tables regenerated")
