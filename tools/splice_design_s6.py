#!/usr/bin/env python3
"""Replace the '### Cxx — ...' sections of DESIGN.md §6 by .build/design_s6/<Cxx>.md (same heading line required)."""
import glob, os, re
ROOT = os.path.dirname(os.path.dirname(os.path.abspath(__file__)))
p = os.path.join(ROOT, "DESIGN.md")
s = open(p).read()
a = s.index("## 6. Per-property design")
b = s.index("## 7. Findings on the pinned tree")
sec6 = s[a:b]
for f in sorted(glob.glob(os.path.join(ROOT, ".build", "design_s6", "C[0-9][0-9].md"))):
    new = open(f).read().strip("\n") + "\n\n"
    head = new.split("\n", 1)[0]
    i = sec6.find(head + "\n")
    if i < 0:
        print("heading not found for", f, repr(head)); continue
    j = sec6.find("\n### ", i + 5)
    tail = sec6[j + 1:] if j >= 0 else ""
    if j < 0:
        # last section: keep a trailing rule if there was one
        m = re.search(r"\n-{20,}\n\s*$", sec6[i:])
        tail = sec6[i:][m.start() + 1:] if m else ""
    sec6 = sec6[:i] + new + tail
    print("spliced", os.path.basename(f), len(new.split("\n")), "lines")
    os.rename(f, f + ".done")
open(p, "w").write(s[:a] + sec6 + s[b:])
