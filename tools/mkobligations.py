#!/usr/bin/env python3
"""Write lean/OBLIGATIONS.json: the theorem names of every Props module of every check, as they are now.
vlib.audit then requires each of them to exist (and audits its axioms) on every run, so a property theorem cannot be
deleted or renamed without this committed list being regenerated on purpose.  Usage: python3 tools/mkobligations.py"""
import importlib, json, os, sys
ROOT = os.path.dirname(os.path.dirname(os.path.abspath(__file__)))
sys.path.insert(0, ROOT)
import vlib  # noqa: E402

def main():
    man = json.load(open(os.path.join(ROOT, "MANIFEST.json")))
    out = {}
    for c in man["checks"]:
        pid = c["property_id"]
        mod = importlib.import_module("checks." + pid.lower())
        ctx = vlib.Ctx(pid, "quick", 1)
        for m in getattr(mod, "LEAN_MODULES", []):
            if not m.startswith("TapkeeVerif.Props."):
                continue          # generated modules (Gen.*) follow /repo, their theorem set is not fixed
            out[m] = sorted(set(out.get(m, [])) | set(ctx.theorems_in(m)))
    json.dump(out, open(os.path.join(vlib.LEAN_DIR, "OBLIGATIONS.json"), "w"), indent=1, sort_keys=True)
    print("obligations:", sum(len(v) for v in out.values()), "theorems in", len(out), "modules")

if __name__ == "__main__":
    main()
