#!/usr/bin/env python3
"""Independent confirmation of a seeded change before it is kept under /verif/seeded/<id>/.
Usage: tools/verify_seed.py /tmp/seedout/<dir> [--skip-tests]
Steps (all in a scratch copy of /repo under /var/tmp, deleted afterwards):
  1. demonstration compiled+run against the unmodified tree  -> must pass (exit 0)
  2. patch applied; demonstration compiled+run               -> must fail (exit != 0)
  3. repository test-suite built and run with the patch      -> all 44 baseline tests must pass
Writes <dir>/verified.json and, if all three hold, copies the directory to /verif/seeded/<name>/."""
import json, os, re, shutil, subprocess, sys, tempfile
ROOT = os.path.dirname(os.path.dirname(os.path.abspath(__file__)))
CXX = ["g++", "-std=gnu++23", "-O1", "-g", "-fopenmp", "-DTAPKEE_USE_LGPL_COVERTREE", "-DFMT_HEADER_ONLY=1",
       "-isystem", "/root/miniconda/include", "-isystem", "/usr/include/eigen3"]

def sh(cmd, **kw):
    return subprocess.run(cmd, stdout=subprocess.PIPE, stderr=subprocess.STDOUT, text=True, **kw)

def run_demo(d, tree, work):
    cpp = os.path.join(d, "demo.cpp")
    shd = os.path.join(d, "demo.sh")
    env = dict(os.environ, TAPKEE_ROOT=tree, ASAN_OPTIONS="detect_leaks=0")
    if os.path.exists(cpp):
        src = open(cpp).read()
        flags = list(CXX) + ["-I" + os.path.join(tree, "include"), "-I" + os.path.join(tree, "src")]
        if "fsanitize" in src.split("\n\n")[0] or re.search(r"-fsanitize=[\w,]+", src[:3000]):
            m = re.search(r"-fsanitize=[\w,]+", src[:3000])
            flags += [m.group(0), "-fno-sanitize-recover=all"]
        variants = [[]]
        bj = os.path.join(d, "build.json")      # optional, hand-written: {"variants": [[flags...], ...], "threads": [..]}
        if os.path.exists(bj):
            variants = json.load(open(bj)).get("variants", [[]])
        else:
            for m in re.finditer(r"\s(-D[A-Z_]+(?:=\w+)?)", src[:3000]):
                if m.group(1) not in flags:
                    flags.append(m.group(1))
        worst, outs = 0, ""
        for vi, var in enumerate(variants):
            exe = os.path.join(work, "demo_%s_%d" % (os.path.basename(tree), vi))
            r = sh(flags + list(var) + [cpp, "-o", exe])
            if r.returncode:
                return None, "compile failed: " + r.stdout[-800:]
            try:
                r = sh([exe], env=env, cwd=work, timeout=900)
                rc, out = r.returncode, r.stdout[-400:]
            except subprocess.TimeoutExpired:
                rc, out = 124, "timeout"
            outs += "[variant %s] exit %s: %s\n" % (var, rc, out)
            if rc != 0:
                worst = rc
        return worst, outs[-900:]
    if os.path.exists(shd):
        txt = open(shd).read()
        if "TAPKEE" in txt or "bin/tapkee" in txt:
            # the demonstration drives the CLI: build it for this tree and hand it over
            os.makedirs(os.path.join(tree, "bin"), exist_ok=True)
            exe = os.path.join(tree, "bin", "tapkee")
            if not os.path.exists(exe):
                r = sh(CXX + ["-I" + os.path.join(tree, "include"), "-I" + os.path.join(tree, "src"),
                              os.path.join(tree, "src", "cli", "main.cpp"), "-o", exe])
                if r.returncode:
                    return None, "CLI compile failed: " + r.stdout[-600:]
            env["TAPKEE"] = exe
            env["TAPKEE_BIN"] = exe
        try:
            arg = tree
            if os.path.exists(shd) and re.search(r"\$\{1:-[^}]*bin/tapkee\}", open(shd).read()):
                arg = env.get("TAPKEE", tree)       # the script takes the CLI binary, not the tree, as $1
            r = sh(["bash", shd, arg], env=env, cwd=work, timeout=1800)
        except subprocess.TimeoutExpired:
            return 124, "timeout"
        return r.returncode, r.stdout[-600:]
    return None, "no demo"

def main():
    d = os.path.abspath(sys.argv[1])
    skip_tests = "--skip-tests" in sys.argv
    name = os.path.basename(d)
    scratch = tempfile.mkdtemp(prefix="vseed-", dir="/var/tmp")
    res = {"name": name}
    try:
        clean = os.path.join(scratch, "clean")
        mut = os.path.join(scratch, "mutant")
        for t in (clean, mut):
            sh(["rsync", "-a", "--exclude", "_build", "--exclude", "bin", "--exclude", "lib", "--exclude", ".git", "/repo/", t + "/"])
        r = sh(["git", "init", "-q"], cwd=mut)
        r = sh(["git", "apply", "--whitespace=nowarn", os.path.join(d, "patch.diff")], cwd=mut)
        if r.returncode:
            r = sh(["patch", "-p1", "--fuzz=3", "-i", os.path.join(d, "patch.diff")], cwd=mut)
        res["applies"] = r.returncode == 0
        if not res["applies"]:
            res["error"] = r.stdout[-500:]
        else:
            rc, out = run_demo(d, clean, scratch)
            res["demo_clean"] = {"exit": rc, "out": out}
            rc2, out2 = run_demo(d, mut, scratch)
            res["demo_mutant"] = {"exit": rc2, "out": out2}
            if not skip_tests:
                b = os.path.join(scratch, "b")
                r = sh(["cmake", "-G", "Ninja", "-S", mut, "-B", b, "-DBUILD_TESTS=ON", "-DCMAKE_BUILD_TYPE=RelWithDebInfo", "-DCMAKE_CXX_FLAGS=-Wno-error"])
                r = sh(["cmake", "--build", b, "-j", "8"])
                res["build_ok"] = r.returncode == 0
                passed = set()
                if res["build_ok"]:
                    for exe in sorted(os.listdir(os.path.join(mut, "bin"))):
                        if exe.startswith("test_"):
                            rr = sh([os.path.join(mut, "bin", exe)], cwd=mut)
                            for m in re.finditer(r"\[\s+OK \] (\w+)\.(\w+)", rr.stdout):
                                passed.add("%s::%s" % (m.group(1), m.group(2)))
                            if rr.returncode == 0:
                                passed.add("%s::%s" % (exe[5:], exe[5:]))
                names = json.load(open("/root/.vp/BASELINE.json"))["stable_pass"]
                res["tests_missing"] = [n for n in names if n not in passed]
                res["tests_pass"] = res["build_ok"] and not res["tests_missing"]
            res["confirmed"] = (res["demo_clean"]["exit"] == 0 and res["demo_mutant"]["exit"] not in (0, None)
                                and (skip_tests or res["tests_pass"]))
    finally:
        shutil.rmtree(scratch, ignore_errors=True)
    json.dump(res, open(os.path.join(d, "verified.json"), "w"), indent=1)
    print(json.dumps(res, indent=1)[:1500])
    if res.get("confirmed"):
        dst = os.path.join(ROOT, "seeded", name)
        if os.path.realpath(dst) != os.path.realpath(d):
            shutil.rmtree(dst, ignore_errors=True)
            shutil.copytree(d, dst)
        meta = json.load(open(os.path.join(dst, "meta.json")))
        meta["confirmed_by"] = "tools/verify_seed.py: demo passes on clean tree, fails with patch, 44 baseline tests pass with patch"
        json.dump(meta, open(os.path.join(dst, "meta.json"), "w"), indent=1)
        print("KEPT ->", dst)
    return 0 if res.get("confirmed") else 1

if __name__ == "__main__":
    sys.exit(main())
