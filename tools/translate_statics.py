#!/usr/bin/env python3
"""C12 translator step: every object of static storage duration in include/tapkee, include/stichwort (file keys
`stichwort:<rel>`) and src/cli/*.hpp (`cli:<name>`) — keyword `static` / `thread_local` at namespace, class or function
scope, or a variable defined at namespace scope — with its declared type, whether it is const, whether its initialiser
is a run-time value (function-local static initialised from a parameter / local / call: frozen by the FIRST call) and
whether its function hands it out (singleton); and every use of the C library's hidden generator state (`std::rand`), with a
mechanically established *role* (why it cannot carry information from one embed call into the result of the next)
-> lean/TapkeeVerif/Gen/Statics.lean.  `Props/C12.no_hidden_state` is stated over the generated table, so a newly
introduced `static` cache (role `unknown`, or a random stream / unexplained object reachable from a deterministic
method) re-states the theorem and breaks its proof.

Token-level (comments and literals stripped, brace scopes tracked); no C++ front end needed.  Anything the scanner
cannot classify becomes role `unknown` (never silently dropped); syntax it cannot follow raises (broken tie).

    python3 tools/translate_statics.py [repo] [out.lean]      (prints the table when run by hand)
"""
import os
import re
import sys

# ---- the specification side of the table: which methods the property calls deterministic
DETERMINISTIC_METHOD_HEADERS = [
    "methods/kernel_locally_linear_embedding.hpp", "methods/neighborhood_preserving_embedding.hpp",
    "methods/kernel_local_tangent_space_alignment.hpp", "methods/linear_local_tangent_space_alignment.hpp",
    "methods/hessian_locally_linear_embedding.hpp", "methods/laplacian_eigenmaps.hpp",
    "methods/locality_preserving_projections.hpp", "methods/diffusion_map.hpp", "methods/isomap.hpp",
    "methods/multidimensional_scaling.hpp", "methods/kernel_pca.hpp", "methods/pca.hpp",
]
# the front end every call goes through (their own text, not what they include: methods/all.hpp includes everything)
FRONT_FILES = ["embed.hpp", "methods.hpp", "methods/all.hpp", "tapkee.hpp", "chain_interface.hpp"]
# functions inside deterministic-path files that only a randomised configuration calls
RANDOMISED_FUNCTIONS = ["eigendecomposition_impl_randomized"]
# the file whose `#ifdef CUSTOM_UNIFORM_RANDOM_FUNCTION` branch may draw vantage points from the global stream (the
# documented override; C02: the search is exact for every vantage choice).  Any other rand() / uniform_random() call
# in it is an ordinary random stream on a deterministic path, i.e. NOT accounted for (regression guard of F-VP-RAND)
VANTAGE_FILES = ["neighbors/vptree.hpp"]
RAND_NAMES = {"rand", "srand", "random", "drand48", "lrand48", "rand_r"}

CONTROL = {"if", "for", "while", "switch", "catch", "else", "do", "try", "return"}
TOKEN = re.compile(r'"S"|\'C\'|::|\.\.\.|->|[A-Za-z_]\w*|\d[\w.]*|[{}()\[\];=<>,*&~.:+\-/!?|^%#]')


def strip_source(src):
    """comments -> spaces, string / char literals -> "S" / 'C', preprocessor lines -> kept apart.
    returns (text with the same line structure, list of (lineno, directive))"""
    out = []
    i, n = 0, len(src)
    while i < n:
        c = src[i]
        if src.startswith("//", i):
            j = src.find("\n", i)
            j = n if j < 0 else j
            i = j
        elif src.startswith("/*", i):
            j = src.find("*/", i + 2)
            j = n if j < 0 else j + 2
            out.append("".join(ch if ch == "\n" else " " for ch in src[i:j]))
            i = j
        elif c == '"':
            j = i + 1
            while j < n and src[j] != '"':
                j += 2 if src[j] == "\\" else 1
            out.append('"S"')
            i = j + 1
        elif c == "'" and not (i > 0 and src[i - 1].isalnum()):
            j = i + 1
            while j < n and src[j] != "'":
                j += 2 if src[j] == "\\" else 1
            out.append("'C'")
            i = j + 1
        else:
            out.append(c)
            i += 1
    text = "".join(out)
    lines = text.split("\n")
    directives = []
    k = 0
    while k < len(lines):
        if lines[k].lstrip().startswith("#"):
            d = lines[k]
            directives.append((k + 1, d.strip()))
            cont = d.rstrip().endswith("\\")
            lines[k] = ""
            while cont and k + 1 < len(lines):
                k += 1
                cont = lines[k].rstrip().endswith("\\")
                lines[k] = ""
        k += 1
    return "\n".join(lines), directives


def tokenize(text):
    toks = []
    for ln, line in enumerate(text.split("\n"), 1):
        for m in TOKEN.finditer(line):
            toks.append((m.group(0), ln))
    return toks


def guards_by_line(directives, nlines):
    """for every line the stack of preprocessor conditions it sits under"""
    stack, res, di = [], [], 0
    ds = dict(directives)
    for ln in range(1, nlines + 2):
        d = ds.get(ln)
        if d:
            body = d[1:].strip()
            if body.startswith(("ifdef", "ifndef", "if ")) or body == "if":
                stack.append(body)
            elif body.startswith("else") and stack:
                stack[-1] = "!(" + stack[-1] + ")"
            elif body.startswith("elif") and stack:
                stack[-1] = body
            elif body.startswith("endif") and stack:
                stack.pop()
        res.append(" && ".join(stack))
    return res


class Scope:
    def __init__(self, kind, name):
        self.kind, self.name = kind, name      # kind: namespace | class | function | block


def match_paren(toks, i, open_="(", close=")"):
    depth = 0
    while i < len(toks):
        if toks[i][0] == open_:
            depth += 1
        elif toks[i][0] == close:
            depth -= 1
            if depth == 0:
                return i
        i += 1
    raise ValueError("unbalanced %s at line %d" % (open_, toks[min(i, len(toks) - 1)][1]))


def is_ident(t):
    return bool(re.match(r"[A-Za-z_]\w*$", t))


def outside_angles(ts):
    """the tokens that are not inside a template argument list"""
    out, depth = [], 0
    for t in ts:
        if t == "<":
            depth += 1
        elif t == ">":
            depth = max(0, depth - 1)
        elif depth == 0:
            out.append(t)
    return out


def args_look_like_values(args):
    """`T name(args);` : constructor call (variable) rather than a function prototype"""
    if not args:
        return False                      # `T name();` declares a function
    ts = [a[0] for a in args]
    if "..." in ts or "typename" in ts:
        return False
    if any(t == '"S"' or t == "'C'" or re.match(r"\d", t) or t in ("NULL", "nullptr", "true", "false") for t in ts):
        return True
    # a parameter declaration has two consecutive identifiers (type name) or a type followed by * / &
    for a, b in zip(ts, ts[1:]):
        if is_ident(a) and is_ident(b) and a not in ("const", "unsigned", "signed", "long", "short"):
            return False
        if is_ident(a) and b in ("*", "&") and True:
            return False
    return True


# identifiers an initialiser may contain and still be fixed before any call runs
INIT_CONSTANT_WORDS = {"NULL", "nullptr", "true", "false", "sizeof", "static_cast", "std", "numeric_limits", "epsilon",
                       "infinity", "max", "min", "quiet_NaN", "M_PI", "size_t", "unsigned", "signed", "int", "long",
                       "short", "char", "double", "float", "bool", "u", "f", "L", "UL", "ULL", "LL"}


def runtime_initialiser(init, type_toks):
    """the initialiser of a FUNCTION-LOCAL static (tokens from its `=` / `(` / `{` on) names something that is not a
    literal, a fundamental type, a numeric_limits constant or the declared type itself: a parameter, a local, another
    object, a call.  Such an initialiser is evaluated by the first call that reaches the declaration — the value is
    frozen for the process whatever later calls pass.  Conservative: anything not recognised counts as run-time."""
    own = {t for t in type_toks if is_ident(t)}
    for t in init:
        if is_ident(t) and t not in INIT_CONSTANT_WORDS and t not in own:
            return True
    return False


def header_kind(header, inside_function):
    """what a `{` opens, from the tokens since the previous `;` `{` `}`"""
    ts = [t for t, _ in header]
    if inside_function:
        # local classes are not expected in this library; everything inside a function stays in it
        return "block", None
    if "namespace" in ts:
        i = ts.index("namespace")
        return "namespace", (ts[i + 1] if i + 1 < len(ts) and is_ident(ts[i + 1]) else "(anonymous)")
    # drop `template <…>` prefixes (their parameter lists may contain parentheses)
    while ts and ts[0] == "template" and len(ts) > 1 and ts[1] == "<":
        depth, j = 0, 1
        while j < len(ts):
            if ts[j] == "<":
                depth += 1
            elif ts[j] == ">":
                depth -= 1
                if depth == 0:
                    break
            j += 1
        ts = ts[j + 1:]
    while ts and ts[0] in ("public", "private", "protected", ":"):
        ts = ts[1:]
    if ts and ts[0] in ("class", "struct", "union", "enum"):
        nm = ts[1] if len(ts) > 1 and is_ident(ts[1]) else "(unnamed)"
        if nm == "class" and len(ts) > 2:
            nm = ts[2]
        return "class", nm
    if "(" in ts:
        i = ts.index("(")
        # operator()(…) and friends
        if i >= 1 and ts[i - 1] == "operator":
            return "function", "operator()"
        j = i - 1
        while j >= 0 and not is_ident(ts[j]):
            j -= 1
        name = ts[j] if j >= 0 else "?"
        if j >= 1 and ts[j - 1] == "~":
            name = "~" + name
        if "operator" in ts[:i]:
            name = "operator" + "".join(ts[ts.index("operator") + 1:i])
        if name in CONTROL:
            return "block", None
        if "=" in ts[:i] and "operator" not in ts[:i]:
            return "block", None          # `T x = f(…) {`? not a definition
        return "function", name
    for kw in ("class", "struct", "union", "enum"):
        if kw in ts:
            i = len(ts) - 1 - ts[::-1].index(kw)
            nm = ts[i + 1] if i + 1 < len(ts) and is_ident(ts[i + 1]) else "(unnamed)"
            if nm == "class" and i + 2 < len(ts):
                nm = ts[i + 2]
            return "class", nm
    if ts and ts[-1] in ("=", "return", ",", "(") or not ts:
        return "block", None
    if ts and ts[-1] in ("else", "do", "try"):
        return "block", None
    return "block", None


class FileScan:
    def __init__(self, rel, src):
        self.rel = rel
        text, self.directives = strip_source(src)
        self.toks = tokenize(text)
        self.guards = guards_by_line(self.directives, text.count("\n") + 1)
        self.includes = [m.group(1) for _, d in self.directives
                         for m in [re.match(r"#\s*include\s*<tapkee/([^>]+)>", d)] if m]
        self.ctx = [None] * len(self.toks)       # per token: (scope kind, function name or "", class name or "")
        self.decls = []
        self._walk()

    def _walk(self):
        toks = self.toks
        stack = []
        header_start = 0
        for i, (t, ln) in enumerate(toks):
            fn = next((s.name for s in reversed(stack) if s.kind == "function"), "")
            cls = next((s.name for s in reversed(stack) if s.kind == "class"), "")
            kind = "function" if fn else (stack[-1].kind if stack else "namespace")
            if kind == "block":
                kind = "namespace" if not any(s.kind in ("class", "function") for s in stack) else "class"
            self.ctx[i] = (kind, fn, cls)
            if t == "{":
                k, name = header_kind(toks[header_start:i], bool(fn))
                if k == "function" and cls and "::" not in name:
                    name = cls + "::" + name
                stack.append(Scope(k, name))
                header_start = i + 1
            elif t == "}":
                if not stack:
                    raise ValueError("%s:%d: unbalanced }" % (self.rel, ln))
                stack.pop()
                header_start = i + 1
            elif t == ";":
                header_start = i + 1
        if stack:
            raise ValueError("%s: unbalanced { at end of file" % self.rel)

    # ------------------------------------------------------------------ declarations
    def find_decls(self):
        toks = self.toks
        self.decls = []
        i = 0
        stmt_start = 0
        while i < len(toks):
            t, ln = toks[i]
            kind, fn, cls = self.ctx[i]
            if t in (";", "{", "}"):
                stmt_start = i + 1
            # `static` and `thread_local` both give static / thread storage duration (state that outlives a call);
            # `static thread_local` / `thread_local static` is handled once, at its first keyword
            if t in ("static", "thread_local"):
                prev = toks[i - 1][0] if i > stmt_start else ""
                if prev not in ("static", "thread_local"):
                    d = self._static_decl(i, stmt_start)
                    if d:
                        self.decls.append(d)
            i += 1
        self._namespace_vars()
        return self.decls

    def mutable_member_classes(self):
        """classes that declare a `mutable` data member (a `const` object of such a class is not immutable)"""
        res = set()
        for i, (t, ln) in enumerate(self.toks):
            if t == "mutable" and self.ctx[i][0] == "class" and self.ctx[i][2]:
                res.add(self.ctx[i][2])
        return res

    def _static_decl(self, i, stmt_start):
        toks = self.toks
        j = i + 1
        depth = 0
        first = None
        while j < len(toks):
            t = toks[j][0]
            if t == "<":
                depth += 1
            elif t == ">":
                depth = max(0, depth - 1)
            elif depth == 0 and t in (";", "=", "{", "("):
                first = t
                break
            j += 1
        if first is None:
            raise ValueError("%s:%d: cannot parse static declaration" % (self.rel, toks[i][1]))
        pre = [t for t, _ in toks[stmt_start:i]]
        mid = [t for t, _ in toks[i + 1:j]]
        if first == "(":
            close = match_paren(toks, j)
            nxt = toks[close + 1][0] if close + 1 < len(toks) else ""
            if nxt != ";" or not args_look_like_values(toks[j + 1:close]):
                return None               # a static function (definition or prototype)
            end = close + 1
        else:
            end = j
            # skip an initialiser up to the terminating `;`
            d2 = 0
            while end < len(toks):
                t = toks[end][0]
                if t in ("{", "(", "["):
                    d2 += 1
                elif t in ("}", ")", "]"):
                    d2 -= 1
                elif t == ";" and d2 == 0:
                    break
                end += 1
        names = [t for t in mid if is_ident(t) and t not in ("static", "thread_local", "inline", "const", "constexpr")]
        if not names:
            raise ValueError("%s:%d: static declaration without a name" % (self.rel, toks[i][1]))
        name = names[-1]
        quals = outside_angles(pre + mid[:len(mid) - 1 - mid[::-1].index(name)])
        const = "constexpr" in quals or ("const" in quals and
                                         "*" not in quals[len(quals) - 1 - quals[::-1].index("const"):])
        kind, fn, cls = self.ctx[i]
        text = " ".join(t for t, _ in toks[stmt_start:end + 1])
        type_toks = [t for t in pre + mid[:len(mid) - 1 - mid[::-1].index(name)]
                     if t not in ("static", "thread_local", "inline", "public", "private", "protected", ":")]
        init = [t for t, _ in toks[j:end]]
        return {"name": name, "file": self.rel, "line": toks[i][1], "scope": fn,
                "cls": cls, "decl": text[:160], "mutable": not const, "tok": i, "end": end,
                "guard": self.guards[toks[i][1] - 1], "kindscope": kind,
                "type": " ".join(type_toks)[:120], "const": const,
                "rtinit": bool(fn) and runtime_initialiser(init, type_toks),
                "types": [t for t in pre + mid if is_ident(t) and t != name]}

    def _namespace_vars(self):
        """variable definitions at namespace scope that do not use the keyword `static`"""
        toks = self.toks
        start = 0
        i = 0
        SKIP = {"using", "typedef", "template", "class", "struct", "enum", "union", "extern", "friend", "namespace",
                "static_assert", "static", "inline_namespace"}
        while i < len(toks):
            t, ln = toks[i]
            if self.ctx[i][0] != "namespace":
                i += 1
                start = i
                continue
            if t == "{":
                # an initialiser brace `T x = {…};` / `T x{…};` at namespace scope opens a "block"
                i += 1
                start = i
                continue
            if t == "}":
                i += 1
                start = i
                continue
            if t == ";":
                stmt = toks[start:i]
                ts = [x for x, _ in stmt]
                if ts and not (set(ts[:3]) & SKIP) and "operator" not in ts and "static" not in ts and "thread_local" not in ts:
                    d = self._classify_ns_stmt(stmt, start)
                    if d:
                        self.decls.append(d)
                i += 1
                start = i
                continue
            i += 1

    def _classify_ns_stmt(self, stmt, start):
        ts = [x for x, _ in stmt]
        if len(ts) < 2:
            return None
        depth = 0
        first, j = None, 0
        for j, t in enumerate(ts):
            if t == "<":
                depth += 1
            elif t == ">":
                depth = max(0, depth - 1)
            elif depth == 0 and t in ("=", "("):
                first = t
                break
        if first == "(":
            close = match_paren(stmt, j) if True else None
            if close != len(stmt) - 1 or not args_look_like_values(stmt[j + 1:close]):
                return None               # function prototype
            if close == j + 2 and ts[j + 1] in ts[:j - 1]:
                return None               # `T f(T);` : a prototype whose only parameter is the (typedef'd) return type
            head = ts[:j]
        elif first == "=":
            head = ts[:j]
        else:
            head = ts
        names = [t for t in head if is_ident(t)]
        if len(names) < 2:
            return None
        name = names[-1]
        quals = outside_angles(head[:len(head) - 1 - head[::-1].index(name)])
        const = "constexpr" in quals or ("const" in quals and
                                         "*" not in quals[len(quals) - 1 - quals[::-1].index("const"):])
        ln = stmt[0][1]
        return {"name": name, "file": self.rel, "line": ln, "scope": "", "cls": "", "decl": " ".join(ts)[:160],
                "type": " ".join(t for t in head[:len(head) - 1 - head[::-1].index(name)] if t != "inline")[:120],
                "const": const, "rtinit": False,      # namespace scope: initialised at load time, before any call
                "mutable": not const, "tok": start, "end": start + len(stmt), "guard": self.guards[ln - 1],
                "kindscope": "namespace", "types": [t for t in head if is_ident(t) and t != name]}


def include_closure(scans, roots):
    seen, todo = set(), list(roots)
    while todo:
        f = todo.pop()
        if f in seen or f not in scans:
            continue
        seen.add(f)
        todo += scans[f].includes
    return seen


def occurrences(scans, seq):
    """all positions where the token sequence `seq` occurs: (file, token index)"""
    res = []
    for rel, sc in scans.items():
        ts = sc.toks
        for i in range(len(ts) - len(seq) + 1):
            if ts[i][0] == seq[0] and all(ts[i + k][0] == seq[k] for k in range(1, len(seq))):
                res.append((rel, i))
    return res


_SCAN_CACHE = {}


def scan_tree(base, overrides=None, prefix=""):
    """FileScan of every header under `base`; `overrides` maps a relative path to replacement source text"""
    scans = {}
    for d, dirs, files in sorted(os.walk(base)):
        dirs.sort()
        for f in sorted(files):
            if f.endswith((".hpp", ".h")):
                p = os.path.join(d, f)
                rel = prefix + os.path.relpath(p, base)
                if overrides and rel in overrides:
                    scans[rel] = FileScan(rel, overrides[rel])
                    continue
                key = (p, rel, os.path.getmtime(p), os.path.getsize(p))
                if key not in _SCAN_CACHE:
                    _SCAN_CACHE[key] = FileScan(rel, open(p, errors="replace").read())
                scans[rel] = _SCAN_CACHE[key]
    for rel, text in (overrides or {}).items():
        if rel not in scans:
            scans[rel] = FileScan(rel, text)
    return scans


def scan_repo(repo, overrides=None):
    """include/tapkee/** (keys relative to it), include/stichwort/** (keys `stichwort:<rel>`) and src/cli/*.hpp
    (keys `cli:<name>`): every header the library and its command-line front end are made of"""
    scans = scan_tree(os.path.join(repo, "include", "tapkee"), overrides)
    sw = os.path.join(repo, "include", "stichwort")
    if os.path.isdir(sw):
        scans.update(scan_tree(sw, None, "stichwort:"))
    cli = os.path.join(repo, "src", "cli")
    if os.path.isdir(cli):
        for f in sorted(os.listdir(cli)):
            if f.endswith((".hpp", ".h")):
                p = os.path.join(cli, f)
                key = (p, "cli:" + f, os.path.getmtime(p), os.path.getsize(p))
                if key not in _SCAN_CACHE:
                    _SCAN_CACHE[key] = FileScan("cli:" + f, open(p, errors="replace").read())
                scans["cli:" + f] = _SCAN_CACHE[key]
    return scans


def analyse(repo, overrides=None):
    scans = scan_repo(repo, overrides)
    # classes with `mutable` data members, in tapkee and in the keyword library it builds its const objects from
    mutable_classes = set()
    for sc in scans.values():
        mutable_classes |= sc.mutable_member_classes()
    sw = os.path.join(repo, "include", "stichwort")
    if os.path.isdir(sw):
        for sc in scan_tree(sw).values():
            mutable_classes |= sc.mutable_member_classes()
    for h in DETERMINISTIC_METHOD_HEADERS + FRONT_FILES:
        if h not in scans:
            raise ValueError("expected header missing: " + h)
    det_files = include_closure(scans, DETERMINISTIC_METHOD_HEADERS) | set(FRONT_FILES)

    def site_is_det(rel, i):
        fn = scans[rel].ctx[i][1]
        return rel in det_files and not any(fn.split("::")[-1] == r for r in RANDOMISED_FUNCTIONS)

    table = []
    for rel, sc in scans.items():
        for d in sc.find_decls():
            d = dict(d)
            hit = [t for t in d.get("types", []) if t in mutable_classes]
            if not d["mutable"] and hit:
                # `const` does not make the `mutable` members of the object immutable
                d["mutable"] = True
                d["decl"] = (d["decl"] + "  /* class %s has mutable members */" % hit[0])[:160]
            table.append(d)

    out = []
    for d in table:
        sc = scans[d["file"]]
        role, det = "unknown", False
        name = d["name"]
        if not d["mutable"] and d.get("rtinit"):
            # `static const T x = <expression over arguments / locals>`: immutable, but WHICH value it holds is decided
            # by the first call that gets there — a value carried from one embed call into the next
            role = "unknown"
            det = d["file"] in det_files
        elif not d["mutable"]:
            role = "constant"
        elif d["scope"] == "":
            # namespace / class scope: who names it?
            uses = [(rel, i) for rel, i in occurrences(scans, [name])
                    if not (rel == d["file"] and d["tok"] <= i <= d["end"])]
            # only count occurrences that can denote this object (not member accesses `x.name`, not declarations of
            # other entities with the same spelling inside classes)
            uses = [(rel, i) for rel, i in uses if scans[rel].toks[i - 1][0] not in (".", "->")]
            if d.get("cls") and d.get("kindscope") == "class":
                # a static data member is named unqualified only inside its own class, `C::name` elsewhere
                uses = [(rel, i) for rel, i in uses
                        if scans[rel].ctx[i][2] == d["cls"] or scans[rel].toks[i - 1][0] == "::"]
            in_fn = [(rel, i) for rel, i in uses if scans[rel].ctx[i][0] == "function"]
            det = any(site_is_det(rel, i) for rel, i in in_fn)
            role = "initOnly" if not in_fn else "unknown"
        else:
            # function-local static: the enclosing function is its only accessor
            fn = d["scope"]
            body = [i for i in range(len(sc.toks)) if sc.ctx[i][1] == fn and sc.toks[i][0] == name
                    and not (d["tok"] <= i <= d["end"])]
            def is_return(i):
                prev = sc.toks[i - 1][0]
                if prev == "&":
                    prev = sc.toks[i - 2][0]
                return prev == "return" and sc.toks[i + 1][0] == ";"
            d["returned"] = any(is_return(i) for i in body)
            only_returned = bool(body) and all(is_return(i) for i in body)
            short = fn.split("::")
            seq = [short[-2], "::", short[-1]] if len(short) >= 2 else [short[-1]]
            sites = [(rel, i) for rel, i in occurrences(scans, seq)
                     if not (rel == d["file"] and scans[rel].ctx[i][1] == fn)]
            # the definition `static T& instance()` itself is not a call site
            sites = [(rel, i) for rel, i in sites if scans[rel].toks[i + len(seq)][0] == "("
                     and not (len(seq) == 1 and scans[rel].ctx[i][0] != "function")]
            det = any(site_is_det(rel, i) for rel, i in sites) or (not sites and d["file"] in det_files)
            if seq == ["Logging", "::", "instance"]:
                ok = True
                for rel, i in sites:
                    ts = scans[rel].toks
                    nxt = [t for t, _ in ts[i + 3:i + 8]]
                    if not (nxt[:3] == ["(", ")", "."] and re.match(r"message_(info|warning|debug|error|benchmark)$", nxt[3])
                            and nxt[4] == "("):
                        ok = False
                role = "loggingOnly" if ok else "unknown"
            elif "verif_eigen_observer" in fn and "TAPKEE_VERIF" in d["guard"]:
                hook_fns = {"eigendecomposition", "generalized_eigendecomposition"}
                ok = all(scans[rel].ctx[i][1].split("::")[-1] in hook_fns for rel, i in sites)
                role = "verifHook" if ok else "unknown"
            elif fn.split("::")[-1] == "verif_shuffle_generator" and "TAPKEE_VERIF" in d["guard"]:
                # consumed by random_shuffle; follow its callers
                callers = [(rel, i) for rel, i in occurrences(scans, ["random_shuffle"])
                           if scans[rel].ctx[i][0] == "function" and scans[rel].toks[i + 1][0] == "("
                           and rel != d["file"]]
                direct_ok = all(scans[rel].ctx[i][1].split("::")[-1] == "random_shuffle" for rel, i in sites)
                det = any(site_is_det(rel, i) for rel, i in callers)
                role = "randomStream" if direct_ok else "unknown"
            elif only_returned and "TAPKEE_VERIF" in d["guard"] and fn.split("::")[-1].startswith("verif_"):
                role = "verifHook"        # an observer slot that exists under -DTAPKEE_VERIF only
            elif only_returned:
                role = "readOnlyLiteral"
        out.append({"name": name, "file": d["file"], "line": d["line"], "scope": d["scope"], "decl": d["decl"],
                    "mutable": d["mutable"], "role": role, "guard": d["guard"],
                    "det": bool(det and (d["mutable"] or d.get("rtinit"))),
                    "type": d.get("type", ""), "const": bool(d.get("const")), "rtinit": bool(d.get("rtinit")),
                    "returned": bool(d.get("returned")), "object": True})

    # ---- hidden state of the C library: rand() and friends
    accessors = {}      # function name -> (file)
    for rel, sc in scans.items():
        for i, (t, ln) in enumerate(sc.toks):
            if t in RAND_NAMES and i + 1 < len(sc.toks) and sc.toks[i + 1][0] == "(" and sc.toks[i - 1][0] not in (".", "->"):
                if i >= 2 and sc.toks[i - 1][0] == "::" and sc.toks[i - 2][0] not in ("std",):
                    continue
                fn = sc.ctx[i][1]
                if sc.ctx[i][0] != "function":
                    raise ValueError("%s:%d: %s() outside a function" % (rel, ln, t))
                accessors.setdefault((rel, fn), ln)
    # closure inside defines/random.hpp: wrappers of wrappers
    wrappers = {fn.split("::")[-1] for (rel, fn) in accessors if rel == "defines/random.hpp"}
    changed = True
    while changed:
        changed = False
        sc = scans["defines/random.hpp"]
        for i, (t, ln) in enumerate(sc.toks):
            if t in wrappers and sc.toks[i + 1][0] == "(" and sc.ctx[i][0] == "function":
                f = sc.ctx[i][1].split("::")[-1]
                if f not in wrappers:
                    wrappers.add(f)
                    changed = True
    sites = []
    for (rel, fn), ln in accessors.items():
        if rel != "defines/random.hpp":
            sites.append((rel, fn, ln, "std::rand"))
    for w in sorted(wrappers):
        for rel, i in occurrences(scans, [w]):
            sc = scans[rel]
            if rel == "defines/random.hpp" or sc.toks[i + 1][0] != "(" or sc.ctx[i][0] != "function":
                continue
            sites.append((rel, sc.ctx[i][1], sc.toks[i][1], w))
    for rel, fn, ln, via in sorted(set(sites)):
        short = fn.split("::")[-1]
        det = rel in det_files and short not in RANDOMISED_FUNCTIONS
        guard = scans[rel].guards[ln - 1] if 0 < ln <= len(scans[rel].guards) else ""
        # the VP-tree owns its vantage generator (F-VP-RAND); the only draw from the global stream that is
        # result-irrelevant is the documented override branch `#ifdef CUSTOM_UNIFORM_RANDOM_FUNCTION`
        hooked = bool(re.search(r"(^|&& )ifdef\s+CUSTOM_UNIFORM_RANDOM_FUNCTION", guard))
        role = "vantageChoice" if (rel in VANTAGE_FILES and hooked) else "randomStream"
        out.append({"name": "std::rand state via " + via, "file": rel, "line": ln, "scope": fn,
                    "decl": "call of %s()" % via, "mutable": True, "role": role, "det": det, "guard": "",
                    "type": "", "const": False, "rtinit": False, "returned": False, "object": False})
    out.sort(key=lambda o: (o["file"], o["line"], o["name"]))
    return out


def lean_str(s):
    return '"' + s.replace("\\", "\\\\").replace('"', '\\"') + '"'


def lb(b):
    return "true" if b else "false"


def cls_of(o):
    """mirror of `Statics.cls` (Model/Statics.lean)"""
    if not o["mutable"] and o["const"] and not o["rtinit"]:
        return "constant"
    if o["role"] in ("loggingOnly", "verifHook") or (o["role"] == "randomStream" and o["object"]):
        return "config"
    return "state"


def key_of(o):
    """mirror of `Statics.key`"""
    return (o["file"], o["scope"], o["name"])


def render(table):
    lines = ["import TapkeeVerif.Model.Statics",
             "/-! GENERATED by tools/translate_statics.py from include/tapkee, include/stichwort, src/cli/*.hpp — do not edit.",
             "    Objects of static storage duration and uses of the C library's hidden generator state. -/",
             "namespace TapkeeVerif.Gen.Statics", "open TapkeeVerif.Statics", "",
             "def table : List Obj := ["]
    rows = []
    for o in table:
        rows.append("  { name := %s, file := %s, line := %d, scope := %s,\n    decl := %s,\n    type := %s, isConst := %s, rtInit := %s, returned := %s, isObject := %s,\n    isMutable := %s, role := .%s, onDeterministicPath := %s }" % (
            lean_str(o["name"]), lean_str(o["file"]), o["line"], lean_str(o["scope"]), lean_str(o["decl"]),
            lean_str(o["type"]), lb(o["const"]), lb(o["rtinit"]), lb(o["returned"]), lb(o["object"]),
            "true" if o["mutable"] else "false", o["role"], "true" if o["det"] else "false"))
    lines.append(",\n".join(rows))
    lines += ["]", "", "end TapkeeVerif.Gen.Statics", ""]
    return "\n".join(lines)


def generate(repo, out_path):
    table = analyse(repo)
    content = render(table)
    try:
        if open(out_path).read() == content:
            return table
    except FileNotFoundError:
        pass
    os.makedirs(os.path.dirname(out_path), exist_ok=True)
    with open(out_path, "w") as f:
        f.write(content)
    return table


def accounted(o):
    """mirror of `Statics.accounted` (Model/Statics.lean)"""
    if o["role"] == "unknown":
        return False
    if o["mutable"] and o["det"]:
        return o["role"] in ("initOnly", "loggingOnly", "vantageChoice", "verifHook", "readOnlyLiteral")
    return True


# ---- regression snippets: hidden state the table MUST flag (an object with that name that is not accounted for) and
# harmless declarations it must NOT flag.  Each snippet is spliced into a header of the repository in memory.
MDS = "routines/multidimensional_scaling.hpp"
LEM = "routines/laplacian_eigenmaps.hpp"
VPT = "neighbors/vptree.hpp"
FN, NS = "function", "namespace"
SELFTEST = [
    # (label, file, function whose body receives the snippet | None for namespace scope, snippet, name, must be flagged)
    ("function-local static cache", MDS, "compute_distance_matrix",
     "    static DenseSymmetricMatrix memo;\n    if (memo.rows() > 0) return memo;\n", "memo", True),
    ("function-local thread_local cache", MDS, "compute_distance_matrix",
     "    thread_local DenseSymmetricMatrix memo;\n    if (memo.rows() > 0) return memo;\n", "memo", True),
    ("static thread_local", MDS, "compute_distance_matrix",
     "    static thread_local IndexType last_n = 0;\n    last_n += 1;\n", "last_n", True),
    ("static inside a lambda", MDS, "compute_distance_matrix",
     "    auto count_call = [&]() { static int calls = 0; return ++calls; };\n    (void)count_call();\n", "calls", True),
    ("static data member of a class template", MDS, None,
     "template <class T> struct DistanceMemo\n{\n    static DenseSymmetricMatrix stored;\n    static void keep(const T& m) { stored = m; }\n};\n"
     "template <class T> DenseSymmetricMatrix DistanceMemo<T>::stored;\n\n", "stored", True),
    ("inline static data member", MDS, None,
     "struct CallCounter\n{\n    static inline int count = 0;\n    static void tick() { ++count; }\n};\n\n", "count", True),
    ("mutable member of a const static", MDS, None,
     "struct HitCounter\n{\n    mutable int hits;\n};\nstatic const HitCounter hit_counter{0};\n"
     "inline int count_hit() { return ++hit_counter.hits; }\n\n", "hit_counter", True),
    ("namespace-scope variable without static", MDS, None,
     "namespace\n{\nDenseSymmetricMatrix shared_distance_cache;\n}\ninline void keep_distances(const DenseSymmetricMatrix& m) { shared_distance_cache = m; }\n\n",
     "shared_distance_cache", True),
    ("inline variable", MDS, None,
     "inline IndexType last_problem_size = 0;\ninline void note_size(IndexType n) { last_problem_size = n; }\n\n",
     "last_problem_size", True),
    ("namespace-scope thread_local", MDS, None,
     "thread_local IndexType tls_problem_size = 0;\ninline void note_tls(IndexType n) { tls_problem_size = n; }\n\n",
     "tls_problem_size", True),
    ("rand() in a deterministic stage", MDS, "compute_distance_matrix",
     "    const IndexType first_row = std::rand() % 7;\n    (void)first_row;\n", "std::rand state via std::rand", True),
    ("rand() in the VP-tree outside the override branch (F-VP-RAND reverted)", VPT, "buildFromPoints",
     "        const int unguarded_vantage = std::rand() % 3;\n        (void)unguarded_vantage;\n",
     "std::rand state via std::rand", True),
    ("uniform_random() in the VP-tree outside the override branch", VPT, "buildFromPoints",
     "        const double unguarded_fraction = tapkee::uniform_random();\n        (void)unguarded_fraction;\n",
     "std::rand state via uniform_random", True),
    ("constants", MDS, None,
     "static const int distance_passes = 2;\nconstexpr double distance_tolerance = 1e-12;\nstatic const char* const stage_name = \"mds\";\n\n",
     "distance_passes", False),
    ("function-local constant", MDS, "compute_distance_matrix",
     "    static const ScalarType half = 0.5;\n    (void)half;\n", "half", False),
    # a const static is only a constant if its initialiser is: these freeze a value of the FIRST call for the process
    ("function-local static const initialised from a parameter", LEM, "compute_laplacian",
     "    static const ScalarType inv_width = 1.0 / width;\n    (void)inv_width;\n", "inv_width", True),
    ("function-local static const initialised from a local / a call", MDS, "compute_distance_matrix",
     "    static const IndexType first_size = end - begin;\n    (void)first_size;\n", "first_size", True),
    ("function-local static const initialised by a call", MDS, "compute_distance_matrix",
     "    static const int threads_at_first_call = omp_get_max_threads();\n    (void)threads_at_first_call;\n",
     "threads_at_first_call", True),
    ("function-local constexpr / numeric_limits constant", MDS, "compute_distance_matrix",
     "    static const ScalarType tiny = std::numeric_limits<ScalarType>::epsilon();\n    (void)tiny;\n", "tiny", False),
    ("singleton handed out by reference", MDS, None,
     "struct DistanceRegistry\n{\n    DenseSymmetricMatrix last;\n};\ninline DistanceRegistry& distance_registry()\n{\n"
     "    static DistanceRegistry the_registry;\n    return the_registry;\n}\n"
     "inline void remember(const DenseSymmetricMatrix& m) { distance_registry().last = m; }\n\n", "the_registry", True),
]

# used when a header no longer has the function / namespace the snippet is meant for: the snippet is then judged in
# a synthetic header of the same path (a missing anchor is never an alarm by itself)
SYNTHETIC = """#pragma once
namespace tapkee
{
namespace tapkee_internal
{
template <class RandomAccessIterator, class PairwiseCallback>
DenseSymmetricMatrix %(fn)s(RandomAccessIterator begin, RandomAccessIterator end, PairwiseCallback callback)
{
    DenseSymmetricMatrix result(end - begin, end - begin);
    return result;
}
} // namespace tapkee_internal
} // namespace tapkee
"""


def splice(src, rel, fn, text):
    """insert `text` at a position found STRUCTURALLY (tokenizer + scope tracking, not source text): right after the
    line holding the opening brace of the last definition of function `fn`, or — for fn None — right after the line
    holding the opening brace of the innermost leading `namespace tapkee… {`.  None if there is no such position."""
    try:
        sc = FileScan(rel, src)
    except Exception:
        return None
    toks, line = sc.toks, None
    if fn is not None:
        for i in range(len(toks) - 1):
            if toks[i][0] == "{" and sc.ctx[i][1] == "" and sc.ctx[i + 1][1].split("::")[-1] == fn:
                line = toks[i][1]
    else:
        for i in range(2, len(toks)):
            if toks[i][0] == "{" and toks[i - 2][0] == "namespace" and toks[i - 1][0].startswith("tapkee") \
                    and sc.ctx[i][0] == "namespace":
                line = toks[i][1]
                if not (i + 1 < len(toks) and toks[i + 1][0] == "namespace"):
                    break
    if line is None:
        return None
    lines = src.split("\n")
    return "\n".join(lines[:line] + [text.rstrip("\n")] + lines[line:])


def selftest(repo):
    """returns the list of snippets the scanner gets wrong (empty = pass)"""
    base = os.path.join(repo, "include", "tapkee")
    wrong = []
    for label, rel, fn, text, name, must_flag in SELFTEST:
        path = os.path.join(base, rel)
        new = None
        if os.path.exists(path):
            new = splice(open(path, errors="replace").read(), rel, fn, text)
        if new is None:
            new = splice(SYNTHETIC % {"fn": fn or "compute_distance_matrix"}, rel, fn, text)
        if new is None:
            continue              # cannot happen with the synthetic header; never an alarm by itself
        try:
            table = analyse(repo, {rel: new})
        except Exception as ex:
            if must_flag:
                continue          # failing loudly is also "not silently accepted"
            wrong.append("%s: scanner raised %r" % (label, ex))
            continue
        objs = [o for o in table if o["name"] == name and o["file"] == rel]
        # flagged = breaks `no_hidden_state`, or is a non-constant object (every one of those has to be in the
        # hand-kept accepted list of Props/C12.lean, which a spliced-in object never is)
        flagged = any(not accounted(o) or cls_of(o) != "constant" for o in objs)
        if must_flag and not flagged:
            wrong.append("%s: `%s` NOT flagged (%s)" % (label, name, [(o["role"], o["mutable"], o["det"]) for o in objs]))
        if not must_flag and (flagged or not objs):
            wrong.append("%s: `%s` %s" % (label, name, "flagged although harmless" if flagged else "not listed"))
    return wrong


if __name__ == "__main__":
    if len(sys.argv) > 1 and sys.argv[1] == "--selftest":
        repo = sys.argv[2] if len(sys.argv) > 2 else os.environ.get("TAPKEE_REPO", "/repo")
        bad = selftest(repo)
        for b in bad:
            print("SELFTEST FAIL:", b)
        print("translate_statics self-test: %d snippets, %d wrong" % (len(SELFTEST), len(bad)))
        sys.exit(1 if bad else 0)
    repo = sys.argv[1] if len(sys.argv) > 1 else os.environ.get("TAPKEE_REPO", "/repo")
    here = os.path.dirname(os.path.dirname(os.path.abspath(__file__)))
    out = sys.argv[2] if len(sys.argv) > 2 else os.path.join(here, "lean", "TapkeeVerif", "Gen", "Statics.lean")
    for o in generate(repo, out):
        print("%-8s %-12s %-5s det=%-5s rt=%-5s %s:%d %s [%s] %s" % (cls_of(o), o["role"], "mut" if o["mutable"] else "const", o["det"],
                                                   o["rtinit"], o["file"], o["line"], o["name"], o["scope"], o["decl"][:70]))
