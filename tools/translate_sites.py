#!/usr/bin/env python3
"""(T) site inventory for property C01: EVERY Eigen slice / index site of the library, with a coverage tag.

Regenerates lean/TapkeeVerif/Gen/IndexSites.lean from the working tree of the repository on every run (called from
checks/c01.py's translate step).  Scanned: include/tapkee/{routines,methods,neighbors,utils}/*.hpp and
external/barnes_hut_sne/*.hpp.  A SITE is

  * a slice / coefficient method call   `O.block( .col( .row( .segment( .head( .tail( .leftCols( .rightCols( .topRows(
    .bottomRows( .middleCols( .middleRows( .coeff( .coeffRef( .topLeftCorner( ...` (kind `slice:<method>`),
  * `operator()` on a variable / member whose declared type is a matrix or vector type, and `.first(i)` / `.second(i)` on
    an eigendecomposition result (kind `call`),
  * a subscript `O[...]` on anything (std::vector, raw pointer, iterator, v_array …) except the keyword map
    `parameters[...]`, array declarations, `new T[n]`, `delete[]`, lambda introducers (kind `subscript`).

Each site is reported with the enclosing function (`Class::function`), its NORMALISED text and a coverage tag:

  theorem <name>   the site is one of those an in-bounds theorem of Props/C01.lean is stated over (table THEOREM_SITES:
                   file, function, shape of the raw text -> theorem; a row that matches no site raises — broken tie)
  loopvar          every index argument is the variable of an enclosing `for (v = a; v < B; ++v)` (a a non-negative
                   literal or an enclosing such variable, v not written in the body, B not written in the function) and B
                   is SYNTACTICALLY the extent of the indexed dimension: `O.rows()/cols()/size()` of the same object text,
                   or the constructor / Zero / Ones / Constant / resize / malloc / calloc / new[] argument of an object
                   that is sized exactly once in the function and never assigned, resized, pushed to or swapped
                   afterwards (for `begin[...]`: `end - begin`).  The (lower bound, B, extent) triples are emitted and the
                   equality B = extent is re-checked in Lean (Props/C01Sites.lean, `loopvar_sites_in_range`).
  sweep-only       everything else: covered by the sanitizer sweep only; pinned by Props/C01Sites.lean (`accepted`).

Normal form of a site text: canonical source (tools/translate_index.canonical: comments, whitespace, increments, braces,
for/while spellings, …), casts to integer types dropped, locals that are initialised once and never written again
replaced by their initialiser (so naming / un-naming an index expression does not change the text), the remaining
locals, loop variables and parameters renamed `$1, $2, …` in order of first occurrence INSIDE the site text (so renaming
a local does not change it).  Members, fields, functions and types keep their names.  Sites with the same
(file, function, normal form) are merged with a count; the pin is `count <= accepted count`.

An unbalanced file or a function header the scope parser cannot read raises TranslateError (broken tie)."""
import os
import re
import sys

sys.path.insert(0, os.path.dirname(os.path.abspath(__file__)))
import translate_index as T  # noqa: E402

TranslateError = T.TranslateError

DIRS = ["tapkee/routines", "tapkee/methods", "tapkee/neighbors", "tapkee/utils", "tapkee/external/barnes_hut_sne"]

SLICE_DIMS = {   # method -> which extent each argument is measured against ("r" rows, "c" cols, "n" size, "-" a length)
    "block": None, "col": "c", "row": "r", "segment": None, "head": None, "tail": None, "leftCols": None,
    "rightCols": None, "topRows": None, "bottomRows": None, "middleCols": None, "middleRows": None, "coeff": "rc",
    "coeffRef": "rc", "topLeftCorner": None, "topRightCorner": None, "bottomLeftCorner": None, "bottomRightCorner": None,
    "at": "n",
}
MATRIX_TYPE = re.compile(r"Matrix|Vector|Array|Eigen::|\bMap<|\bDerived\b")
NOT_MATRIX_TYPE = re.compile(r"Callback|Function|Operation|Comparator|Generator|Context|Strategy|std::vector|Iterator|iterator")
PAIR_TYPE = re.compile(r"EigendecompositionResult|Laplacian\b|std::pair")
KEYWORDS = {"return", "delete", "else", "new", "throw", "case", "goto", "typename", "using", "typedef", "namespace",
            "template", "struct", "class", "if", "for", "while", "do", "switch", "sizeof", "static_cast", "const_cast",
            "reinterpret_cast", "dynamic_cast", "operator", "public", "private", "protected", "friend", "catch", "try",
            "enum", "union", "static", "inline", "const", "virtual", "explicit", "break", "continue", "default", "this",
            "true", "false", "NULL", "void", "int", "unsigned", "double", "float", "bool", "char", "long", "short",
            "size_t", "auto", "and", "or", "not", "mutable", "volatile", "extern", "register", "signed"}
INT_CASTS = re.compile(r"\b(?:static_cast ?< ?(?:IndexType|int|size_t|unsigned|long|std::size_t|unsigned int|typename \w+::\w+|\w+::size_type|Index) ?>|\((?:IndexType|int|size_t|unsigned)\))\s*(?=\()")
TYPE_RE = r"(?:(?:const|static|unsigned|typename|mutable|volatile) )*[A-Za-z_][\w:]*(?:<(?:[^<>;(){}]|<(?:[^<>;(){}]|<[^<>;(){}]*>)*>)*>)?(?:::\w+)*(?: const)?(?: ?[*&]+(?: ?const)?)?"
TYPEISH = re.compile(r"^(?:int|unsigned|double|float|bool|char|long|short|size_t|auto|void)\b|::|<|^[A-Z]\w*[a-z]\w*")
DECL_RE = re.compile(r"(?:(?<=[;{}])|(?<=for \()|(?<=for\()|^) ?(" + TYPE_RE + r") ?([A-Za-z_]\w*) ?(?=(=[^=]|;|\(|\[|,|:[^:]|\{|\)))")


# ----------------------------------------------------------------------------- text helpers
def strip_preprocessor(raw):
    """drop preprocessor directives (with continuation lines); `#pragma` lines are dropped by `canonical` anyway"""
    out = []
    lines = raw.split("\n")
    i = 0
    while i < len(lines):
        l = lines[i]
        if re.match(r"\s*#", l):
            while l.rstrip().endswith("\\") and i + 1 < len(lines):
                i += 1
                l = lines[i]
            out.append("")
        else:
            out.append(l)
        i += 1
    return "\n".join(out)


def match_close(s, i, open_ch="(", close_ch=")"):
    """s[i] == open_ch -> index of the matching close_ch (or -1)"""
    depth = 0
    for j in range(i, len(s)):
        c = s[j]
        if c == open_ch:
            depth += 1
        elif c == close_ch:
            depth -= 1
            if depth == 0:
                return j
    return -1


def match_open(s, j, open_ch="(", close_ch=")"):
    """s[j] == close_ch -> index of the matching open_ch (or -1)"""
    depth = 0
    for i in range(j, -1, -1):
        c = s[i]
        if c == close_ch:
            depth += 1
        elif c == open_ch:
            depth -= 1
            if depth == 0:
                return i
    return -1


def split_top(s, sep=","):
    out, depth, cur = [], 0, []
    for ch in s:
        if ch in "([{<" and not (ch == "<" and depth == 0 and False):
            if ch != "<":
                depth += 1
        elif ch in ")]}":
            depth -= 1
        if ch == sep and depth == 0:
            out.append("".join(cur).strip())
            cur = []
        else:
            cur.append(ch)
    t = "".join(cur).strip()
    if t or out:
        out.append(t)
    return out


def object_start(s, dot):
    """start index of the postfix expression that ends just before s[dot] (dot = index of `.`, `->`'s `-`, `[` or `(`)"""
    i = dot - 1
    while i >= 0 and s[i] == " ":
        i -= 1
    while i >= 0:
        c = s[i]
        if c == ")":
            o = match_open(s, i, "(", ")")
            if o < 0:
                break
            i = o - 1
            # a call / cast name in front of the parenthesis belongs to the object
            k = i
            while k >= 0 and s[k] == " ":
                k -= 1
            if k >= 0 and s[k] == ">":         # template call  f<...>(…)
                o2 = match_open(s, k, "<", ">")
                if o2 > 0 and (s[o2 - 1].isalnum() or s[o2 - 1] == "_"):
                    i = o2 - 1
                    continue
            if k >= 0 and (s[k].isalnum() or s[k] == "_"):
                i = k
                continue
            return i + 1 if s[i + 1] != " " else i + 2
        if c == "]":
            o = match_open(s, i, "[", "]")
            if o < 0:
                break
            i = o - 1
            continue
        if c.isalnum() or c == "_":
            while i >= 0 and (s[i].isalnum() or s[i] == "_"):
                i -= 1
            # qualified / member access continues the chain
            if i >= 0 and s[i] == ".":
                i -= 1
                continue
            if i >= 1 and s[i - 1:i + 1] in ("->", "::"):
                i -= 2
                continue
            if i >= 0 and s[i] == "*" and (i == 0 or s[i - 1] in "([,=+-*/ <>!&|?:;{"):
                # a dereference `*it` directly in front is NOT part of a postfix expression
                pass
            return i + 1
        break
    return i + 1


def strip_int_casts(e):
    prev = None
    while prev != e:
        prev = e
        m = INT_CASTS.search(e)
        if m:
            o = m.end()
            c = match_close(e, o)
            if c > 0:
                inner = e[o + 1:c].strip()
                simple = re.fullmatch(r"[\w.\[\]$]+(?:\(\))?", inner) is not None
                e = e[:m.start()] + (inner if simple else "(" + inner + ")") + e[c + 1:]
    return e


def tidy(e):
    e = re.sub(r"\s+", " ", e).strip()
    e = re.sub(r" ?([\[\]().,]) ?", r"\1", e)
    e = re.sub(r",", ", ", e)
    e = re.sub(r"\(\((\$?\w+)\)\)", r"(\1)", e)
    return e


# ----------------------------------------------------------------------------- scopes
class Scope:
    def __init__(self, kind, name, start, header=""):
        self.kind, self.name, self.start, self.header = kind, name, start, header
        self.end = None
        self.loop = None          # (var, init, cmp, bound, inc_ok) for `for`
        self.children = []


def function_name(header):
    h = header.strip()
    while True:
        m = re.match(r"template ?<", h)
        if not m:
            break
        c = match_close(h, m.end() - 1, "<", ">")
        if c < 0:
            break
        h = h[c + 1:].strip()
    m = re.search(r"\boperator ?(\(\)|\[\]|[^\s\w(]+|\w+) ?\(", h)
    if m:
        return "operator" + m.group(1)
    for m in re.finditer(r"(~?[A-Za-z_][\w:~]*) ?\(", h):
        nm = m.group(1)
        if nm.split("::")[-1] in KEYWORDS or nm in ("__attribute__", "noexcept", "decltype", "alignas"):
            continue
        return nm
    return None


def parse_scopes(text, rel):
    """scope tree of a canonical text"""
    root = Scope("file", "", 0)
    stack = [root]
    boundary = 0      # index just after the last `;`, `{` or `}` (start of the current header)
    pdepth = 0
    i, n = 0, len(text)
    while i < n:
        c = text[i]
        if c == "(":
            pdepth += 1
        elif c == ")":
            pdepth -= 1
        elif c == ";" and pdepth == 0:
            boundary = i + 1
        elif c == "{":
            header = text[boundary:i].strip()
            infn = any(s.kind in ("function", "lambda") for s in stack)
            first = re.match(r"[A-Za-z_]\w*", header)
            fw = first.group(0) if first else ""
            sc = None
            if pdepth > 0:
                # a brace inside parentheses: a lambda body or a braced initialiser inside a call
                sc = Scope("lambda" if re.search(r"\) ?(?:mutable ?)?(?:-> ?[\w:<>]+ ?)?$", header) and "[" in header else "init", "", i, header)
                sc.pdepth = pdepth
                pdepth = 0
            elif fw in ("for", "while", "if", "switch", "catch"):
                sc = Scope(fw, "", i, header)
            elif fw in ("else", "do", "try") or header == "":
                sc = Scope(fw or "block", "", i, header)
            elif re.match(r"(?:inline )?namespace\b", header) or header.startswith('extern "C"') or header.startswith("extern"):
                sc = Scope("namespace", "", i, header)
            elif not infn and re.search(r"\b(class|struct|union|enum)\b", header) and not header.rstrip().endswith(")") \
                    and not re.search(r"\)\s*(const|noexcept|override)?\s*$", header):
                m = re.search(r"\b(?:class|struct|union|enum(?: class)?) ([A-Za-z_]\w*)(?!.*\b(?:class|struct) [A-Za-z_]\w* ?(?:final ?)?(?::|$))", header)
                names = re.findall(r"\b(?:class|struct|union|enum(?: class)?) ([A-Za-z_]\w*)", header)
                sc = Scope("class", names[-1] if names else "?", i, header)
            elif infn:
                if re.search(r"\) ?(?:mutable ?)?(?:-> ?[\w:<>]+ ?)?$", header) and re.search(r"\[[^\]]*\] ?\(", header):
                    sc = Scope("lambda", "", i, header)
                else:
                    sc = Scope("init", "", i, header)
            else:
                if re.search(r"=\s*$", header) or not re.search(r"\)", header):
                    sc = Scope("init", "", i, header)       # `T x[] = { … }` / `T x = { … }` at class / namespace level
                else:
                    nm = function_name(header)
                    if nm is None:
                        raise TranslateError("%s: cannot read the function header %r" % (rel, header[-160:]))
                    sc = Scope("function", nm, i, header)
            sc.pdepth = getattr(sc, "pdepth", 0)
            stack[-1].children.append(sc)
            stack.append(sc)
            boundary = i + 1
        elif c == "}":
            if len(stack) == 1:
                raise TranslateError("%s: unbalanced `}` at offset %d" % (rel, i))
            sc = stack.pop()
            sc.end = i
            pdepth = sc.pdepth
            if sc.pdepth == 0:
                boundary = i + 1
        i += 1
    if len(stack) != 1:
        raise TranslateError("%s: unbalanced `{` (scope %s %s never closed)" % (rel, stack[-1].kind, stack[-1].name))
    root.end = n
    return root


FOR_RE = re.compile(r"^for ?\((.*)\)$")


def parse_for(header):
    m = FOR_RE.match(header.strip())
    if not m:
        return None
    parts = split_top(m.group(1), ";")
    if len(parts) != 3:
        return None       # range-for
    init, cond, inc = parts
    mi = re.match(r"^(?:(" + TYPE_RE + r") )?([A-Za-z_]\w*) ?= ?(.+)$", init)
    if not mi:
        return None
    v = mi.group(2)
    mc = re.match(r"^%s ?(<=|<|!=) ?(.+)$" % re.escape(v), cond.strip())
    if not mc:
        mf = re.match(r"^(.+?) ?(>=|>) ?%s$" % re.escape(v), cond.strip())       # `B > v` is `v < B`
        if not mf:
            return None

        class _Flip:
            def group(self, i):
                return {1: "<" if mf.group(2) == ">" else "<=", 2: mf.group(1)}[i]
        mc = _Flip()
    inc_ok = inc.strip() in ("++" + v, v + "++", v + " += 1")
    return {"var": v, "init": mi.group(3).strip(), "cmp": mc.group(1), "bound": mc.group(2).strip(), "inc_ok": inc_ok,
            "declared": bool(mi.group(1))}


# ----------------------------------------------------------------------------- per function facts
class Decl:
    def __init__(self, name, typ, how, init, pos, is_param=False, loop=False):
        self.name, self.typ, self.how, self.init, self.pos = name, typ, how, init, pos
        self.is_param, self.loop = is_param, loop


def find_decls(text, base, is_params=False):
    """declarations `T name = e;` / `T name(args);` / `T name;` / `T name[n];` (several declarators of one statement too)"""
    out = []
    for m in DECL_RE.finditer(text):
        typ, name = m.group(1).strip(), m.group(2)
        tw = re.sub(r"^(?:(?:const|static|unsigned|typename|mutable|volatile) )+", "", typ)
        head = re.match(r"[A-Za-z_]\w*", tw)
        if name in KEYWORDS or (head and head.group(0) in KEYWORDS - {"int", "unsigned", "double", "float", "bool", "char",
                                                                      "long", "short", "size_t", "auto", "void"}):
            continue
        if typ.strip() in ("return", "delete", "else", "new", "throw", "case", "goto"):
            continue
        if not TYPEISH.search(tw):
            continue        # `N * D,` is a product, not the declaration of a pointer D
        j = m.end()
        while j < len(text) and text[j] == " ":
            j += 1
        nxt = text[j] if j < len(text) else ";"
        how, init = "plain", None
        if nxt == "=":
            # initialiser up to the top-level `;` or `,`
            depth, k = 0, j + 1
            while k < len(text):
                ch = text[k]
                if ch in "([{":
                    depth += 1
                elif ch in ")]}":
                    if depth == 0:
                        break
                    depth -= 1
                elif ch in ";," and depth == 0:
                    break
                k += 1
            how, init = "assign", text[j + 1:k].strip()
        elif nxt == "(" and not is_params:
            c = match_close(text, j)
            if c < 0:
                continue
            # `T f(args)` followed by `{` or `const` is a function, not an object
            rest = text[c + 1:c + 12].lstrip()
            if rest.startswith("{") or rest.startswith("const") or rest.startswith(":") or rest.startswith("->"):
                continue
            how, init = "ctor", text[j + 1:c].strip()
        elif nxt == "[":
            c = match_close(text, j, "[", "]")
            how, init = "array", text[j + 1:c].strip() if c > 0 else ""
        elif nxt == "{":
            continue
        out.append(Decl(name, typ, how, init, base + m.start(2), is_param=is_params))
        # further declarators of the same statement: `, name = e` / `, name(args)` / `, name`
        if not is_params and how in ("assign", "plain"):
            k = j if how == "plain" else k
            while k < len(text) and text[k] == ",":
                mm = re.match(r", ?([*&]?) ?([A-Za-z_]\w*) ?", text[k:])
                if not mm:
                    break
                k2 = k + mm.end()
                nm2 = mm.group(2)
                if k2 < len(text) and text[k2] == "=":
                    depth, k3 = 0, k2 + 1
                    while k3 < len(text):
                        ch = text[k3]
                        if ch in "([{":
                            depth += 1
                        elif ch in ")]}":
                            if depth == 0:
                                break
                            depth -= 1
                        elif ch in ";," and depth == 0:
                            break
                        k3 += 1
                    out.append(Decl(nm2, typ + mm.group(1), "assign", text[k2 + 1:k3].strip(), base + k + mm.start(2)))
                    k = k3
                else:
                    out.append(Decl(nm2, typ + mm.group(1), "plain", None, base + k + mm.start(2)))
                    k = k2
    return out


def written_names(body):
    """identifiers that are assigned, incremented, resized, pushed to, swapped, or whose address is taken in the text"""
    w = {}

    def add(n, why):
        w.setdefault(n, set()).add(why)
    body = re.sub(r"\bfree\((\w+)\); \1 = NULL;", r"free(\1);", body)
    for m in re.finditer(r"(?<![\w.>$])([A-Za-z_]\w*) ?(=(?!=)|\+=|-=|\*=|/=|%=|\|=|&=|<<=|>>=)", body):
        add(m.group(1), "assign" if m.group(2) == "=" else "update")
    for m in re.finditer(r"(?:\+\+|--) ?([A-Za-z_]\w*)|([A-Za-z_]\w*) ?(?:\+\+|--)", body):
        add(m.group(1) or m.group(2), "inc")
    for m in re.finditer(r"(?<![\w.>])([A-Za-z_]\w*)(?:\.|->)(resize|conservativeResize|push_back|emplace_back|pop_back|erase|clear|swap|insert|assign|setZero|setConstant|reserve|resizeLike)\(", body):
        if m.group(2) in ("reserve",) or (m.group(2) in ("setZero", "setConstant") and re.match(r"\)", body[m.end():])):
            continue
        add(m.group(1), "m:" + m.group(2))
    for m in re.finditer(r"(?:^|[(,=;{}?:!|+\-*/<>] ?)&(?!&) ?([A-Za-z_]\w*)\b(?! ?\()", body):
        add(m.group(1), "addr")
    for m in re.finditer(r"\bswap\(([A-Za-z_]\w*), ?([A-Za-z_]\w*)\)", body):
        add(m.group(1), "swap")
        add(m.group(2), "swap")
    for m in re.finditer(r">> ?([A-Za-z_]\w*)", body):
        add(m.group(1), "assign")
    return w


class Function:
    def __init__(self, rel, qual, scope, text, class_decls):
        self.rel, self.qual, self.scope, self.text = rel, qual, scope, text
        self.body = text[scope.start + 1:scope.end]
        self.body_a = re.sub(r"\bfree\((\w+)\); \1 = NULL;", r"free(\1);", self.body)
        hdr = scope.header
        # parameters: the first top-level parenthesis group after the function name
        self.decls = {}
        m = re.search(re.escape(scope.name.split("::")[-1]) + r" ?\(", hdr) if not scope.name.startswith("operator") else re.search(r"operator ?(?:\(\)|\[\]|[^\s\w(]+|\w+) ?\(", hdr)
        if m:
            o = m.end() - 1
            c = match_close(hdr, o)
            if c > 0:
                for p in split_top(hdr[o + 1:c]):
                    p = re.sub(r" ?=.*$", "", p).strip()
                    mm = re.match(r"^(" + TYPE_RE + r") ?([A-Za-z_]\w*)(?:\[\])?$", p)
                    if mm:
                        self.decls[mm.group(2)] = Decl(mm.group(2), mm.group(1), "param", None, -1, is_param=True)
        self.multi = set()
        self.range_vars = {}          # `for (T v : R)` -> R
        self.decl_positions = set()
        for d in find_decls(self.body, scope.start + 1):
            self.decl_positions.add(d.pos)
            if d.name in self.decls and not self.decls[d.name].is_param:
                self.multi.add(d.name)        # declared more than once (sibling scopes): never expanded / trusted
            self.decls[d.name] = d
        self.class_decls = class_decls
        self.written = written_names(self.body)
        # `for (v = a; …)` with v declared elsewhere counts as a loop variable, its writes inside for-headers are the loop's
        self.loops = []

    def decl(self, name):
        return self.decls.get(name) or self.class_decls.get(name)

    def is_local(self, name):
        return name in self.decls

    def stable(self, name):
        """declared once in this function, initialised there, never written afterwards"""
        d = self.decls.get(name)
        if d is None or name in self.multi or d.loop:
            return False
        if d.is_param:
            return name not in self.written
        why = self.written.get(name, set())
        if d.how == "assign":
            # the declaration itself is the one `name =` occurrence
            n_assign = len(re.findall(r"(?<![\w.>$])%s ?=(?!=)" % re.escape(name), self.body_a))
            return why <= {"assign"} and n_assign <= 1
        return not why


def expand(fn, e, depth=0, seen=()):
    """replace locals that are initialised once (`T x = init;`, init short) and never written again by their initialiser"""
    if depth > 4:
        return e

    def repl(m):
        name = m.group(0)
        pre = e[:m.start()].rstrip()
        if pre.endswith((".", "->", "::")) or name in seen:
            return name
        post = e[m.end():].lstrip()
        delimited = (pre[-1:] in ("[", "(", ",") or pre == "") and (post[:1] in ("]", ")", ",") or post == "")
        if name in fn.range_vars:
            # the variable of `for (T v : R)` is an element of R
            r_ = expand(fn, strip_int_casts(fn.range_vars[name]), depth + 1, seen + (name,))
            if not re.fullmatch(r"[\w.$:]+(?:\([^()]*\))?(?:\[[^\[\]]*\])*", r_):
                r_ = "(" + r_ + ")"
            return r_ + "[%]"
        d = fn.decls.get(name)
        if d is None or d.is_param or d.how != "assign" or d.init is None or not fn.stable(name):
            return name
        if not (d.typ.rstrip().endswith("&") or re.search(r"^(?:const )?(?:unsigned )?(?:IndexType|int|size_t|unsigned|long|std::size_t|[\w:<>]+::size_type)$", d.typ.strip())):
            return name          # only integer values and reference aliases are looked through
        init = strip_int_casts(d.init)
        if len(init) > 90 or re.search(r"[{}?]|\bnew\b|lambda|\[[&=]?\]", init):
            return name
        if re.search(r"\b(?:malloc|calloc)\b|::(?:Zero|Ones|Constant|Random|Identity)\(", init):
            return name          # an allocation names an object, not a value
        inner = expand(fn, init, depth + 1, seen + (name,))
        if delimited or re.fullmatch(r"[\w.$:%]+(?:\([^()]*\))?(?:\[[^\[\]]*\])*|\d+", inner):
            return inner
        return "(" + inner + ")"
    return re.sub(r"(?<![\w$])[A-Za-z_]\w*(?![\w(])", repl, e)


def alpha(fn, e, names=None):
    """rename locals / loop variables / parameters of the enclosing function `$1, $2, …` by first occurrence"""
    names = {} if names is None else names

    def repl(m):
        name = m.group(0)
        pre = e[:m.start()].rstrip()
        if pre.endswith((".", "->", "::")) or name in KEYWORDS:
            return name
        if not fn.is_local(name):
            return name
        if fn.decls[name].loop:
            return "%"            # a for-loop counter (which one is told by the extent triple / the raw spelling)
        if name not in names:
            names[name] = "$%d" % (len(names) + 1)
        return names[name]
    return re.sub(r"(?<![\w$])[A-Za-z_]\w*(?!\w)", repl, e)


def normal_form(fn, raw, rename=True, names=None):
    e = strip_int_casts(raw)
    e = expand(fn, e)
    e = strip_int_casts(e)
    if rename:
        e = alpha(fn, e, names)
    return tidy(e)


# ----------------------------------------------------------------------------- extents
def sized_once(fn, name):
    """(rows, cols) / (n,) of an object of this function that is sized exactly once and never re-shaped or assigned"""
    d = fn.decls.get(name)
    if d is None or name in fn.multi:
        return None
    why = set(fn.written.get(name, set()))
    reshaping = {"m:resize", "m:conservativeResize", "m:push_back", "m:emplace_back", "m:pop_back", "m:erase", "m:clear",
                 "m:swap", "swap", "m:insert", "m:assign", "m:resizeLike", "m:setZero", "m:setConstant", "addr"}
    dims = None
    n_assign = len(re.findall(r"(?<![\w.>$])%s ?=(?!=)" % re.escape(name), fn.body_a))
    if d.how == "ctor" and d.init:
        args = split_top(d.init)
        if why & (reshaping | {"assign"}) or n_assign:
            return None
        if re.search(r"std::vector|Indices|Landmarks|LocalNeighbors|Neighbors\b|VisitedVector|v_array", d.typ) or (len(args) in (1, 2) and not MATRIX_TYPE.search(d.typ) and "Map<" not in d.typ):
            if len(args) in (1, 2) and not re.search(r"\.begin\(\)|\.end\(\)|^begin$|^end$", d.init):
                return (args[0],)
            return None
        if "Map<" in d.typ:
            if len(args) == 3:
                return (args[1], args[2])
            if len(args) == 2:
                return (args[1],)
            return None
        if MATRIX_TYPE.search(d.typ):
            if len(args) == 2:
                return (args[0], args[1])
            if len(args) == 1 and re.search(r"Vector|Array", d.typ) and not re.search(r"[A-Za-z_]\w*\(|\*|\+|-", args[0].replace("static_cast", "")):
                return (args[0],)
            if len(args) == 1 and re.search(r"Vector", d.typ):
                return (args[0],)
        return None
    if d.how == "assign" and d.init:
        if why & reshaping or n_assign > 1:
            return None
        m = re.match(r"^(?:\w+::)?\w+::(?:Zero|Ones|Constant|Random)\((.*)\)$", d.init)
        if m:
            args = split_top(m.group(1))
            if "Constant" in d.init:
                args = args[:-1]
            if len(args) in (1, 2):
                return tuple(args)
        m = re.match(r"^\(?[\w:]+ ?\*\)? ?(malloc|calloc)\((.*)\)$", d.init)
        if m:
            args = split_top(m.group(2))
            if m.group(1) == "calloc" and len(args) == 2 and args[1].startswith("sizeof"):
                return (args[0],)
            if m.group(1) == "malloc" and len(args) == 1:
                mm = re.match(r"^(.*) \* sizeof\([\w:]+\)$", args[0])
                if mm:
                    return (mm.group(1),)
        m = re.match(r"^new [\w:]+\[(.*)\]$", d.init)
        if m:
            return (m.group(1),)
        return None
    if d.how == "array" and d.init and not why:
        return (d.init,)
    if d.how == "plain":
        # `T x; x.resize(n);` exactly once
        rs = re.findall(r"(?<![\w.>])%s\.resize\(" % re.escape(name), fn.body)
        if len(rs) == 1 and why <= {"m:resize"} and not n_assign:
            m = re.search(r"(?<![\w.>])%s\.resize\(" % re.escape(name), fn.body)
            c = match_close(fn.body, m.end() - 1)
            args = split_top(fn.body[m.end():c])
            if len(args) in (1, 2):
                return tuple(args)
    return None


def extent(fn, obj, which):
    """candidate texts (normal form) of the extent of `obj` in dimension which ('r','c','n')"""
    cands = []
    o = tidy(obj)
    getters = {"r": ["rows()"], "c": ["cols()"], "n": ["size()", "rows()"]}[which]
    for g in getters:
        cands.append(o + "." + g)
    if re.fullmatch(r"[A-Za-z_]\w*", o):
        dims = sized_once(fn, o)
        if dims:
            if len(dims) == 2:
                if which == "r":
                    cands.append(dims[0])
                elif which == "c":
                    cands.append(dims[1])
            elif which == "n":
                cands.append(dims[0])
        if o == "begin" and which == "n" and "begin" not in fn.written and "end" not in fn.written:
            cands.append("end - begin")
    return [normal_form(fn, c, rename=False) for c in cands]


def bound_is_fixed(fn, bound):
    """no identifier of the bound expression is written anywhere in the function (loop headers aside)"""
    for m in re.finditer(r"(?<![\w.>$])[A-Za-z_]\w*(?![\w(])", bound):
        nm = m.group(0)
        pre = bound[:m.start()].rstrip()
        if pre.endswith((".", "->", "::")):
            continue
        if nm in fn.decls and not fn.decls[nm].is_param and not fn.stable(nm):
            return False
        if nm in fn.decls and fn.decls[nm].is_param and nm in fn.written:
            return False
        if nm not in fn.decls and nm in fn.written:
            return False
    # the object whose extent is the bound must not be re-shaped either
    for m in re.finditer(r"(?<![\w.>$])([A-Za-z_]\w*)\.(?:rows|cols|size)\(\)", bound):
        why = fn.written.get(m.group(1), set())
        if [x for x in why if x.startswith("m:") or x == "swap"]:
            return False
    return True


# ----------------------------------------------------------------------------- theorem-covered sites
# (file suffix, function regex, regex on the RAW canonical site text, theorem of Props/C01.lean, minimum number of sites)
# The generated definitions the theorem is stated over are extracted from exactly these fragments by translate_index.py.
THEOREM_SITES = [
    # hessian_weight_matrix: every `Yi.col(<compound index>)` is the written column (inb_hlle_col) or one of the read /
    # normalised columns (inb_hlle_blocks); a bare `Yi.col(i)` (Gram-Schmidt) is NOT covered by them
    ("routines/locally_linear.hpp", r"hessian_weight_matrix$", r"^\w+\.col\((?!\w+\)$).+\)$", "inb_hlle_col|inb_hlle_blocks", 4),
    ("routines/locally_linear.hpp", r"hessian_weight_matrix$", r"^\w+\.block\(0, .*\)$", "inb_hlle_blocks", 1),
    ("routines/locally_linear.hpp", r"hessian_weight_matrix$", r"^\w+\.rightCols\(\w+\)$", "inb_hlle_blocks", 2),
    ("routines/locally_linear.hpp", r"hessian_weight_matrix$", r"^\w+\.eigenvectors\(\)\.rightCols\(.*\)$", "inb_hlle_eigvec_rightCols", 1),
    ("routines/locally_linear.hpp", r"tangent_weight_matrix$", r"^\w+\.rightCols\(.*\)$", "inb_ltsa_g", 1),
    ("routines/locally_linear.hpp", r"tangent_weight_matrix$", r"^\w+\.eigenvectors\(\)\.rightCols\(.*\)$", "inb_ltsa_eigvec_rightCols", 1),
    ("routines/eigendecomposition.hpp", r"eigendecomposition_impl_dense$", r"\.leftCols\(.*\)(?:\.rightCols\(.*\))?$", "inb_dense_smallest_cols", 2),
    ("routines/eigendecomposition.hpp", r"eigendecomposition_impl_dense$", r"\.eigenvectors\(\)\.rightCols\(.*\)$", "inb_dense_largest_N", 1),
    ("routines/eigendecomposition.hpp", r"eigendecomposition_impl_dense$", r"\.eigenvalues\(\)\.tail\(.*\)$", "inb_dense_largest_N", 1),
    ("routines/eigendecomposition.hpp", r"eigendecomposition_impl_dense$", r"eigenvalues\(\)\.segment\(.*\)$", "inb_dense_segment", 1),
    ("routines/eigendecomposition.hpp", r"eigendecomposition_impl_randomized$", r"\.(?:rightCols|leftCols)\(.*\)$", "inb_randomized", 3),
    ("routines/generalized_eigendecomposition.hpp", r"generalized_eigendecomposition_impl_dense$", r"\.leftCols\(.*\)(?:\.rightCols\(.*\))?$", "inb_gen_le_cols", 2),
    ("routines/generalized_eigendecomposition.hpp", r"generalized_eigendecomposition_impl_dense$", r"\.eigenvectors\(\)\.rightCols\(.*\)$", "inb_gen_linear_cols", 1),
    ("routines/generalized_eigendecomposition.hpp", r"generalized_eigendecomposition_impl_dense$", r"\.eigenvalues\(\)\.tail\(.*\)$", "inb_gen_linear_cols", 1),
    ("routines/generalized_eigendecomposition.hpp", r"generalized_eigendecomposition_impl_dense$", r"eigenvalues\(\)\.segment\(.*\)$", "inb_gen_segment", 1),
    ("methods/diffusion_map.hpp", r"embed$", r"decomposition_result\.first\)?\.(?:leftCols|col)\(.*\)$", "inb_dm", 2),
    ("methods/diffusion_map.hpp", r"embed$", r"^decomposition_result\.second\(\w+\)$", "inb_dm", 1),
    ("routines/landmarks.hpp", r"triangulate$", r"^landmarks_embedding\.first\.(?:row|col)\(\w+\)$", "inb_triangulate", 2),
    ("routines/landmarks.hpp", r"triangulate$", r"^landmarks_embedding\.second\(\w+\)$", "inb_triangulate", 1),
    ("routines/spe.hpp", r"spe_embedding$", r"^ind1Neighbors\[.*\]$", "inb_spe_ind1", 2),
    ("external/barnes_hut_sne/quadtree.hpp", r"QuadTree::QuadTree(?:/\d+)?$", r"^inp_data\[.*\]$", "inb_tsne_y", 1),
    ("external/barnes_hut_sne/quadtree.hpp", r"computeEdgeForces$", r"^pos_f\[.*\]$", "inb_tsne_posf", 1),
    ("external/barnes_hut_sne/tsne.hpp", r"computeSquaredEuclideanDistance$", r"^X\[.*\]$", "inb_tsne_exact_error", 1),
    ("external/barnes_hut_sne/tsne.hpp", r"computeGaussianPerplexity/8$", r"^(?:cur_P\[\w+\]|distances\[\w+ \+ 1\])$", "inb_tsne_knn", 2),
    ("routines/manifold_sculpting.hpp", r"adjust_point_at_index$", r"^data\(\w+, index\)$", "inb_ms_rows", 1),
    ("routines/manifold_sculpting.hpp", r"manifold_sculpting_embed$", r"^data\.(?:bottomRows|topRows)\(.*\)$", "inb_ms_rows", 2),
    ("neighbors/covertree.hpp", r".*", r"^cover_sets\[\w+->scale\]$", "inb_cover_sets_all", 1),
    # `k = neighbors[0].size()` at the head of every consumer of the neighbour lists (list 0 exists: N >= 2 once validated)
    (".hpp", r".*", r"^neighbors\[0\]$", "inb_neighbors_outer", 6),
]


def neighbor_list_site(fn, obj_raw, idx_loop, fnorm):
    """`L[j]` where L is (an alias of) `neighbors[…]` and j runs below `neighbors[0].size()` (directly or through a local):
    the shape `inb_neighbor_lists` is stated over (common length of the lists = neighbor_lists_have_length_k)"""
    o = tidy(expand(fn, strip_int_casts(obj_raw)))
    if not re.match(r"^\(?neighbors\[.+\]\)?$", o):
        return False
    b = tidy(expand(fn, strip_int_casts(idx_loop["bound"])))
    while b.startswith("(") and match_close(b, 0) == len(b) - 1:
        b = b[1:-1].strip()
    return b == "neighbors[0].size()"


# ----------------------------------------------------------------------------- the scan
class Site:
    def __init__(self, rel, fn, kind, raw, norm, cov, args=None, why=""):
        self.rel, self.fn, self.kind, self.raw, self.norm, self.cov, self.args, self.why = rel, fn, kind, raw, norm, cov, args or [], why


def qualified(stack):
    parts = [s.name for s in stack if s.kind in ("class", "function") and s.name]
    return "::".join(parts)


def scan_file(repo, rel):
    raw = open(os.path.join(repo, "include", rel)).read()
    raw = re.sub(r"\b__TAPKEE_IMPLEMENTATION\((\w+)\)", r"class \1Implementation {", raw)
    raw = raw.replace("__TAPKEE_END_IMPLEMENTATION()", "};")
    text = T.canonical(strip_preprocessor(T.drop_verif_blocks(T.strip_comments(raw))))
    root = parse_scopes(text, rel)
    sites = []

    def class_members(sc):
        # declarations at class level = class text with the bodies of nested scopes blanked
        s = list(text[sc.start + 1:sc.end])
        for ch in sc.children:
            for k in range(ch.start - sc.start - 1, ch.end - sc.start):
                s[k] = " "
        flat = re.sub(r"\b(?:public|private|protected) ?:", ";", "".join(s))
        return {d.name: d for d in find_decls(flat, sc.start + 1)}

    def walk(sc, stack, members):
        if sc.kind == "class":
            members = dict(members)
            members.update(class_members(sc))
        if sc.kind == "function":
            found.append((qualified(stack + [sc]), sc, members))
            return
        for ch in sc.children:
            walk(ch, stack + [sc], members)

    found = []
    walk(root, [], {})
    names = [q for q, _, _ in found]
    for qual, sc, members in found:
        fn = Function(rel, qual, sc, text, members)
        if names.count(qual) > 1:
            # overloads are told apart by their number of parameters
            fn.qual = "%s/%d" % (qual, sum(1 for d in fn.decls.values() if d.is_param))
        scan_function(fn, sc, sites, text, rel)
    return sites


def enclosing_loops(sc_stack):
    return [s.loop for s in sc_stack if s.kind == "for" and s.loop]


def scan_function(fn, fsc, sites, text, rel):
    # loop records; a loop variable declared outside its `for` is marked as loop variable as well
    def prep(sc):
        if sc.kind == "for":
            sc.loop = parse_for(sc.header)
            hv = re.match(r"^for ?\((?:" + TYPE_RE + r" )?([A-Za-z_]\w*) ?=[^=]", sc.header.strip())
            if hv and hv.group(1) in fn.decls:
                fn.decls[hv.group(1)].loop = True       # a for-init variable is never looked through, whatever the condition
            rf = re.match(r"^for ?\(" + TYPE_RE + r" ?([A-Za-z_]\w*) ?: ?(.+)\)$", sc.header.strip())
            if rf and len(split_top(sc.header.strip()[sc.header.strip().index("(") + 1:-1], ";")) == 1:
                fn.range_vars[rf.group(1)] = rf.group(2).strip()
            if sc.loop:
                v = sc.loop["var"]
                body = text[sc.start + 1:sc.end]
                w = written_names(body).get(v, set())
                sc.loop["var_written_in_body"] = bool(w)
                if v in fn.decls:
                    fn.decls[v].loop = True
        for ch in sc.children:
            prep(ch)
    prep(fsc)
    # writes to a loop variable in its own for-header are the loop's: recompute `written` without for headers
    body_wo_headers = re.sub(r"\bfor ?\((?:[^()]|\((?:[^()]|\([^()]*\))*\))*\)", "for()", fn.body)
    fn.written = written_names(body_wo_headers)

    def leaf_positions(sc, stack):
        """yield (position, scope stack) for every character of the function body, innermost scope known"""
        pos = sc.start + 1
        for ch in sc.children:
            yield (pos, ch.start, stack + [sc])
            # the header of a child (`for (…)`) lies in the parent text just before ch.start: already covered above
            for x in leaf_positions(ch, stack + [sc]):
                yield x
            pos = ch.end + 1
        yield (pos, sc.end, stack + [sc])

    for a, b, stack in leaf_positions(fsc, []):
        seg = text[a:b]
        for m in re.finditer(r"(\.|->) ?([A-Za-z_]\w*) ?\(|\[|(?<![\w.>:])([A-Za-z_]\w*) ?\(", seg):
            p = a + m.start()
            if m.group(2):
                meth = m.group(2)
                par = a + m.end() - 1
                c = match_close(text, par)
                if c < 0:
                    continue
                if meth in SLICE_DIMS:
                    os_ = object_start(text, p)
                    obj = text[os_:p].strip()
                    args = split_top(text[par + 1:c])
                    if (meth == "at" and len(args) != 1) or not args or args == [""]:
                        continue        # `it->col()` / `it.row()` of a triplet or sparse iterator: an accessor, not a slice
                    add_site(fn, sites, stack, "slice:" + meth, obj, meth, args, text[os_:c + 1], rel)
                elif meth in ("first", "second") and m.group(1) == ".":
                    args = split_top(text[par + 1:c])
                    os_ = object_start(text, p)
                    obj = text[os_:p].strip()
                    if args and args != [""]:
                        add_site(fn, sites, stack, "call", text[os_:par].strip(), None, args, text[os_:c + 1], rel)
            elif m.group(0) == "[":
                k = p - 1
                while k >= 0 and text[k] == " ":
                    k -= 1
                if k < 0 or not (text[k].isalnum() or text[k] in "_)]"):
                    continue        # lambda introducer / attribute
                c = match_close(text, p, "[", "]")
                if c < 0:
                    continue
                os_ = object_start(text, p)
                obj = text[os_:p].strip()
                inner = text[p + 1:c].strip()
                if obj in ("parameters", "kwargs", "delete", "") or inner == "" or obj in KEYWORDS:
                    continue
                if re.fullmatch(r"operator", obj):
                    continue
                # `new T[n]` / array declaration `T name[n]`
                before = text[max(0, os_ - 40):os_]
                if re.search(r"\bnew (?:[\w:]+(?:<[^<>]*>)? ?)?$", before) or re.search(r"\bnew$", before.strip()):
                    continue
                d = fn.decls.get(obj)
                if d is not None and d.how == "array" and d.pos == os_:
                    continue
                if re.search(r"(?:^|[;{}(,] ?)(?:(?:const|static|unsigned) )*[A-Za-z_][\w:]*(?:<[^<>]*>)? $", before) and re.fullmatch(r"[A-Za-z_]\w*", obj) \
                        and not re.search(r"\b(?:return|delete|else|throw|case)\s$", before):
                    continue        # a declaration `T name[n]` the declaration scanner did not record (members)
                add_site(fn, sites, stack, "subscript", obj, None, [inner], text[os_:c + 1], rel)
            else:
                name = m.group(3)
                if name in KEYWORDS:
                    continue
                d = fn.decl(name)
                if d is None:
                    continue
                if d.pos == p or p in fn.decl_positions:
                    continue        # the constructor call of the declaration itself
                if NOT_MATRIX_TYPE.search(d.typ) or not MATRIX_TYPE.search(d.typ):
                    continue
                par = a + m.end() - 1
                c = match_close(text, par)
                if c < 0:
                    continue
                args = split_top(text[par + 1:c])
                if not args or args == [""]:
                    continue
                add_site(fn, sites, stack, "call", name, None, args, text[p:c + 1], rel)


def add_site(fn, sites, stack, kind, obj, meth, args, raw, rel):
    loops = [s.loop for s in stack if s.kind == "for" and s.loop]
    norm = normal_form(fn, raw)
    # ---- theorem-covered?
    for suffix, fre, sre, thm, _ in THEOREM_SITES:
        if rel.endswith(suffix) and re.search(fre, fn.qual) and re.search(sre, tidy(raw)):
            sites.append(Site(rel, fn.qual, kind, tidy(raw), norm, "theorem", why=thm))
            return
    # ---- loopvar?
    if kind.startswith("slice:"):
        dims = SLICE_DIMS[meth]
    elif kind == "subscript":
        dims = "n"
    else:
        dims = "rc" if len(args) == 2 else ("n" if len(args) == 1 else None)
    cov, triples, why = "sweep-only", [], ""
    if dims is not None and len(dims) == len(args):
        ok = True
        nl_ok = False
        for a_, which in zip(args, dims):
            a_s = strip_int_casts(a_.strip())
            a_s = a_s.strip()
            if a_s.startswith("(") and match_close(a_s, 0) == len(a_s) - 1:
                a_s = a_s[1:-1].strip()
            lp = None
            for l in loops:
                if l["var"] == a_s:
                    lp = l
            if lp is None:
                ok, why = False, "index `%s` is not the variable of an enclosing counted for-loop" % a_s
                break
            lo = loop_lower_bound(fn, lp, loops)
            if lp["cmp"] != "<" or not lp["inc_ok"] or lp["var_written_in_body"] or lo is None:
                ok, why = False, "loop over `%s`: comparison %s, unit increment %s, written in body %s, lower bound %s" % (
                    a_s, lp["cmp"], lp["inc_ok"], lp["var_written_in_body"], lo)
                break
            # `for (j = 0; j < i; ++j)` inside `for (i = a; i < B; ++i)`: j < i < B
            hops = 0
            while hops < 4:
                bt = strip_int_casts(lp["bound"]).strip()
                outer = [l for l in loops if l is not lp and l["var"] == bt and l["cmp"] == "<" and l["inc_ok"] and not l["var_written_in_body"]]
                if not outer:
                    break
                lp = dict(outer[-1], init=lp["init"])
                hops += 1
            if not bound_is_fixed(fn, lp["bound"]):
                ok, why = False, "bound `%s` is written inside the function" % lp["bound"]
                break
            if kind == "subscript" and neighbor_list_site(fn, obj, lp, fn):
                nl_ok = True
                continue
            if kind == "subscript" and tidy(obj) == "neighbors" and re.fullmatch(r"\(?end - begin\)?", normal_form(fn, lp["bound"], rename=False)) \
                    and "begin" not in fn.written and "end" not in fn.written:
                nl_ok = "inb_neighbors_outer"        # one list per sample: `neighbors[i]`, i < end - begin
                continue
            b = normal_form(fn, lp["bound"], rename=False)       # compared BEFORE renaming: same text = same variables
            b = b[1:-1] if b.startswith("(") and match_close(b, 0) == len(b) - 1 else b
            ex = [x[1:-1] if x.startswith("(") and match_close(x, 0) == len(x) - 1 else x for x in extent(fn, obj, which)]
            hit = [x for x in ex if x == b]
            if not hit:
                ok, why = False, "bound `%s` is not syntactically the extent of `%s` (candidates: %s)" % (b, tidy(obj), "; ".join(ex))
                break
            shared = {}
            triples.append((lo, tidy(alpha(fn, b, shared)), tidy(alpha(fn, hit[0], shared))))
        if ok and nl_ok and not triples:
            sites.append(Site(rel, fn.qual, kind, tidy(raw), norm, "theorem", why=nl_ok if isinstance(nl_ok, str) else "inb_neighbor_lists"))
            return
        if ok and not nl_ok:
            cov = "loopvar"
    else:
        why = "a slice with length arguments / unknown arity"
    sites.append(Site(rel, fn.qual, kind, tidy(raw), norm, cov, triples, why))


def loop_lower_bound(fn, lp, loops):
    """a non-negative literal lower bound of the loop variable's initial value: `v = 3` -> 3; `v = u`, `v = u + 2` with u an
    enclosing accepted loop variable -> 0 / 2; anything else -> None"""
    init = strip_int_casts(lp["init"]).strip()
    if re.fullmatch(r"\d+", init):
        return int(init)
    m = re.fullmatch(r"([A-Za-z_]\w*)(?: ?\+ ?(\d+))?", init)
    if m:
        for l in loops:
            if l is not lp and l["var"] == m.group(1) and l["cmp"] == "<" and l["inc_ok"] and not l["var_written_in_body"]:
                inner = loop_lower_bound(fn, l, [x for x in loops if x is not lp])
                if inner is not None:
                    return inner + int(m.group(2) or 0)
    return None


def inventory(repo):
    sites = []
    files = []
    for d in DIRS:
        p = os.path.join(repo, "include", d)
        if not os.path.isdir(p):
            raise TranslateError("directory %s not found" % d)
        for f in sorted(os.listdir(p)):
            if f.endswith(".hpp"):
                files.append(d + "/" + f)
    for rel in files:
        sites += scan_file(repo, rel)
    # every theorem row must still match its sites
    for suffix, fre, sre, thm, least in THEOREM_SITES:
        n = sum(1 for s in sites if s.cov == "theorem" and s.why == thm and s.rel.endswith(suffix) and re.search(fre, s.fn) and re.search(sre, s.raw))
        if n < least and not os.environ.get("SITES_LAX"):
            raise TranslateError("site table: %d site(s) of %s in %s match %r, the theorem %s is stated over at least %d" % (n, fre, suffix, sre, thm, least))
    return files, sites


# ----------------------------------------------------------------------------- output
def lean_str(s):
    return '"' + s.replace("\\", "\\\\").replace('"', '\\"') + '"'


def merged(sites):
    """(file, fn, norm, kind) -> [count, coverage, triples, raw examples]; sites that share a normal form but differ in
    coverage are kept apart (the weaker class is what the pin sees)"""
    out = {}
    for s in sites:
        key = (s.rel, s.fn, s.norm, s.cov, s.why if s.cov == "theorem" else "", tuple(s.args))
        e = out.setdefault(key, [0, [], set()])
        e[0] += 1
        e[2].add(s.kind)
        if s.raw not in e[1]:
            e[1].append(s.raw)
    return out


HEADER = """/-
GENERATED by tools/translate_sites.py from the working tree of the repository — DO NOT EDIT.
Inventory of EVERY Eigen slice / coefficient / subscript site of include/tapkee/{routines,methods,neighbors,utils} and
external/barnes_hut_sne, with its coverage: `thm n` (an in-bounds theorem of Props/C01.lean is stated over it),
`loopvar args` (every index is a counted loop variable whose bound is syntactically the extent of the indexed dimension;
`args` = (lower bound, bound, extent) per index, the equality is re-checked in Props/C01Sites.lean), `sweepOnly`
(sanitizer sweep only; pinned by Props/C01Sites.accepted).  `expr` is the NORMAL FORM (see the tool); the raw spellings
are in the comments.  Core Lean only.
-/

namespace TapkeeVerif.Gen.IndexSites

structure LoopArg where
  lo : Nat
  bound : String
  dim : String
  deriving Repr, DecidableEq

inductive Coverage where
  | thm (name : String)
  | loopvar (args : List LoopArg)
  | sweepOnly
  deriving Repr, DecidableEq

structure Site where
  file : String
  fn : String
  expr : String
  kind : String
  count : Nat
  cov : Coverage
  deriving Repr, DecidableEq
"""


def render(repo):
    files, sites = inventory(repo)
    mg = merged(sites)
    keys = sorted(mg)
    lines = [HEADER]
    per_file = {}
    for k in keys:
        per_file.setdefault(k[0], []).append(k)
    names = []
    for rel in sorted(files, key=lambda r: r.replace("tapkee/", "")):
        ks = per_file.get(rel, [])
        nm = "sites_" + re.sub(r"\W", "_", rel.replace("tapkee/", "").replace(".hpp", ""))
        names.append(nm)
        lines.append("def %s : List Site := [" % nm)
        rows = []
        for k in ks:
            cnt, raws, kinds = mg[k]
            _, fn, norm, cov, thm, triples = k
            kind = "+".join(sorted(kinds))
            if cov == "theorem":
                c = ".thm %s" % lean_str(thm)
            elif cov == "loopvar":
                c = ".loopvar [%s]" % ", ".join("⟨%d, %s, %s⟩" % (lo, lean_str(b), lean_str(d)) for lo, b, d in triples)
            else:
                c = ".sweepOnly"
            rows.append("  ⟨%s, %s, %s, %s, %d, %s⟩" % (lean_str(rel.replace("tapkee/", "")), lean_str(fn), lean_str(norm), lean_str(kind), cnt, c)
                        + "\x00  -- " + " | ".join(raws)[:160].replace("\n", " "))
        for i, r in enumerate(rows):
            body, com = r.split("\x00")
            lines.append(body + ("," if i + 1 < len(rows) else "") + com)
        lines.append("]")
        lines.append("")
    lines.append("def sites : List Site :=\n  " + " ++\n  ".join(names) if names else "def sites : List Site := []")
    lines.append("")
    lines.append("end TapkeeVerif.Gen.IndexSites")
    return "\n".join(lines) + "\n", files, sites, mg


def sweep_only_keys(mg):
    """{(file, fn, normal form): count} of the sweep-only class (same normal form in several kinds: counts added)"""
    out = {}
    for k, (cnt, raws, kinds) in mg.items():
        rel, fn, norm, cov, thm, triples = k
        if cov == "sweep-only":
            kk = (rel.replace("tapkee/", ""), fn, norm)
            out[kk] = out.get(kk, 0) + cnt
    return out


def summary(sites):
    tot = len(sites)
    return {"sites": tot, "theorem": sum(1 for s in sites if s.cov == "theorem"),
            "loopvar": sum(1 for s in sites if s.cov == "loopvar"),
            "loopvar_index_arguments": sum(len(s.args) for s in sites if s.cov == "loopvar"),
            "sweep_only": sum(1 for s in sites if s.cov == "sweep-only")}


def generate(repo, path):
    text, files, sites, mg = render(repo)
    old = open(path).read() if os.path.exists(path) else None
    if old != text:
        with open(path, "w") as f:
            f.write(text)
    return old != text, files, sites, mg


def snapshot(mg):
    """the Lean list literal of the sweep-only keys (to be reviewed and pasted into Props/C01Sites.lean)"""
    so = sweep_only_keys(mg)
    raws = {}
    for k, (cnt, rw, kinds) in mg.items():
        if k[3] == "sweep-only":
            raws.setdefault((k[0].replace("tapkee/", ""), k[1], k[2]), []).extend(rw)
    rows = []
    for (rel, fn, norm) in sorted(so):
        rows.append(("  (%s, %s, %s, %d)" % (lean_str(rel), lean_str(fn), lean_str(norm), so[(rel, fn, norm)]),
                     " | ".join(raws.get((rel, fn, norm), []))[:110]))
    return rows, raws


if __name__ == "__main__":
    repo = os.environ.get("TAPKEE_REPO", "/repo")
    if len(sys.argv) > 1 and sys.argv[1] == "--dump":
        files, sites = inventory(repo)
        for s in sites:
            print("%-44s %-44s %-10s %-28s %s   {%s} %s" % (s.rel.replace("tapkee/", ""), s.fn[:44], s.cov, (s.why if s.cov == "theorem" else "")[:28], s.raw[:90], s.norm[:80], s.args or ""))
            if s.cov == "sweep-only" and "-v" in sys.argv:
                print("        why:", s.why)
        print(summary(sites))
    elif len(sys.argv) > 1 and sys.argv[1] == "--snapshot":
        text, files, sites, mg = render(repo)
        rows, raws = snapshot(mg)
        for i, (r, c) in enumerate(rows):
            print(r + ("," if i + 1 < len(rows) else "") + "  -- " + c)
    else:
        out = os.path.join(os.path.dirname(os.path.dirname(os.path.abspath(__file__))), "lean", "TapkeeVerif", "Gen", "IndexSites.lean")
        ch = generate(repo, out)[0]
        print("Gen/IndexSites.lean", "regenerated" if ch else "unchanged")
