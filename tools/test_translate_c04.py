#!/usr/bin/env python3
"""Self-test of tools/translate_c04.py against behaviour-preserving rewrites of the three headers it reads (audit b1):
the generated definitions must not change and nothing may raise.  Also checks that real changes ARE reflected.

    python3 tools/test_translate_c04.py            # uses TAPKEE_REPO or /repo, prints one line per rewrite"""
import os, re, shutil, sys, tempfile
sys.path.insert(0, os.path.dirname(os.path.abspath(__file__)))
import translate_c04 as T

ISO = "include/tapkee/methods/isomap.hpp"
ROU = "include/tapkee/routines/isomap.hpp"
EIG = "include/tapkee/routines/eigendecomposition.hpp"


def defs(text):
    return [l for l in text.split("\n") if l.startswith("def ")]


def sub(pat, rep, count=0):
    return lambda s: re.sub(pat, rep, s, count=count, flags=re.S)


HARMLESS = {
    "m *= -0.5 without .array()": (ISO, lambda s: s.replace("shortest_distances_matrix.array() *= -0.5;", "shortest_distances_matrix *= -0.5;")),
    ".cwiseAbs2()": (ISO, lambda s: s.replace("shortest_distances_matrix.array().square();", "shortest_distances_matrix.cwiseAbs2();")),
    ".array() /= -2.0": (ISO, lambda s: s.replace("shortest_distances_matrix.array() *= -0.5;", "shortest_distances_matrix.array() /= -2.0;")),
    "log statement inside embed()": (ISO, lambda s: s.replace("        centerMatrix(shortest_distances_matrix);", '        Logging::instance().message_info("centering");\n        centerMatrix(shortest_distances_matrix);')),
    "auto embedding = eigendecomposition_via": (ISO, lambda s: s.replace("EigendecompositionResult embedding =", "auto embedding =")),
    "0.5 * (m + mT)": (ISO, sub(r"shortest_distances_matrix = \(\(shortest_distances_matrix \+ shortest_distances_matrix\.transpose\(\)\) / 2\.0\)\.eval\(\);",
                                "shortest_distances_matrix = (0.5 * (shortest_distances_matrix + shortest_distances_matrix.transpose())).eval();")),
    "two-statement symmetrisation in embed()": (ISO, sub(r"shortest_distances_matrix = \(\(shortest_distances_matrix \+ shortest_distances_matrix\.transpose\(\)\) / 2\.0\)\.eval\(\);",
                                                          "shortest_distances_matrix += shortest_distances_matrix.transpose().eval();\n        shortest_distances_matrix /= 2.0;")),
    "heap.insert(landmarks[k], 0)": (ROU, lambda s: s.replace("heap.insert(landmarks[k], 0.0);", "heap.insert(landmarks[k], 0);")),
    "local alias for landmarks[k]": (ROU, lambda s: s.replace("            f[landmarks[k]] = true;", "            const IndexType source = landmarks[k];\n            f[source] = true;")),
    "while (heap.empty() == false)": (ROU, lambda s: s.replace("while (!heap.empty())", "while (heap.empty() == false)")),
    "dense: single-statement symmetrisation": (EIG, lambda s: s.replace("    dense_wm += dense_wm.transpose().eval();\n    dense_wm /= 2.0;", "    dense_wm = ((dense_wm + dense_wm.transpose()) / 2.0).eval();")),
    "dense: *= 0.5": (EIG, lambda s: s.replace("    dense_wm /= 2.0;", "    dense_wm *= 0.5;")),
}
# real changes: the generated table must follow
CHANGES = {
    "flag index back to k": (ROU, lambda s: s.replace("f[landmarks[k]] = true;", "f[k] = true;"), "def landmarkFlag (r l : Nat) : Nat := r"),
    "square dropped": (ISO, lambda s: s.replace("        shortest_distances_matrix = shortest_distances_matrix.array().square();\n", ""), "[.symmetrise, .center, .scale (-1) (2)]"),
    "scale by +0.5": (ISO, lambda s: s.replace("*= -0.5;", "*= 0.5;"), ".scale (1) (2)]"),
    "dense symmetrisation removed": (EIG, lambda s: s.replace("    dense_wm += dense_wm.transpose().eval();\n    dense_wm /= 2.0;\n", ""), "denseSolverSymmetrises : Bool := false"),
}


def run(repo, rel, fn):
    scratch = tempfile.mkdtemp(prefix="c04-robust-", dir="/var/tmp")
    try:
        shutil.copytree(os.path.join(repo, "include", "tapkee"), os.path.join(scratch, "include", "tapkee"))
        p = os.path.join(scratch, rel)
        s = open(p).read()
        s2 = fn(s)
        if s2 == s:
            return None, "rewrite did not apply"
        open(p, "w").write(s2)
        try:
            return T.generate(scratch), None
        except Exception as ex:
            return None, "RAISES %r" % (ex,)
    finally:
        shutil.rmtree(scratch, ignore_errors=True)


def main():
    repo = os.environ.get("TAPKEE_REPO", "/repo")
    ref = defs(T.generate(repo))
    bad = 0
    for name, (rel, fn) in HARMLESS.items():
        out, err = run(repo, rel, fn)
        ok = err is None and defs(out) == ref
        bad += not ok
        print("%-45s %s" % (name, "ok" if ok else (err or "GENERATED TABLE CHANGED")))
    for name, (rel, fn, want) in CHANGES.items():
        out, err = run(repo, rel, fn)
        ok = err is None and want in out and defs(out) != ref
        bad += not ok
        print("%-45s %s" % ("[change] " + name, "followed" if ok else (err or "NOT REFLECTED")))
    return 1 if bad else 0


if __name__ == "__main__":
    sys.exit(main())
