#!/usr/bin/env python3
"""tools/addcheck.py <id> <json-file with text/note/technique>  — move a property from not_applicable to checks"""
import json, sys, os
ROOT = os.path.dirname(os.path.dirname(os.path.abspath(__file__)))
p = os.path.join(ROOT, "tools", "manifest_src.json")
src = json.load(open(p))
pid = sys.argv[1]
e = json.load(open(sys.argv[2]))
src["checks"] = [c for c in src["checks"] if c["property_id"] != pid] + [dict(property_id=pid, text=e["text"], note=e["note"], technique=e["technique"])]
src["checks"].sort(key=lambda c: c["property_id"])
src["not_applicable"] = [n for n in src["not_applicable"] if n["property_id"] != pid]
json.dump(src, open(p, "w"), indent=1)
