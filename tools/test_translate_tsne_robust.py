#!/usr/bin/env python3
"""Self-test of tools/translate_tsne.py and tools/translate_tsne_run.py (C17/C18) against the behaviour-preserving
rewrites of tools/test_translate_robust.py, applied mechanically to the three barnes_hut_sne headers of a scratch copy:
the generated definitions must not change and no shape may be reported unknown.

    python3 tools/test_translate_tsne_robust.py       # uses TAPKEE_REPO or /repo; exit 0 iff all rewrites are accepted"""
import importlib, os, shutil, sys, tempfile
sys.path.insert(0, os.path.dirname(os.path.abspath(__file__)))
R = importlib.import_module("test_translate_robust").REWRITES
import translate_tsne as TO
import translate_tsne_run as TR

REPO = os.environ.get("TAPKEE_REPO", "/repo")
SUB = "include/tapkee/external/barnes_hut_sne"


def defs(t):
    return [l for l in t.split("\n") if l.startswith("def ")]


def main():
    base = defs(TO.generate(REPO)) + defs(TR.generate(REPO))
    bad = 0
    for name, fn in R.items():
        scratch = tempfile.mkdtemp(prefix="tsne-rw-", dir="/var/tmp")
        try:
            repo = os.path.join(scratch, "repo")
            os.makedirs(os.path.join(repo, os.path.dirname(SUB)))
            shutil.copytree(os.path.join(REPO, SUB), os.path.join(repo, SUB))
            changed = 0
            for f in os.listdir(os.path.join(repo, SUB)):
                p = os.path.join(repo, SUB, f)
                s = open(p).read()
                s2 = fn(s)
                if s2 != s:
                    changed += 1
                    open(p, "w").write(s2)
            try:
                ok = defs(TO.generate(repo)) + defs(TR.generate(repo)) == base
                print("%-45s files changed %d  %s" % (name, changed, "same" if ok else "DIFFERENT"))
                bad += 0 if ok else 1
            except Exception as ex:          # UnknownShape included
                bad += 1
                print("%-45s files changed %d  RAISED %s: %s" % (name, changed, type(ex).__name__, ex))
        finally:
            shutil.rmtree(scratch, ignore_errors=True)
    return 1 if bad else 0


if __name__ == "__main__":
    sys.exit(main())
