#!/usr/bin/env python3
"""Regenerates MANIFEST.json from tools/manifest_src.json (one place to edit; keeps the file schema-valid)."""
import json, os, sys
ROOT = os.path.dirname(os.path.dirname(os.path.abspath(__file__)))
src = json.load(open(os.path.join(ROOT, "tools", "manifest_src.json")))
checks = []
for c in src["checks"]:
    pid = c["property_id"]
    checks.append({
        "property_id": pid,
        "quick_cmd": "python3 check.py %s quick" % pid,
        "thorough_cmd": "python3 check.py %s thorough" % pid,
        "evidence_file": "evidence/%s.json" % pid,
        "replay_cmd_template": "python3 check.py replay {path}",
        "engine": "lean4+corr",
        "level_claimed": {"category": "proof", "text": c["text"], "design_ref": c.get("design_ref", "DESIGN.md §6 " + pid)},
        "level_note": c["note"],
        "technique": c["technique"],
    })
man = {
    "version": 1,
    "setup_cmd": "python3 check.py setup",
    "hooks": src["hooks"],
    "engines": [{"name": "lean4+corr", "path": "check.py", "serves_properties": [c["property_id"] for c in src["checks"]],
                 "kind_free_text": "Lean 4 theorems about an executable model (lean/TapkeeVerif) + per-run correspondence of the model's "
                                   "compiled driver with the real C++ (harness/*.cpp under ASan/UBSan) + translator-regenerated tables"}],
    "checks": checks,
    "notes": src.get("notes", ""),
    "not_applicable": src.get("not_applicable", []),
}
json.dump(man, open(os.path.join(ROOT, "MANIFEST.json"), "w"), indent=1)
import jsonschema
jsonschema.validate(man, json.load(open("/root/.vp/MANIFEST.schema.json")))
claimed = {c["property_id"] for c in checks} | {n["property_id"] for n in man["not_applicable"]}
allp = [json.loads(l)["id"] for l in open(os.path.join(ROOT, "properties.jsonl"))]
missing = [p for p in allp if p not in claimed]
print("manifest ok; claimed %d, not_applicable %d, unaccounted %s" % (len(checks), len(man["not_applicable"]), missing))
