#!/usr/bin/env python3
"""Tiny translator step for C17 (DESIGN §2.2 (T)): extracts from external/barnes_hut_sne/{tsne,quadtree}.hpp
the few tokens the t-SNE model is parametrised by and emits lean/TapkeeVerif/Gen/TsneOps.lean (data only):

  * the assignment operator of `DD_map.noalias() <op> -2.0 * X_map.transpose() * X_map` in
    computeSquaredEuclideanDistance  (`=` overwrites the norm terms, `+=` accumulates),
  * the scalar factor of that product,
  * QT_NO_DIMS / QT_NODE_CAPACITY of the quadtree,
  * the iteration bound and tolerance literal of the perplexity bisection,
  * the neighbour count expression `(int)(c * perplexity)` and the `K + 1` of the tree search,
  * the divisor of the CSR symmetriser (`sym_val_P[i] /= 2.0`),
  * whether `tsne::euclidean_distance` (vptree.hpp) returns `dd` or `sqrt(dd)`, whether the K-NN perplexity routine squares
    the distances after the tree search, whether the max-normalisation is guarded against a zero maximum.
Anything it does not recognise raises (reported by check.py as a broken tie)."""
import os
import re


class UnknownShape(ValueError):
    pass


def one(pattern, text, what):
    ms = re.findall(pattern, text, flags=re.S)
    if len(ms) < 1:
        raise UnknownShape("cannot find %s" % what)
    if len(set(ms)) != 1:
        raise UnknownShape("ambiguous %s: %r" % (what, sorted(set(ms))))
    return ms[0]


def generate(repo):
    ts = open(os.path.join(repo, "include/tapkee/external/barnes_hut_sne/tsne.hpp")).read()
    qt = open(os.path.join(repo, "include/tapkee/external/barnes_hut_sne/quadtree.hpp")).read()
    vp = open(os.path.join(repo, "include/tapkee/external/barnes_hut_sne/vptree.hpp")).read()
    ts_nc = re.sub(r"//[^\n]*", "", ts)
    vp_nc = re.sub(r"//[^\n]*", "", vp)
    # tsne::euclidean_distance: `return dd;` (squared distance) or `return sqrt(dd);` (a metric)
    ret = one(r"inline ScalarType euclidean_distance\(.*?\)\s*\{.*?return\s+([^;]+);\s*\}", vp_nc, "return of tsne::euclidean_distance")
    ret = ret.replace(" ", "")
    if ret not in ("dd", "sqrt(dd)", "std::sqrt(dd)"):
        raise UnknownShape("unexpected return expression %r of tsne::euclidean_distance" % ret)
    # the K-NN perplexity routine squares the returned distances after the search (or not)
    sq = re.findall(r"tree->search\(obj_X\[n\],[^;]*;\s*for\s*\([^{};]*;[^{};]*;[^{};]*\)\s*distances\[m\]\s*\*=\s*distances\[m\]\s*;", ts_nc, flags=re.S)
    # `X.array() /= X.maxCoeff();` guarded by `if (X.maxCoeff() > 0)` (or not)
    guard = re.findall(r"if\s*\(\s*X\.maxCoeff\(\)\s*>\s*0(?:\.0?)?\s*\)\s*X\.array\(\)\s*/=\s*X\.maxCoeff\(\)\s*;", ts_nc)
    # the Gaussian rows are evaluated on distances relative to the nearest one (or on the raw distances)
    sh_dense = len(re.findall(r"exp\(-beta \* \(DD\[n \* N \+ m\] - min_DD\)\)", ts_nc))
    sh_knn = len(re.findall(r"exp\(-beta \* \(distances\[m \+ 1\] - distances\[1\]\)\)", ts_nc))
    raw_dense = len(re.findall(r"P\[n \* N \+ m\] = exp\(-beta \* DD\[n \* N \+ m\]\)", ts_nc))
    raw_knn = len(re.findall(r"exp\(-beta \* distances\[m \+ 1\]\)", ts_nc))
    if (sh_dense, sh_knn, raw_dense, raw_knn) == (1, 1, 0, 0):
        shift = True
    elif (sh_dense, sh_knn, raw_dense, raw_knn) == (0, 0, 1, 1):
        shift = False
    else:
        raise UnknownShape("cannot classify the kernel rows (shifted/raw distances): %r" % ((sh_dense, sh_knn, raw_dense, raw_knn),))
    if not re.search(r"X\.array\(\)\s*/=\s*X\.maxCoeff\(\)\s*;", ts_nc):
        raise UnknownShape("cannot find the max-normalisation statement")
    op, factor = one(r"DD_map(?:\.noalias\(\))?\s*(\+=|-=|=)\s*(-?[\d.]+)\s*\*\s*X_map\.transpose\(\)\s*\*\s*X_map\s*;", ts_nc,
                     "the DD_map product statement")
    if op not in ("=", "+="):
        raise UnknownShape("unexpected operator %r in the DD_map statement" % op)
    if float(factor) != -2.0:
        raise UnknownShape("unexpected factor %r in the DD_map statement" % factor)
    nodims = int(one(r"static const int QT_NO_DIMS\s*=\s*(\d+)\s*;", qt, "QT_NO_DIMS"))
    cap = int(one(r"static const int QT_NODE_CAPACITY\s*=\s*(\d+)\s*;", qt, "QT_NODE_CAPACITY"))
    iters = int(one(r"while\s*\(!found\s*&&\s*iter\s*<\s*(\d+)\)", ts_nc, "bisection iteration bound"))
    tol = one(r"ScalarType tol\s*=\s*([\de.+-]+)\s*;", ts_nc, "bisection tolerance")
    if float(tol) != 1e-5:
        raise UnknownShape("unexpected bisection tolerance %r" % tol)
    kmult = one(r"perplexity,\s*\(int\)\s*\(\s*(\d+)\s*\*\s*perplexity\s*\)\s*\)", ts_nc, "neighbour count expression")
    kplus = one(r"tree->search\(obj_X\[n\],\s*K\s*\+\s*(\d+)\s*,", ts_nc, "K + 1 of the tree search")
    dop, dnum = one(r"sym_val_P\[i\]\s*(/=|\*=)\s*([\d.]+)\s*;", ts_nc, "divisor of the CSR symmetriser")
    div = float(dnum) if dop == "/=" else (1.0 / float(dnum) if float(dnum) != 0 else 0.0)   # `*= 0.5` is `/= 2.0`
    if div != float(int(div)) or div < 1:
        raise UnknownShape("symmetriser scaling %s %s is not a division by a positive integer" % (dop, dnum))
    lines = [
        "/- GENERATED by tools/translate_tsne.py from include/tapkee/external/barnes_hut_sne/{tsne,quadtree}.hpp.",
        "   Do not edit; regenerated on every check run.",
        "   source: DD_map.noalias() %s %s * X_map.transpose() * X_map -/" % (op, factor),
        "namespace TapkeeVerif.Gen.TsneOps",
        "",
        "/-- `true`: the Gram term is *added* to `dataSums[n] + dataSums[m]` (`+=`); `false`: it overwrites it (`=`) -/",
        "def ddAccumulate : Bool := %s" % ("true" if op == "+=" else "false"),
        "def qtNoDims : Nat := %d" % nodims,
        "def qtNodeCapacity : Nat := %d" % cap,
        "def bisectIters : Nat := %d" % iters,
        "/-- `K = (int)(kMult * perplexity)` -/",
        "def kMult : Nat := %s" % kmult,
        "/-- the tree search asks for `K + kPlus` results -/",
        "def kPlus : Nat := %s" % kplus,
        "/-- `sym_val_P[i] /= symDivisor` -/",
        "def symDivisor : Nat := %d" % int(div),
        "/-- `tsne::euclidean_distance` returns `sqrt(dd)` (`true`) or the squared distance `dd` (`false`) -/",
        "def vpMetric : Bool := %s" % ("false" if ret == "dd" else "true"),
        "/-- the K-NN perplexity routine squares the distances returned by the tree search -/",
        "def squareAfterSearch : Bool := %s" % ("true" if sq else "false"),
        "/-- `X /= X.maxCoeff()` is guarded by `if (X.maxCoeff() > 0)` -/",
        "def maxGuard : Bool := %s" % ("true" if guard else "false"),
        "/-- the Gaussian rows use `d_m - d_nearest` (dense: `min_DD` over the other samples; K-NN: `distances[1]`) -/",
        "def shiftByNearest : Bool := %s" % ("true" if shift else "false"),
        "",
        "end TapkeeVerif.Gen.TsneOps",
        "",
    ]
    return "\n".join(lines)


if __name__ == "__main__":
    import sys
    print(generate(sys.argv[1] if len(sys.argv) > 1 else "/repo"))
