#!/usr/bin/env python3
"""Translator step for C17, part 1 (DESIGN §2.2 (T)): the few operators and constants the t-SNE stage models are
parametrised by → lean/TapkeeVerif/Gen/TsneOps.lean (data only).

Works on token streams of the function bodies (comments and whitespace irrelevant, `x++`/`++x`/`x += 1` identified,
`std::sqrt`/`sqrt`, `NULL`/`nullptr` identified, names of locals captured and never assumed), so re-indenting, renaming a
local or rewriting `while (c)` as `for (; c;)` does not disturb it.  What it extracts:

  * the assignment operator of `<DD>.noalias() <op> -2.0 * <X>.transpose() * <X>` in computeSquaredEuclideanDistance,
  * QT_NO_DIMS / QT_NODE_CAPACITY of the quadtree,
  * the iteration bound and the tolerance of the perplexity bisection (all copies must agree; the tolerance is emitted
    as the exact value of the double the literal denotes — the specification `≤ 1e-4` is an obligation in Props/C17),
  * the `K + 1` of the tree search, the neighbour multiplier of `run`,
  * the divisor of the CSR symmetriser (`/= 2.0` or `*= 0.5`),
  * whether `tsne::euclidean_distance` returns the accumulated squares or their square root, whether the K-NN routine
    squares the distances after the search, whether the kernel rows use distances relative to the nearest one,
    whether the max-normalisation of `run` is guarded.
A shape it does not recognise raises `UnknownShape` (a broken tie of lower severity than a failing input)."""
import os
import re
import sys
from fractions import Fraction

sys.path.insert(0, os.path.dirname(os.path.abspath(__file__)))
from translate_tsne_run import ID, NUM, INC, UnknownShape, tokens  # noqa: E402


def definitions(toks, name):
    """token strings of the bodies of ALL definitions `name ( ... ) {` (overloads), in source order"""
    out = []
    i = 0
    while i < len(toks) - 1:
        if toks[i] == name and toks[i + 1] == "(":
            depth, j = 0, i + 1
            while j < len(toks):
                if toks[j] == "(":
                    depth += 1
                elif toks[j] == ")":
                    depth -= 1
                    if depth == 0:
                        break
                j += 1
            if j + 1 < len(toks) and toks[j + 1] == "{":
                depth, k = 0, j + 1
                while k < len(toks):
                    if toks[k] == "{":
                        depth += 1
                    elif toks[k] == "}":
                        depth -= 1
                        if depth == 0:
                            break
                    k += 1
                out.append(" ".join(toks[j + 2:k]))
                i = k
        i += 1
    return out


def all_same(values, what):
    vs = sorted(set(values))
    if not vs:
        raise UnknownShape("cannot find %s" % what)
    if len(vs) != 1:
        raise UnknownShape("the copies of %s disagree: %r" % (what, vs))
    return vs[0]


def norm(s):
    return s.replace("std :: sqrt", "sqrt").replace("std :: exp", "exp").replace("std :: log", "log")


def one_def(toks, name):
    ds = definitions(toks, name)
    if len(ds) != 1:
        raise UnknownShape("expected exactly one definition of %s, found %d" % (name, len(ds)))
    return norm(ds[0])


def generate(repo):
    ts = tokens(open(os.path.join(repo, "include/tapkee/external/barnes_hut_sne/tsne.hpp")).read())
    qt = " ".join(tokens(open(os.path.join(repo, "include/tapkee/external/barnes_hut_sne/quadtree.hpp")).read()))
    vp = tokens(open(os.path.join(repo, "include/tapkee/external/barnes_hut_sne/vptree.hpp")).read())
    # --- squared distances
    sq = one_def(ts, "computeSquaredEuclideanDistance")
    m = re.search(r"%s (?:\. noalias \( \) )?(=|\+=) - %s \* %s \. transpose \( \) \* %s ;" % (ID, NUM, ID, ID), sq)
    if not m:
        raise UnknownShape("cannot find the Gram statement of computeSquaredEuclideanDistance")
    op, factor = m.group(2), Fraction(m.group(3))
    if factor != 2 or m.group(4) != m.group(5):
        raise UnknownShape("the Gram statement is not `-2 * Xᵀ * X`")
    # --- quadtree constants
    # `static const int X = 2;`, `static constexpr int X = 2;`, `constexpr static std::size_t X { 2 };`, `enum { X = 2 };`
    def constant(name):
        return (re.search(r"\b(?:static |const |constexpr |inline |unsigned |int |long |std :: size_t |size_t )+%s (?:=|\{) (\d+) \}? ?;" % name, qt)
                or re.search(r"enum (?:[A-Za-z_]\w* )?\{ [^}]*\b%s = (\d+) [,}]" % name, qt))
    m1, m2 = constant("QT_NO_DIMS"), constant("QT_NODE_CAPACITY")
    if not (m1 and m2):
        raise UnknownShape("cannot find QT_NO_DIMS / QT_NODE_CAPACITY")
    nodims, cap = int(m1.group(1)), int(m2.group(1))
    # --- perplexity routines
    gps = [norm(b) for b in definitions(ts, "computeGaussianPerplexity")]
    if len(gps) < 2:
        raise UnknownShape("expected the dense and the K-NN overload of computeGaussianPerplexity")
    iters, tols = [], []
    for b in gps:
        for m in re.finditer(r"while \( ! %s && %s < %s \)" % (ID, ID, NUM), b):
            iters.append(int(m.group(3)))
        for m in re.finditer(r"for \( [^;()]*; ! %s && %s < %s ;" % (ID, ID, NUM), b):
            iters.append(int(m.group(3)))
        for m in re.finditer(r"if \( %s < %s && - \1 < \2 \)" % (ID, ID), b):
            tol_id = m.group(2)
            d = re.search(r"(?:^| |,)%s = %s (?:,|;)" % (re.escape(tol_id), NUM), b)
            if not d:
                raise UnknownShape("no initialiser for the bisection tolerance %s" % tol_id)
            tols.append(d.group(1))
    iters_v = all_same(iters, "the bisection iteration bound")
    tol_lit = all_same([repr(float(t)) for t in tols], "the bisection tolerance")
    tol_num, tol_den = float(tol_lit).as_integer_ratio()
    knn = [b for b in gps if "-> search (" in b]
    if len(knn) != 1:
        raise UnknownShape("cannot identify the K-NN overload of computeGaussianPerplexity")
    knn = knn[0]
    m = re.search(r"%s -> search \( %s \[ %s \] , %s \+ (\d+) , & %s , & %s \) ;" % (ID, ID, ID, ID, ID, ID), knn)
    if not m:
        raise UnknownShape("cannot find the tree search call")
    kplus, dist_id = int(m.group(5)), m.group(7)
    squared_after = re.search(r"\) %s \[ %s \] \*= %s \[ \1 \] ;" % (re.escape(dist_id), ID, re.escape(dist_id)), knn) is not None
    # kernel rows: shifted or raw distances, in the two overloads `run` calls (the first dense one and the K-NN one)
    dense = [b for b in gps if "-> search (" not in b]
    sh = lambda b: len(re.findall(r"exp \( - %s \* \( [^;]*? - %s(?: \[ [^\]]* \])? \) \)" % (ID, ID), b))
    raw = lambda b: len(re.findall(r"exp \( - %s \* %s \[ [^\]]* \] \)" % (ID, ID), b))
    flags = set()
    for b in (dense[0], knn):
        if sh(b) >= 1 and raw(b) == 0:
            flags.add(True)
        elif sh(b) == 0 and raw(b) >= 1:
            flags.add(False)
        else:
            raise UnknownShape("cannot classify a kernel row (shifted/raw distances): %d shifted, %d raw" % (sh(b), raw(b)))
    if len(flags) != 1:
        raise UnknownShape("the dense and the K-NN routine disagree on shifting the distances")
    shift = flags.pop()
    # --- run: neighbour multiplier and guard
    run = one_def(ts, "run")
    m = re.search(r"\( int \) \( %s \* %s \) \) ;" % (NUM, ID), run)
    if not m:
        raise UnknownShape("cannot find the neighbour count expression of run")
    kmult = Fraction(m.group(1))
    if kmult.denominator != 1:
        raise UnknownShape("non-integer neighbour multiplier %s" % kmult)
    if not re.search(r"%s \. array \( \) /= \1 \. maxCoeff \( \) ;" % ID, run):
        raise UnknownShape("cannot find the max-normalisation statement")
    guard = re.search(r"if \( %s \. maxCoeff \( \) > 0 \) \1 \. array \( \) /= \1 \. maxCoeff \( \) ;" % ID, run) is not None
    # --- CSR symmetriser divisor: the halving loop
    sym = one_def(ts, "symmetrizeMatrix")
    ms = re.findall(r"for \( int %s = 0 ; \1 < %s ; %s \) %s \[ \1 \] (/=|\*=) %s ;" % (ID, ID, INC(r"\1"), ID, NUM), sym)
    if len(ms) != 1:
        raise UnknownShape("cannot find the halving loop of symmetrizeMatrix")
    dop, dnum = ms[0][3], Fraction(ms[0][4])
    div = dnum if dop == "/=" else (1 / dnum if dnum != 0 else Fraction(0))
    if div.denominator != 1 or div < 1:
        raise UnknownShape("symmetriser scaling %s %s is not a division by a positive integer" % (dop, dnum))
    # --- the distance handed to the VP-tree
    ed = one_def(vp, "euclidean_distance")
    m = re.search(r"ScalarType %s = %s ; for .* \1 \+= .* ; return (sqrt \( \1 \)|\1) ;" % (ID, NUM), ed)
    if not m:
        raise UnknownShape("unexpected shape of tsne::euclidean_distance")
    metric = m.group(3).startswith("sqrt")
    lines = [
        "/- GENERATED by tools/translate_tsne.py from include/tapkee/external/barnes_hut_sne/{tsne,quadtree,vptree}.hpp.",
        "   Do not edit; regenerated on every check run. -/",
        "namespace TapkeeVerif.Gen.TsneOps",
        "",
        "/-- `true`: the Gram term is *added* to `dataSums[n] + dataSums[m]` (`+=`); `false`: it overwrites it (`=`) -/",
        "def ddAccumulate : Bool := %s" % ("true" if op == "+=" else "false"),
        "def qtNoDims : Nat := %d" % nodims,
        "def qtNodeCapacity : Nat := %d" % cap,
        "def bisectIters : Nat := %d" % iters_v,
        "/-- the tolerance of the bisection: the exact value (numerator, denominator) of the double its literal denotes -/",
        "def bisectTol : Nat × Nat := (%d, %d)" % (tol_num, tol_den),
        "/-- `K = (int)(kMult * perplexity)` -/",
        "def kMult : Nat := %d" % int(kmult),
        "/-- the tree search asks for `K + kPlus` results -/",
        "def kPlus : Nat := %d" % kplus,
        "/-- `sym_val_P[i] /= symDivisor` -/",
        "def symDivisor : Nat := %d" % int(div),
        "/-- `tsne::euclidean_distance` returns `sqrt(dd)` (`true`) or the squared distance `dd` (`false`) -/",
        "def vpMetric : Bool := %s" % ("true" if metric else "false"),
        "/-- the K-NN perplexity routine squares the distances returned by the tree search -/",
        "def squareAfterSearch : Bool := %s" % ("true" if squared_after else "false"),
        "/-- `X /= X.maxCoeff()` is guarded by `if (X.maxCoeff() > 0)` -/",
        "def maxGuard : Bool := %s" % ("true" if guard else "false"),
        "/-- the Gaussian rows use `d_m - d_nearest` (dense: `min_DD` over the other samples; K-NN: `distances[1]`) -/",
        "def shiftByNearest : Bool := %s" % ("true" if shift else "false"),
        "",
        "end TapkeeVerif.Gen.TsneOps",
        "",
    ]
    return "\n".join(lines)


if __name__ == "__main__":
    print(generate(sys.argv[1] if len(sys.argv) > 1 else "/repo"))
